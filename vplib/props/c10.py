"""C10 -- ill-scoped programs are rejected, never compiled to something else.

proof    Props/C10.v over Model/Scope.v (lookup as a candidate set, 0/1/many rule, wildcard inference, function
         application) and Gen/GenC10Std.v (std names and signatures regenerated from semantic/std.prql).
tie      generated well-scoped programs with an exactly tracked frame: for references of the unmutated program the
         column the implementation bound (read from the RQ) must be the one the model resolves; for one
         scope-breaking edit at every applicable site the model's verdict (evaluated inside Coq on the encoded scope
         situation) must be the implementation's: an error, of the same kind.
oracle   every mutated program must fail to compile (error, not ok, not panic).
"""
import json
import os
import re

from ..common import Check, coq_eval, harness
from .. import rqcoq
from . import c10_std, c10_gen, c16_wf

TRUSTED = [
    "Coq 8.16.1 kernel (coqc, vm_compute); no axioms: every theorem is 'Closed under the global context'",
    "translator vplib/props/c10_std.py (std.prql through prqlc's own parser via harness `parsefile`; head_cfg: regex pins of lower_expr's ident arm in semantic/lowering.rs and of resolve_ident's module walk in semantic/resolver/names.rs; fails closed)",
    "hook lowerer-op-trace (120eb8c, `verif:lowerer_op` lines, cfg(prqlc_verif)): read-only; the oracle trusts that every RQ expression the Lowerer builds appears in a `declare` or `push` line with its source span",
    "harness (prqlc::compile, prql_to_pl + pl_to_rq) and the python comparison; vplib/rqcoq.py to read the bound column out of the RQ",
    "modelled, not verified: the resolver -- Model/Scope.v restates Module::lookup, resolve_ident_core, infer_table_column's wildcard rule, "
    "apply_args_to_closure and fold_function; it is validated per program by this check, not proved equal to the Rust code",
    "the generator's frame tracking (vplib/props/c10_gen.py): validated by the well-scoped stream (every unmutated program must compile and bind as predicted)",
]

F1 = "C10-F1-module-or-relation-name-passes-through"     # fixed by a131b2a: never returned by a classifier
F2 = "C10-F2-bare-that-outside-join-passes-through"
F3 = "C10-F3-ancestor-module-declaration-not-found"
F4 = "C10-F4-scalar-function-call-accepted-as-relation"
F5 = "C10-F5-duplicate-name-in-tuple-resolves-to-the-last"
F6 = "C10-F6-excluded-column-of-wildcard-input-inferred-back"
F7 = "C10-F7-module-or-relation-name-in-dead-case-branch-accepted"
STD_SCALAR_CALLS = ["(math.abs 3)", "(math.round 1 2.5)", "(math.floor 2.5)", "(sum 3)", "(count this)", "(min 3)", "(math.pow 2 3)", "(3 + 4)", "(text.upper \"a\")"]

HEADER = ("From Coq Require Import List NArith Bool.\nFrom PV Require Import Lib.ListX Model.Scope Gen.GenC10Std.\n"
          "Import ListNotations.\nLocal Open Scope N_scope.\n"
          "Definition sig_of (p : list str) : option fsig := option_map snd (find (fun e => path_eqb p (fst e)) std_sigs).\n"
          "Definition call (p : list str) (args : list akind) (named : list str) : applied :=\n"
          "  match sig_of p with Some s => apply_fn s args named | None => AErr EUnknown end.\n")


def cs(x):
    return "[" + ";".join(str(ord(c)) for c in x) + "]"


def coq_scope(prog, this, that=None):
    root = [("std", "NModule"), ("default_db", "NModule"), ("_param", "NModule")] + list(prog.root)
    r = "[" + "; ".join("(%s, %s)" % (cs(n), k) for n, k in root) + "]"
    return "(mkScope %s %s %s [] std_names)" % (r, this.coq(), "None" if that is None else "(Some %s)" % that.coq())


def coq_ident(ident):
    return "([%s], %s)" % ("; ".join(cs(q) for q in ident[0]), cs(ident[1]))


def outcome_kind(v):
    """parsed Coq outcome -> short tag"""
    if isinstance(v, str):
        return v
    if v[0] == "OErr":
        return "OErr:" + v[1]
    return v[0]


def err_kind(a):
    if "ok" in a:
        return "ok"
    if "panic" in a or "abort" in a:
        return "panic"
    if "err" in a:
        rs = " | ".join(e.get("reason", "") for e in a["err"])
        if rs.startswith("Unknown name") or "Unknown name" in rs:
            return "err:unknown"
        if "Ambiguous name" in rs:
            return "err:ambiguous"
        if "Too many arguments" in rs:
            return "err:too-many"
        if "unknown named argument" in rs:
            return "err:unknown-named"
        if "table variable cannot be used as a scalar value" in rs:
            return "err:not-a-value"
        if "internal compiler error" in rs:
            return "err:internal"
        if "expected" in rs:
            return "err:expected"
        return "err:other"
    return "other"


def bound_column(rqjson):
    """(kind, where, name) of the single column the program's closing Select exposes:
       ("from", None, name) | ("join", j, name) | ("compute",) | None"""
    q = rqcoq.norm(rqjson)
    rel = q[2]
    if rel[1][0] != "KPipeline":
        return None
    p = rel[1][1]
    if not p or p[-1][0] != "TSelect" or len(p[-1][1]) != 1:
        return None
    cid = p[-1][1][0]
    j = 0
    for t in p:
        if t[0] == "TFrom":
            for rc, c in t[1][2]:
                if c == cid:
                    return ("from", 0, rc[1] if rc[0] == "RSingle" else "*")
        elif t[0] == "TJoin":
            j += 1
            for rc, c in t[2][2]:
                if c == cid:
                    return ("join", j, rc[1] if rc[0] == "RSingle" else "*")
        elif t[0] == "TCompute" and t[1] == cid:
            return ("compute",)
    return ("elsewhere",)


HOOK = "verif:lowerer_op"
OPS_SEEN = {}
KNOWN_OPS = {"extern", "table", "relation_begin", "relation_end", "instance", "push", "declare", "redirect", "loop_begin", "loop_end", "reserve", "inline_table",
             "leaf", "push_select", "window_set", "window_take", "window_reset",
             "lookup_in", "lookup_out", "lookup_all", "selected_all"}      # the last four: hooks lookup-cid / selected-all (reads of the node mapping), ignored


def trace_passthroughs(src, entries):
    """Site-independent oracle on the lowerer's operation trace (hook lowerer-op-trace, 120eb8c; read-only use):
    every RQ expression the Lowerer produced -- also in programs that fail later -- is searched for
      * an SString that consists of ONE literal piece which is exactly the source text at the expression's span: the
        source spells a bare word there, not an s-string, i.e. lower_expr's unresolved-ident fallback fired
        (exempt: the type operand of std.as, `x | as int`, which reaches SQL that way by design);
      * a ColumnRef to a column id that no earlier operation of the trace introduced.
    Returns (number of hook lines, [(word, span)], [(cid, span)])."""
    n = 0
    words, unknown = [], []
    known = set()
    lines = src.split("\n")

    def text_at(span):
        m = re.match(r"^(\d+):(\d+)-(\d+)$", span or "")
        if not m:
            return None
        return src[int(m.group(2)):int(m.group(3))]

    def walk(v, exempt=False):
        if isinstance(v, dict):
            k = v.get("kind")
            if isinstance(k, dict) and "span" in v:
                if "SString" in k:
                    items = k["SString"]
                    if len(items) == 1 and isinstance(items[0], dict) and "String" in items[0] and not exempt:
                        t_ = text_at(v.get("span"))
                        w_ = items[0]["String"]
                        if t_ is not None and (t_ == w_ or re.match(r"^(?:[A-Za-z_][A-Za-z0-9_]*\.)+%s$" % re.escape(w_), t_)):
                            words.append((w_, v.get("span")))
                if "ColumnRef" in k and isinstance(k["ColumnRef"], int) and k["ColumnRef"] not in known:
                    unknown.append((k["ColumnRef"], v.get("span")))
                if "Operator" in k and isinstance(k["Operator"], dict) and k["Operator"].get("name") == "std.as":
                    args = k["Operator"].get("args") or []
                    for i, a_ in enumerate(args):
                        walk(a_, exempt=(i == 0))
                    return
            for x in v.values():
                walk(x)
        elif isinstance(v, list):
            for x in v:
                walk(x)

    for e in entries:
        m = e.get("Message") if isinstance(e, dict) else None
        if not m or not m.startswith(HOOK + " "):
            continue
        n += 1
        try:
            d = json.loads(m[len(HOOK) + 1:])
        except ValueError:
            continue
        op, dd = d.get("op"), d.get("d") or {}
        OPS_SEEN[op] = OPS_SEEN.get(op, 0) + 1
        if op in ("window_set", "window_take", "window_reset"):
            # hook lowerer-window (435d73d, C04's): when the Lowerer's window field is set / taken / reset -- bookkeeping of
            # partition and frame, no expression is built there: accepted and ignored
            continue
        if op == "instance":
            for c in dd.get("columns") or []:
                if isinstance(c, list) and len(c) == 2 and isinstance(c[1], int):
                    known.add(c[1])
        elif op == "declare":
            if "compute" in dd:
                walk(dd["compute"].get("expr"))
                if isinstance(dd["compute"].get("id"), int):
                    known.add(dd["compute"]["id"])
            if isinstance(dd.get("cid"), int):
                known.add(dd["cid"])
        elif op == "push":
            walk(dd.get("transform"))
        elif op in ("redirect", "loop_begin", "loop_end", "relation_end", "table", "extern", "reserve", "inline_table", "leaf", "relation_begin"):
            # ids introduced by other bookkeeping operations count as known; expressions do not occur in them
            def ids(v):
                if isinstance(v, dict):
                    for kk, x in v.items():
                        if kk in ("cid", "id") and isinstance(x, int):
                            known.add(x)
                        ids(x)
                elif isinstance(v, list):
                    for x in v:
                        ids(x)
            ids(dd)
    return n, words, unknown


def judge_module(ck, c, classify_module):
    """declarations inside modules: the model's verdict (faithful to resolve_ident) vs the implementation, and the
    property's verdict (reference/spec/modules.md: own module, then the parents, then the root) vs both"""
    st, mc, mv, a = c["stream"], c["mc"], c.get("model"), c["answer"]
    ck.count(st, c["src"])
    rep = {"program": c["src"], "stream": st, "impl": c["impl"], "site": mc.site, "module_case": mc.describe(), "model": str(mv)}
    sql = a.get("ok", "") if isinstance(a, dict) else ""
    # the property's verdict
    visible = mc.where != "none"
    if mc.site == "value-open":
        # an open frame: an undeclared name is legitimately inferred as a column of the database table
        must_reject = visible and mc.kind in ("table", "func", "module")
    elif mc.site == "value":
        must_reject = (not visible) or mc.kind in ("table", "func", "module")
    else:
        must_reject = visible and mc.kind != "table"
    ck.stat(st, "%s:%s:%s:depth%d" % (mc.site, mc.kind if visible else "undeclared", mc.where, mc.depth))
    if mv is None:
        return
    if mc.site in ("value", "value-open"):
        mk = outcome_kind(mv)
        model_rejects = mk.startswith("OErr")
    else:
        res, declared = mv
        mk = res if isinstance(res, str) else "%s:%s" % (res[0], res[1])
        model_rejects = not isinstance(res, str) or res != "Applied"
    rep["model_kind"] = mk
    ck.stat(st, "model:" + mk)
    ck.stat(st, "impl:" + c["impl"])
    if c["impl"] in ("panic", "other"):
        ck.violation("a declaration inside a module makes the compiler panic", dict(rep, answer=str(a)[:300]))
        return
    impl_rejects = c["impl"] != "ok"
    # 1. model vs implementation
    if model_rejects != impl_rejects:
        if impl_rejects:
            ck.violation("modules: the model resolves the reference (%s) but the implementation rejects it (%s)" % (mk, c["impl"]), dict(rep, answer=str(a)[:300]))
        else:
            ck.violation("ill-scoped program compiled: modules (the model says %s)" % mk, dict(rep, answer=sql[:300]))
        return
    if impl_rejects and mc.site in ("value", "value-open"):
        want = {"OErr:EUnknown": ("err:unknown",), "OErr:EAmbiguous": ("err:ambiguous",), "OErr:ENotAValue": ("err:expected", "err:not-a-value")}.get(mk)
        if want and c["impl"] not in want:
            ck.violation("modules: rejected, but not for the reason the model gives (%s vs %s)" % (c["impl"], mk), dict(rep, answer=str(a)[:300]))
            return
    if not impl_rejects:
        if mc.site in ("value", "value-open"):
            if ("4242" in sql) != (mk == "OValue"):
                ck.violation("modules: the model says the reference is %s, the SQL says otherwise" % mk, dict(rep, answer=sql[:300]))
                return
            if mk == "OInferredColumn" and visible and mc.kind == "const":
                ck.disagreement("a constant declared in an enclosing module is compiled as a column of the database table (inferred): compiled to something else",
                                dict(rep, answer=sql[:300]), classify_module)
                return
        else:
            uses_decl = "zsrc" in sql
            if uses_decl != bool(declared):
                ck.violation("modules: the model says the table reference is %s, the SQL says otherwise" % ("a declared relation" if declared else "a database table"),
                             dict(rep, answer=sql[:300]))
                return
    # 2. the property vs the (agreeing) model and implementation
    if must_reject and not impl_rejects:
        ck.disagreement("ill-scoped program compiled: a name declared in an enclosing module as a %s stands where a relation is required and is read as a database table" % mc.kind,
                        dict(rep, answer=sql[:300]), classify_module)
    elif not must_reject and not impl_rejects and mc.site not in ("value", "value-open") and visible and "zsrc" not in sql:
        ck.disagreement("a relation declared in an enclosing module is compiled to a database table of the same name",
                        dict(rep, answer=sql[:300]), classify_module)
    elif not must_reject and impl_rejects:
        # a well-scoped program that is rejected: safe, not the property's subject
        ck.stat(st, "well-scoped-by-spec-but-rejected:%s:depth%d" % (mc.where, mc.depth))


def run():
    ck = Check("C10", level="proof")
    info = c10_std.generate()
    pr = ck.prove()
    if "error" in info:
        ck.coverage["translator_error"] = info["error"]
    # The two open findings have a prepared fixed state: the model is parameterised by what the source looks like
    # (Gen/GenC10Std.v head_cfg).  When the translator sees the repaired shape, the finding is treated as FIXED for this run
    # (no classifier returns it, its replay must be rejected, the full-strength branch of c10_head_* is the one proved).
    cfg = info.get("cfg") if "error" not in info else None
    ck.coverage["head_cfg"] = cfg
    fixed_by_shape = {}
    if cfg:
        for fid, flag, rel in ((F2, "that_rejected", "prqlc/prqlc/src/semantic/lowering.rs"), (F3, "parent_walk", "prqlc/prqlc/src/semantic/resolver/names.rs"),
                               (F4, "std_call_rejected", "prqlc/prqlc/src/semantic/resolver/types.rs"), (F7, "dead_case_checked", "prqlc/prqlc/src/semantic/resolver/static_eval.rs")):
            if cfg[flag]:
                try:
                    import subprocess
                    from ..common import REPO
                    last = subprocess.run(["git", "-C", REPO, "log", "-1", "--format=%h %s", "--", rel], capture_output=True, text=True, timeout=30).stdout.strip()
                except Exception:
                    last = ""
                for f in ck.findings:
                    if f["id"] == fid and f.get("status", "open") == "open":
                        f["status"] = "fixed"
                        f["commit"] = last or "(repaired shape seen in %s)" % rel
                        fixed_by_shape[fid] = f["commit"]
    ck.coverage["findings_fixed_by_source_shape"] = fixed_by_shape
    g = c10_gen.Gen(ck.rng)
    nprog = ck.n(260, 2000)
    pnames = info.get("param_names", {}) if "error" not in info else {}
    named_of = dict((tuple(p), n) for p, _, n in info.get("sigs", [])) if "error" not in info else {}

    progs = []
    for i in range(nprog):
        progs.append(g.program(open_ok=(i % 3 == 0), module_like=(i % 7 == 0)))

    # ------------------------------------------------------------------ build all cases
    cases = []     # dict(stream, src, coq, expect..., meta)
    for pi, p in enumerate(progs):
        base = p.text()
        final = p.frames[-1]
        # S1: well-scoped references of the unmutated program
        cases.append({"stream": "well-scoped", "src": base, "coq": None, "kind": "base", "pi": pi})
        refs = g.refs(final)
        for txt, ident, exp in (g.r.sample(refs, min(3, len(refs))) if refs else []):
            cases.append({"stream": "well-scoped", "src": p.text(extra=["select {%s}" % txt]), "kind": "ref", "pi": pi,
                          "coq": "lower_ref head_cfg %s %s" % (coq_scope(p, final), coq_ident(ident)),
                          "expect": exp, "frame": final.describe(), "ref": txt})
        root_names = [n for n, _ in p.root]
        for k in range(1, len(p.frames)):
            fr = p.frames[k]
            taken = set(fr.all_cols()) | set(fr.input_names()) | set(root_names)
            site_kinds = list(c10_gen.SITES)
            # (a) dropped column, when the frame is fully known
            if fr.closed:
                cand = [d for d in p.dropped if d not in taken]
                for d in g.r.sample(cand, min(2, len(cand))):
                    sk = g.pick(site_kinds)
                    ident = (["this"], d) if sk == "join-cond" else ([], d)
                    that = c10_gen.Frame([c10_gen.Input("w", [], True, c10_gen.TABLES["w"])]) if sk == "join-cond" else None
                    cases.append({"stream": "edit-a-dropped-column", "src": p.text(upto=k, extra=[c10_gen.SITES[sk] % d]), "kind": "edit", "pi": pi,
                                  "coq": "%s head_cfg %s %s" % ("lower_ref_dead" if sk in c10_gen.DEAD_SITES else "lower_ref", coq_scope(p, fr, that), coq_ident(ident)),
                                  "site": sk, "name": d, "frame": fr.describe()})
            # (b) bare name known to two inputs
            amb = [n for n in dict.fromkeys(fr.all_cols()) if fr.count(n) >= 2]
            for n in amb[:2]:
                sk = g.pick([s for s in site_kinds if s != "join-cond"])
                cases.append({"stream": "edit-b-ambiguous-name", "src": p.text(upto=k, extra=[c10_gen.SITES[sk] % n]), "kind": "edit", "pi": pi,
                              "coq": "lower_ref head_cfg %s %s" % (coq_scope(p, fr), coq_ident(([], n))),
                              "site": sk, "name": n, "frame": fr.describe()})
        # (c) (d): per transform step of the program
        for k, st in enumerate(p.steps):
            if not st.sig:
                continue
            path = "[" + "; ".join(cs(x) for x in st.sig) + "]"
            fname = st.text.split(" ", 1)[0]
            rest = st.text[len(fname):]
            if g.chance(0.5):
                args = "[" + "; ".join(["AScalar"] * (st.nargs + 1) + ["ARel"]) + "]"
                if st.kind == "join":
                    args = "[ARel; AScalar; AScalar; ARel]"
                if st.kind == "group":
                    args = "[AScalar; AFunc; AScalar; ARel]"
                cases.append({"stream": "edit-c-surplus-positional", "src": p.text(upto=k, extra=[st.text + " 7"]), "kind": "call", "pi": pi,
                              "coq": "call %s %s []" % (path, args), "site": st.kind})
            if g.chance(0.5):
                args = "[" + "; ".join(["AScalar"] * st.nargs + ["ARel"]) + "]"
                if st.kind == "join":
                    args = "[ARel; AScalar; ARel]"
                if st.kind == "group":
                    args = "[AScalar; AFunc; ARel]"
                # an unknown name: arbitrary, the name of one of the callee's POSITIONAL parameters, or a named
                # parameter of some other function -- none of them is a named parameter of this function
                own_named = set(named_of.get(tuple(st.sig), []))
                pool = ["zz"] + [n for n in pnames.get(tuple(st.sig), []) if n not in own_named] + [n for n in ("side", "rolling", "rows") if n not in own_named]
                un = g.pick(pool)
                before = g.chance(0.5)
                txt = "%s %s:1%s" % (fname, un, rest) if before else "%s %s:1" % (st.text, un)
                cases.append({"stream": "edit-d-unknown-named", "src": p.text(upto=k, extra=[txt]), "kind": "call", "pi": pi,
                              "coq": "call %s %s [%s]" % (path, args, cs(un)), "site": st.kind, "name": un})
        # user / std scalar functions -- bare in a derive, or inside a case branch that static evaluation removes
        fr = p.frames[-1]
        a = g.num_ref(fr)
        wrap = g.pick(["derive {zz = %s}", "derive {zz = %s}", "derive {zz = case [false => %s, true => 0]}", "derive {zz = case [zflag => %s, true => 0]}",
                       "derive {zz = case [true => 0, true => %s]}"])
        if a is not None:
            for f in p.funcs:
                cases.append({"stream": "edit-c-surplus-positional", "src": p.text(extra=[wrap % ("(%s %s 7)" % (f, a[0]))]), "kind": "call", "pi": pi,
                              "coq": "apply_fn (mkSig [PAny] []) [AScalar; AScalar] []", "site": "user-fn" + (":in-dead-case" if "case" in wrap else "")})
                un = g.pick(["zz", "v"])      # `v` is the name of the function's positional parameter
                cases.append({"stream": "edit-d-unknown-named", "src": p.text(extra=[wrap % ("(%s %s:1 %s)" % (f, un, a[0]))]), "kind": "call", "pi": pi,
                              "coq": "apply_fn (mkSig [PAny] []) [AScalar] [%s]" % cs(un), "site": "user-fn" + (":in-dead-case" if "case" in wrap else ""), "name": un})
            if g.chance(0.3):
                cases.append({"stream": "edit-c-surplus-positional", "src": p.text(extra=[wrap % ("(math.round 1 %s 7)" % a[0])]), "kind": "call", "pi": pi,
                              "coq": "call [%s; %s] [AScalar; AScalar; AScalar] []" % (cs("math"), cs("round")), "site": "std-fn" + (":in-dead-case" if "case" in wrap else "")})
                un = g.pick(["zz", "n_digits", "column"])
                cases.append({"stream": "edit-d-unknown-named", "src": p.text(extra=[wrap % ("(math.round %s:1 1 %s)" % (un, a[0]))]), "kind": "call", "pi": pi,
                              "coq": "call [%s; %s] [AScalar; AScalar] [%s]" % (cs("math"), cs("round"), cs(un)), "site": "std-fn" + (":in-dead-case" if "case" in wrap else ""), "name": un})
        # (e) scalar where a relation is required
        if g.chance(0.5):
            lit = g.pick(["5", "\"t\"", "3.5", "true", "null"])
            cases.append({"stream": "edit-e-scalar-for-relation", "src": p.text(source=lit), "kind": "call", "pi": pi,
                          "coq": "call [%s] [AScalar] []" % cs("from"), "site": "from"})
            cases.append({"stream": "edit-e-scalar-for-relation", "src": p.text(extra=["join %s true" % lit]), "kind": "call", "pi": pi,
                          "coq": "call [%s] [AScalar; AScalar; ARel] []" % cs("join"), "site": "join"})
            cases.append({"stream": "edit-e-scalar-for-relation", "src": p.text(extra=["append %s" % lit]), "kind": "call", "pi": pi,
                          "coq": "call [%s] [AScalar; ARel] []" % cs("append"), "site": "append"})

    # (e') a NAME that denotes a scalar (let-bound constant) where a relation is required; the model decides what the name
    #      is in a relation position (rel_arg_kind: this/that shadowed, root declarations hide the database)
    for pi, p in enumerate(progs):
        if not g.chance(0.6):
            continue
        kname = g.fresh("k")
        val = g.pick(["5", "\"t\"", "2.5", "true", "2 + 3"])
        decl = "let %s = %s" % (kname, val)
        fr = p.frames[-1]
        root = list(p.root) + [(kname, "NValue")]
        p2 = type("P", (), {"root": root})()
        sc = coq_scope(p2, fr)
        body = p.text()
        main = body.split("\n")[-1]
        head = "\n".join(body.split("\n")[:-1] + [decl])
        variants = [("from", head + "\nfrom %s" % kname, "[k]", "from"),
                    ("join", head + "\n" + main + " | join %s%s true" % (g.pick(["", "side:left "]), kname), "[k; AScalar; ARel]", "join"),
                    ("append", head + "\n" + main + " | append %s" % kname, "[k; ARel]", "append")]
        for site, src, args, fn in g.r.sample(variants, 2):
            cases.append({"stream": "edit-e-scalar-for-relation", "src": src, "kind": "call", "pi": pi,
                          "coq": "match rel_arg_kind %s ([], %s) with Some k => call [%s] %s [] | None => AErr EAmbiguous end" % (sc, cs(kname), cs(fn), args),
                          "site": site + ":let-constant", "name": kname})
        # control: the constant is fine as a value
        cases.append({"stream": "well-scoped", "src": head + "\n" + main + " | derive {zz = %s}" % kname, "kind": "value", "pi": pi,
                      "coq": "lower_ref head_cfg %s ([], %s)" % (sc, cs(kname)), "ref": kname})

    # (a'/b') inside a join CONDITION, with both operands fully known: `this` = the frame so far, `that` = the joined source
    for pi, p in enumerate(progs):
        for k in range(1, len(p.frames)):
            fr = p.frames[k]
            if not fr.closed or len(fr.inputs) >= 3 or not g.chance(0.5):
                continue
            uniq = [r for r in g.refs(fr) if not r[1][0] and r[2][0] != "infer"]
            if not uniq:
                continue
            txt, ident, exp = g.pick(uniq)
            n = ident[1]
            alias = g.fresh("y")
            other = g.fresh("q")
            right = c10_gen.Frame([c10_gen.Input(alias, [n, other], False)])
            rtxt = "%s = [{%s = 1, %s = 2}]" % (alias, n, other)
            qual = g.pick([r for r in g.refs(fr) if r[1][0]] or [None])
            conds = ["(%s == 1)" % n, "(%s > 0 && %s.%s == 2)" % (n, alias, other)]
            if qual is not None:
                conds.append("(%s == %s.%s && %s > 0)" % (qual[0], alias, other, n))
            cases.append({"stream": "edit-b-ambiguous-name", "src": p.text(upto=k, extra=["join %s%s %s" % (g.pick(["", "side:left "]), rtxt, g.pick(conds))]),
                          "kind": "edit", "pi": pi, "coq": "lower_ref head_cfg %s %s" % (coq_scope(p, fr, right), coq_ident(([], n))),
                          "site": "join-condition(this+that)", "name": n, "frame": fr.describe()})
            # well-scoped counterpart: the qualified spellings resolve, each to its own side
            cases.append({"stream": "well-scoped", "src": p.text(upto=k, extra=["join %s (this.%s == that.%s)" % (rtxt, n, n)]), "kind": "base-variant", "pi": pi,
                          "coq": None})
            taken = set(fr.all_cols()) | set(fr.input_names()) | set(n0 for n0, _ in p.root) | {n, other, alias}
            cand = [d for d in p.dropped if d not in taken]
            if cand:
                d = g.pick(cand)
                cases.append({"stream": "edit-a-dropped-column", "src": p.text(upto=k, extra=["join %s (%s == %s.%s)" % (rtxt, d, alias, other)]),
                              "kind": "edit", "pi": pi, "coq": "lower_ref head_cfg %s %s" % (coq_scope(p, fr, right), coq_ident(([], d))),
                              "site": "join-condition(this+that)", "name": d, "frame": fr.describe()})

    # (e'') a CALL of a scalar std function where a relation is required (C10-F4): the argument is a scalar whatever the callee
    for pi, p in enumerate(progs):
        if not g.chance(0.35):
            continue
        callx = g.pick(STD_SCALAR_CALLS)
        k_ = "seen head_cfg SStdCall"
        variants = [("from", p.text(source=callx), "[%s]" % k_), ("join", p.text(extra=["join %s true" % callx]), "[%s; AScalar; ARel]" % k_),
                    ("append", p.text(extra=["append %s" % callx]), "[%s; ARel]" % k_)]
        fn, src, args = g.pick(variants)
        cases.append({"stream": "edit-e-scalar-for-relation", "src": src, "kind": "call", "pi": pi,
                      "coq": "call [%s] %s []" % (cs(fn), args), "site": fn + ":std-call", "name": callx, "what": "std-call"})

    # (G) names inside the body of `group`: the body's frame is the frame WITHOUT the key columns (closed frames); inside it a
    #     dropped column and the key itself are unknown, a name two inputs still share is ambiguous, everything else resolves.
    #     (J) qualifiers inside a join condition: this.<input>.<col>, that.<alias>.<col>, <alias>.<col>, the right alias under
    #     `this`, a left input under `that`, the TABLE name of an aliased source.
    GROUP_BODIES = {"group-body:aggregate": "group {%s} (aggregate {zz = sum %s})", "group-body:derive": "group {%s} (derive {zz = %s})",
                    "group-body:sort-take": "group {%s} (sort {%s} | take 1)", "group-body:window": "group {%s} (window rolling:2 (derive {zz = sum %s}))"}
    for pi, p in enumerate(progs):
        for k in range(1, len(p.frames)):
            fr = p.frames[k]
            if not fr.closed or not g.chance(0.5):
                continue
            rs = [r for r in g.refs(fr) if r[2][0] != "infer"]
            keys = [r for r in rs if r[2][0] == "input"]
            if not keys:
                continue
            ktxt, kid, kexp = g.pick(keys)
            fb = fr.copy()
            fb.inputs[kexp[1]].cols = [c_ for c_ in fb.inputs[kexp[1]].cols if c_ != kexp[2]]
            sk = g.pick(list(GROUP_BODIES))
            body = GROUP_BODIES[sk]
            taken = set(fr.all_cols()) | set(fr.input_names()) | set(n0 for n0, _ in p.root)
            # ill-scoped: a dropped column, the key itself (bare, if no other input still has it), an ambiguous name
            cand = [d for d in p.dropped if d not in taken]
            edits = []
            if cand:
                edits.append((g.pick(cand), "edit-a-dropped-column", "dropped"))
            if fb.count(kexp[2]) == 0 and kexp[2] not in fb.input_names() and kexp[2] not in c10_gen.MODULE_LIKE:
                edits.append((kexp[2], "edit-a-dropped-column", "the-key-itself"))
            amb = [n for n in dict.fromkeys(fb.all_cols()) if fb.count(n) >= 2]
            if amb:
                edits.append((g.pick(amb), "edit-b-ambiguous-name", "ambiguous"))
            for name, stream, what in edits:
                cases.append({"stream": stream, "src": p.text(upto=k, extra=[body % (ktxt, name)]), "kind": "edit", "pi": pi,
                              "coq": "lower_ref head_cfg %s %s" % (coq_scope(p, fb), coq_ident(([], name))),
                              "site": sk, "name": name, "what": "group-body:" + what, "frame": fb.describe()})
            good = [r for r in g.refs(fb) if r[2][0] != "infer" and r[2][-1] != "s"]
            if good:
                txt, ident, exp = g.pick(good)
                cases.append({"stream": "well-scoped", "src": p.text(upto=k, extra=[body % (ktxt, txt)]), "kind": "resolves", "pi": pi,
                              "coq": "lower_ref head_cfg %s %s" % (coq_scope(p, fb), coq_ident(ident)), "site": sk, "ref": txt, "frame": fb.describe()})
    for pi, p in enumerate(progs):
        for k in range(1, len(p.frames)):
            fr = p.frames[k]
            if not fr.closed or len(fr.inputs) >= 3 or not g.chance(0.5):
                continue
            lrefs = [r for r in g.refs(fr) if r[1][0] and r[2][0] == "input"]
            if not lrefs:
                continue
            ltxt, lid, lexp = g.pick(lrefs)                 # <input>.<col>
            linp, lcol = lid[0][0], lid[1]
            aliased = g.chance(0.6)
            ralias = g.fresh("y") if aliased else "w"
            if not aliased and ("w" in p.used_tables or "w" in fr.input_names()):
                continue
            rcols = ["p", "q"]
            rtxt = "%s = [{p = 1, q = 2}]" % ralias if aliased else "(from w | select {p, q})"
            right = c10_gen.Frame([c10_gen.Input(ralias, rcols, False)])
            variants = [
                ("this.%s.%s" % (linp, lcol), (["this", linp], lcol), True), ("that.%s.q" % ralias, (["that", ralias], "q"), True),
                ("%s.q" % ralias, ([ralias], "q"), True), ("that.p", (["that"], "p"), True), ("this.%s" % lcol if fr.count(lcol) == 1 else ltxt, (["this"], lcol) if fr.count(lcol) == 1 else lid, True),
                ("this.%s.q" % ralias, (["this", ralias], "q"), False), ("that.%s.%s" % (linp, lcol), (["that", linp], lcol), False),
                ("that.%s" % lcol, (["that"], lcol), False), ("this.q", (["this"], "q"), False), ("%s.%s" % (ralias, lcol), ([ralias], lcol), False),
            ]
            if aliased:
                variants.append(("zsrc.q", (["zsrc"], "q"), False))
            # the table behind an aliased sub-pipeline `x1 = (from t | select ..)` is not a name in scope
            m_ = re.search(r"\b%s = \(from ([a-z]+) " % re.escape(linp), p.text(upto=k))
            if m_ and m_.group(1) not in fr.input_names():
                variants.append(("%s.%s" % (m_.group(1), lcol), ([m_.group(1)], lcol), False))
            for txt, ident, ok in g.r.sample(variants, 3):
                if (ident[1] in ("p", "q") and fr.count(ident[1])) or lcol in rcols:
                    continue
                src = p.text(upto=k, extra=["join %s%s (%s == 1)" % (g.pick(["", "side:left "]), rtxt, txt)])
                coq = "lower_ref head_cfg %s %s" % (coq_scope(p, fr, right), coq_ident(ident))
                if ok:
                    cases.append({"stream": "well-scoped", "src": src, "kind": "resolves", "pi": pi, "coq": coq, "site": "join-cond-qualifier", "ref": txt, "frame": fr.describe()})
                else:
                    cases.append({"stream": "edit-a-dropped-column", "src": src, "kind": "edit", "pi": pi, "coq": coq, "site": "join-cond-qualifier", "name": txt,
                                  "what": "wrong-side-or-table-name", "frame": fr.describe()})

    # (b3) AFTER a join with a fresh, fully known right relation that has a column named like a uniquely named column of the
    #      frame so far -- a column of an input OR one the pipeline defined itself (derive / select / aggregate alias): the
    #      bare name now matches columns of two relations in scope, at every site kind
    for pi, p in enumerate(progs):
        for k in range(1, len(p.frames)):
            fr = p.frames[k]
            if not fr.closed or len(fr.inputs) >= 3 or not g.chance(0.6):
                continue
            uniq = [r for r in g.refs(fr) if not r[1][0] and r[2][0] != "infer"]
            direct = [r for r in uniq if r[2][0] == "direct"]
            if not uniq:
                continue
            txt, ident, exp = g.pick(direct) if direct and g.chance(0.6) else g.pick(uniq)
            n = ident[1]
            alias, other = g.fresh("y"), g.fresh("q")
            qual = [r for r in g.refs(fr) if r[1][0]]
            cond = "(%s == %s.%s)" % (g.pick(qual)[0], alias, other) if qual else "(%s.%s == 2)" % (alias, other)
            fr2 = fr.copy()
            fr2.inputs.append(c10_gen.Input(alias, [n, other], False))
            sk = g.pick([x for x in c10_gen.SITES if x not in ("join-cond", "take")])
            cases.append({"stream": "edit-b-ambiguous-name", "src": p.text(upto=k, extra=["join %s%s = [{%s = 1, %s = 2}] %s" % (g.pick(["", "side:left "]), alias, n, other, cond), c10_gen.SITES[sk] % n]),
                          "kind": "edit", "pi": pi, "coq": "lower_ref head_cfg %s %s" % (coq_scope(p, fr2), coq_ident(([], n))),
                          "site": sk, "name": n, "what": "after-join:" + exp[0], "frame": fr2.describe()})

    # (b'') a select that keeps the same-named column of two inputs, then the bare name (C10-F5): still two candidates
    for pi, p in enumerate(progs):
        for k in range(1, len(p.frames)):
            fr = p.frames[k]
            if len(fr.inputs) < 2 or not g.chance(0.7):
                continue
            for n in dict.fromkeys(fr.all_cols()):
                owners = [i for i in fr.inputs if i.cols.count(n) == 1 and i.name != n]
                if len(owners) < 2 or n in fr.direct:
                    continue
                a_, b_ = owners[0], owners[1]
                fr2 = c10_gen.Frame([c10_gen.Input(i.name, [n] if i in (a_, b_) else [], False) for i in fr.inputs])
                sk = g.pick([x for x in c10_gen.SITES if x not in ("join-cond", "take")])     # `take <column>` is a type error whatever the column
                cases.append({"stream": "edit-b-ambiguous-name", "src": p.text(upto=k, extra=["select {%s.%s, %s.%s}" % (a_.name, n, b_.name, n), c10_gen.SITES[sk] % n]),
                              "kind": "edit", "pi": pi, "coq": "lower_ref head_cfg %s %s" % (coq_scope(p, fr2), coq_ident(([], n))),
                              "site": sk, "name": n, "what": "dup-select", "frame": fr2.describe(),
                              # the tuple `{xi.n, xj.n}` under the implemented un-naming rule and under the one that respects prefixes
                              "coq2": "(let fs := [(Some %d%%nat, %s); (Some %d%%nat, %s)] in (dup_across fs, named %s (unname fs), named %s (unname_spec fs)))"
                                      % (fr.inputs.index(a_), cs(n), fr.inputs.index(b_), cs(n), cs(n), cs(n))})
                break

    # (a'') a column EXCLUDED from a wildcard input by `select !{c}`, referenced afterwards (C10-F6): the frame is not fully
    #       known, but that c is not in it is
    for pi, p in enumerate(progs):
        for k in range(1, len(p.frames)):
            fr = p.frames[k]
            if len(fr.inputs) != 1 or not fr.inputs[0].wild or fr.direct or not g.chance(0.8):
                continue
            inp = fr.inputs[0]
            cand = [c_ for c_ in inp.pool if c_ not in inp.cols and c_ not in c10_gen.MODULE_LIKE and c_ != inp.name]
            if not cand:
                continue
            c_ = g.pick(cand)
            qual = g.chance(0.3)
            sk = g.pick([x for x in c10_gen.SITES if x not in ("join-cond", "take")])
            txt = "%s.%s" % (inp.name, c_) if qual else c_
            fr2 = c10_gen.Frame([c10_gen.Input(inp.name, [], True, inp.pool)])
            cases.append({"stream": "edit-a-dropped-column", "src": p.text(upto=k, extra=["select !{%s}" % c_, c10_gen.SITES[sk] % txt]),
                          "kind": "edit", "pi": pi, "coq": "lower_ref head_cfg %s %s" % (coq_scope(p, fr2), coq_ident(([inp.name] if qual else [], c_))),
                          "site": sk, "name": txt, "what": "excluded-column", "frame": fr2.describe(),
                          "coq2": "excluded_inference [(0%%nat, %s)] %s %s" % (cs(c_), coq_scope(p, fr2), coq_ident(([inp.name] if qual else [], c_)))})

    # (f) a module or relation name where a value is required (repair a131b2a; was C10-F1), and the bare name `that`
    #     outside a join condition (C10-F2).  At any frame (a name that denotes a declaration is never inferred as a column).
    for pi, p in enumerate(progs):
        if not p.steps:
            continue
        p2 = type("P", (), {"root": list(p.root) + c10_gen.NONVALUE_ROOT})()
        decls = "\n".join(c10_gen.NONVALUE_DECLS)
        for _ in range(ck.n(3, 8)):
            k = g.r.randrange(1, len(p.frames))
            fr = p.frames[k]
            taken = set(fr.all_cols()) | set(fr.input_names())
            txt, ident, what = g.pick(c10_gen.NONVALUE_NAMES + [("that", ([], "that"), "bare-that")] * 2)
            if ident[1] in taken or (ident[0] and ident[0][0] in taken):
                continue
            interp = g.chance(0.2)
            sk = g.pick(list(c10_gen.INTERP_SITES if interp else c10_gen.VALUE_SITES))
            site = (c10_gen.INTERP_SITES if interp else c10_gen.VALUE_SITES)[sk]
            that = c10_gen.Frame([c10_gen.Input("w", [], True, c10_gen.TABLES["w"])]) if sk == "join-cond" else None
            if sk == "join-cond" and (what == "bare-that" or "w" in p.used_tables or len(fr.inputs) >= 3):
                continue
            cases.append({"stream": "edit-f-module-or-relation-as-value", "src": decls + "\n" + p.text(upto=k, extra=[site % txt]), "kind": "edit", "pi": pi,
                          "coq": ("lower_ref_dead head_cfg %s %s" % (coq_scope(p2, fr, that), coq_ident(ident))) if sk in c10_gen.DEAD_SITES else
                                 "lower_ref_in head_cfg %s %s %s" % ("true" if interp else "false", coq_scope(p2, fr, that), coq_ident(ident)),
                          "site": sk, "name": txt, "what": what, "interp": interp, "frame": fr.describe()})

    # (g) declarations inside modules: a name in a relation (or value) position of `let q = (..)` inside module m / m.inner,
    #     declared in q's own module, in the parent module, at the root or nowhere (resolve_ident; repair d92afac)
    for mc in c10_gen.module_cases(g, ck.n(140, 900)):
        ms = mc.coq_ms()
        idn = "([], %s)" % cs(mc.n)
        if mc.site in ("value", "value-open"):
            coq = "lower_ref_m head_cfg %s %s" % (ms, idn)
        else:
            args = {"from": "[k]", "join": "[k; AScalar; ARel]", "append": "[k; ARel]"}[mc.site]
            coq = ("let ms := %s in (match rel_arg_kind_m head_cfg ms %s with Some k => call [%s] %s [] | None => AErr EAmbiguous end, "
                   "match rel_enclosing head_cfg (ms_mods ms) (shadowed (ms_scope ms)) (ms_cur ms) %s with Some _ => true | None => "
                   "match mlookup (ms_mods ms) (shadowed (ms_scope ms)) %s with [] => false | _ => true end end)") % (ms, idn, cs(mc.site), args, idn, idn)
        cases.append({"stream": "modules", "src": mc.text(), "kind": "module", "pi": None, "coq": coq, "mc": mc, "site": mc.site})

    # (i) type names: an annotation `<T>` of an inline lambda at the final frame of the program.  T is a type, a declaration
    #     that is not a type, an undeclared name, or a COLUMN / input of the frame (bare, this.col, alias.col) -- the model
    #     (type_ref: this / that shadowed) says columns are never types and a column spelled like a type does not capture it
    for pi, p in enumerate(progs):
        fr = p.frames[-1]
        a = g.num_ref(fr)
        if a is None:
            continue
        p2 = type("P", (), {"root": list(p.root) + c10_gen.TYPE_ROOT})()
        decls = "\n".join(c10_gen.TYPE_DECLS)
        colrefs = [(t_, i_, "column") for t_, i_, e_ in g.refs(fr) if e_[0] != "infer"]
        colrefs += [("this." + t_, (["this"] + list(i_[0]), i_[1]), "column") for t_, i_, _ in colrefs[:3]]
        for _ in range(2):
            txt, ident, what = g.pick(c10_gen.TYPE_NAMES + colrefs[:6])
            extra = []
            src_p = p
            if what in ("primitive-keyword", "user-type") and g.chance(0.5) and not ident[0]:
                # a column spelled like the type, in scope where the annotation stands
                extra = ["derive {%s = 1}" % txt]
            fr2 = fr.copy()
            if extra:
                fr2.direct.append(txt)
            cases.append({"stream": "type-names", "src": decls + "\n" + p.text(extra=extra + ["derive {zz = (func zp9 <%s> -> zp9 + 1) %s}" % (txt, a[0])]),
                          "kind": "type", "pi": pi, "coq": "TOk" if what == "primitive-keyword" else "type_ref %s %s" % (coq_scope(p2, fr2), coq_ident(ident)),
                          "name": txt, "what": what + ("+column-of-that-name" if extra else ""), "frame": fr2.describe()})

    # (h) the std signature table, EVERY entry (not sampled): one argument too many, an unknown named argument, and -- so
    #     that the table cannot err on the other side -- exactly the declared positional arguments, and each declared named one
    if "error" not in info:
        for path, ps, named in info["sigs"]:
            f = ".".join(["std"] + list(path))
            cp = "[" + "; ".join(cs(x) for x in path) + "]"
            n = len(ps)
            mk_args = lambda k: "[" + "; ".join(["AScalar"] * k) + "]"
            ones = lambda k: " ".join(["1"] * k)
            cases.append({"stream": "std-table", "src": "from t | derive {zz = (%s %s)}" % (f, ones(n + 1)), "kind": "std", "pi": None, "sub": "surplus",
                          "coq": "call %s %s []" % (cp, mk_args(n + 1)), "fn": f})
            cases.append({"stream": "std-table", "src": "from t | derive {zz = (%s zzq:1 %s)}" % (f, ones(n)), "kind": "std", "pi": None, "sub": "unknown-named",
                          "coq": "call %s %s [%s]" % (cp, mk_args(n), cs("zzq")), "fn": f})
            cases.append({"stream": "std-table", "src": "from t | derive {zz = (%s %s)}" % (f, ones(n)), "kind": "std", "pi": None, "sub": "exact",
                          "coq": "call %s %s []" % (cp, mk_args(n)), "fn": f})
            for nm in named:
                cases.append({"stream": "std-table", "src": "from t | derive {zz = (%s %s:1 %s)}" % (f, nm, ones(n)), "kind": "std", "pi": None, "sub": "declared-named",
                              "coq": "call %s %s [%s]" % (cp, mk_args(n), cs(nm)), "fn": f})

    # distinct by program text + stream
    seen, uniq = set(), []
    for c in cases:
        k = (c["stream"], c["src"])
        if k not in seen:
            seen.add(k)
            uniq.append(c)
    cases = uniq

    # ------------------------------------------------------------------ model verdicts (inside Coq)
    model_ok = False
    with_coq = [c for c in cases if c["coq"]]
    try:
        vals = coq_eval(HEADER, ["(%s)" % c["coq"] for c in with_coq])
        for c, v in zip(with_coq, vals):
            c["model"] = v
        model_ok = all(v is not None for v in vals)
    except RuntimeError as ex:
        ck.coverage["model_eval_error"] = str(ex)[-600:]
    with2 = [c for c in cases if c.get("coq2")]
    try:
        vals2 = coq_eval(HEADER, ["(%s)" % c["coq2"] for c in with2])
        for c, v in zip(with2, vals2):
            c["model2"] = v
    except RuntimeError as ex:
        ck.coverage["model2_eval_error"] = str(ex)[-600:]
    ck.coverage["model_evaluated"] = model_ok

    # ------------------------------------------------------------------ implementation
    ans = harness("compile", [{"src": c["src"], "target": "sql.sqlite"} for c in cases])
    need_rq = [c for c in cases if c["kind"] == "ref"]
    rqs = harness("c16_rq", [{"src": c["src"]} for c in need_rq])
    for c, a in zip(need_rq, rqs):
        c["rq"] = a

    base_ok = {}
    for c, a in zip(cases, ans):
        c["impl"] = err_kind(a)
        c["answer"] = a
        if c["kind"] == "base":
            base_ok[c["pi"]] = c["impl"] == "ok"

    # ------------------------------------------------------------------ the lowerer's trace of every case (hook lowerer-op-trace)
    traced = [c for c in cases if c["stream"] in ("well-scoped", "edit-a-dropped-column", "edit-b-ambiguous-name", "edit-f-module-or-relation-as-value", "modules", "type-names")
              or c["stream"] == "edit-e-scalar-for-relation"]
    tr = harness("log", [{"src": c["src"], "target": "sql.sqlite", "want": [], "msg_prefix": HOOK} for c in traced])
    hook_lines = 0
    for c, a in zip(traced, tr):
        n_, words, unknown = trace_passthroughs(c["src"], a.get("entries", []) if isinstance(a, dict) else [])
        hook_lines += n_
        c["trace"] = {"lines": n_, "words": words, "unknown_cids": unknown, "ok": isinstance(a, dict) and "ok" in a}
    ck.coverage["lowerer_trace"] = {"programs": len(traced), "hook_lines": hook_lines,
                                    "programs_that_reached_lowering": sum(1 for c in traced if c["trace"]["lines"] > 0),
                                    "of_which_rejected_later": sum(1 for c in traced if c["trace"]["lines"] > 0 and not c["trace"]["ok"])}
    ck.coverage["lowerer_trace"]["ops"] = dict(sorted(OPS_SEEN.items()))
    ck.coverage["lowerer_trace"]["unknown_ops"] = sorted(k_ for k_ in OPS_SEEN if k_ not in KNOWN_OPS)
    if traced and hook_lines == 0:
        ck.violation("the tree under test does not emit `verif:lowerer_op` lines (hook lowerer-op-trace, 120eb8c, is missing or the harness was built without cfg(prqlc_verif)): the passthrough oracle cannot run",
                     {"kind": "hook-missing", "hook": HOOK}, no_input=True)

    def classify(case):
        # C10-F2: the model itself predicts the passthrough, and since a131b2a that is only the bare name `that` outside a
        # join condition (Props/C10.v passthrough_only_bare_that), as an expression or as an interpolated item of an s-string;
        # interpolated RELATION names are spliced by design and never reach this classifier
        # (C10-F2, the bare `that`, is fixed by 006e33c: nothing is classified here any more)
        if case.get("impl") != "ok":
            return None
        # (C10-F4, std operator calls as relations, is fixed by 830df3c; C10-F7, dead case branches, by 3056744: not classified)
        # C10-F5: the step before the site is a select keeping `x.n, y.n`; the model still sees two candidates
        # ... exactly when Coq's dup_across holds of the tuple (Props/C10.v tuple_names_characterised): one field answers to the
        # name under the implemented rule, two under the rule that respects relation prefixes
        if case.get("what") == "dup-select" and case.get("model_kind") == "OErr:EAmbiguous" and case.get("model2") == (True, 1, 2):
            return F5
        # C10-F6: the name was excluded by the immediately preceding `select !{..}` from a wildcard input; the (faithful) model infers it
        # ... exactly when Coq's excluded_inference holds (Props/C10.v excluded_column_characterised)
        if case.get("what") == "excluded-column" and case.get("model_kind") == "OInferredColumn" and case.get("model2") is True:
            return F6
        return None

    def classify_module(case):
        # C10-F3: the declaration lives in a PROPER ANCESTOR of the referencing declaration's module (depth >= 2, declared in
        # the parent): resolve_ident drops the outermost module name instead of the innermost one
        d = case.get("module_case") or {}
        # (C10-F3, the parent-module walk, is fixed by 7f02b48: nothing is classified here any more)
        return None

    for c in cases:
        st = c["stream"]
        key = c["src"]
        a = c["answer"]
        rep = {"program": c["src"], "stream": st, "impl": c["impl"], "site": c.get("site"), "name": c.get("name"), "frame": c.get("frame"),
               "interp": c.get("interp"), "what": c.get("what"), "model2": c.get("model2")}
        if c["kind"] == "base":
            ck.count(st, key)
            ck.stat(st, "base:" + c["impl"])
            if c["impl"] == "panic":
                ck.stat(st, "base-panic(C12)")
            continue
        if c["kind"] in ("value", "base-variant") and base_ok.get(c["pi"], False):
            ck.count(st, key)
            mv = c.get("model")
            ck.stat(st, "%s:%s" % (c["kind"], c["impl"]))
            if c["impl"] not in ("ok", "panic") or (c["kind"] == "value" and mv is not None and outcome_kind(mv) != "OValue"):
                ck.violation("well-scoped program rejected (or the model does not see a value): %s" % c["impl"],
                             dict(rep, model=str(mv), answer=str(a)[:300]))
            continue
        if c["kind"] in ("value", "base-variant"):
            ck.stat(st, "skipped:base-program-rejected")
            continue
        if c["kind"] == "module":
            judge_module(ck, c, classify_module)
            continue
        if c["kind"] == "resolves":
            if not base_ok.get(c["pi"], False):
                ck.stat(st, "skipped:base-program-rejected")
                continue
            ck.count(st, key)
            mv = c.get("model")
            mk = outcome_kind(mv) if mv is not None else None
            ck.stat(st, "%s:model:%s:impl:%s" % (c["site"].split(":")[0], mk, c["impl"]))
            if mk is not None and mk not in ("OColumn", "OTuple"):
                ck.violation("model and generator disagree on a well-scoped reference at %s (bug in the check)" % c["site"], dict(rep, model=str(mv), ref=c.get("ref")))
            elif c["impl"] not in ("ok", "panic"):
                ck.violation("well-scoped program rejected: reference `%s` at %s should resolve (%s)" % (c.get("ref"), c["site"], c["impl"]), dict(rep, model=str(mv), answer=str(a)[:300]))
            continue
        if c["kind"] == "type":
            if not base_ok.get(c["pi"], False):
                ck.stat(st, "skipped:base-program-rejected")
                continue
            ck.count(st, key)
            mv = c.get("model")
            mk = mv if isinstance(mv, str) else ("TErr:" + mv[1] if mv else None)
            ck.stat(st, "%s:model:%s:impl:%s" % (c["what"], mk, c["impl"]))
            rep = dict(rep, model=str(mv), answer=str(a)[:300])
            rs = " | ".join(e.get("reason", "") for e in a.get("err", [])) if isinstance(a, dict) else ""
            good = (mk == "TOk" and c["impl"] == "ok") or (mk == "TErr:EUnknown" and c["impl"] == "err:unknown") or \
                   (mk == "TErr:EAmbiguous" and c["impl"] == "err:ambiguous") or (mk == "TErr:ENotAType" and "expected a type" in rs)
            if mk is not None and not good:
                if c["impl"] == "ok":
                    ck.disagreement("ill-scoped program compiled: the type annotation `%s` is not a type (model %s)" % (c["name"], mk), rep, None)
                else:
                    ck.violation("type-names: model %s, implementation %s" % (mk, c["impl"]), rep)
            continue
        if c["kind"] == "std":
            ck.count(st, key)
            mv = c.get("model")
            me = mv[1] if isinstance(mv, tuple) and mv[0] == "AErr" else (mv if isinstance(mv, str) else (mv[0] if mv else None))
            ck.stat(st, "%s:model:%s:impl:%s" % (c["sub"], me, c["impl"]))
            rep = dict(rep, fn=c["fn"], sub=c["sub"], model=str(mv), answer=str(a)[:300])
            if c["impl"] in ("panic", "other") and c["sub"] in ("exact", "declared-named"):
                # not a scoping question: a well-formed call whose scalar argument the (internal) function unwraps as a tuple;
                # panics are C12's subject (std._eq / std.tuple_every / std.tuple_zip, resolver/transforms.rs)
                ck.stat(st, "well-formed-call-panics(C12):" + c["fn"])
            elif c["impl"] in ("panic", "other"):
                ck.violation("std-table: calling %s panics" % c["fn"], rep)
            elif c["sub"] == "surplus" and not (me == "ETooManyArgs" and c["impl"] == "err:too-many"):
                ck.disagreement("std-table: one positional argument more than %s declares is not rejected as `Too many arguments` (model %s, implementation %s)" % (c["fn"], me, c["impl"]), rep, None)
            elif c["sub"] == "unknown-named" and not (me == "EUnknownNamed" and c["impl"] == "err:unknown-named"):
                ck.disagreement("std-table: an unknown named argument of %s is not rejected as such (model %s, implementation %s)" % (c["fn"], me, c["impl"]), rep, None)
            elif c["sub"] in ("exact", "declared-named") and (me in ("ETooManyArgs", "EUnknownNamed") or c["impl"] in ("err:too-many", "err:unknown-named")):
                ck.disagreement("std-table: the declared arguments of %s are rejected as surplus / unknown (model %s, implementation %s): the signature table is wrong" % (c["fn"], me, c["impl"]), rep, None)
            continue
        if not base_ok.get(c["pi"], False):
            # the generator produced a base program the implementation rejects: its edits prove nothing
            ck.stat(st, "skipped:base-program-rejected")
            continue
        ck.count(st, key)
        mv = c.get("model")
        mk = outcome_kind(mv) if mv is not None else None
        rep["model"] = str(mv)
        rep["model_kind"] = mk
        c["model_kind"] = mk
        if c["kind"] == "ref":
            exp = c["expect"]
            ck.stat(st, "expect:" + exp[0])
            # model must agree with the generator's own expectation (sanity of the encoding)
            if mv is not None:
                good = (exp[0] == "direct" and mk == "OColumn" and mv[2] == "None") or \
                       (exp[0] == "input" and mk == "OColumn" and mv[2] != "None") or \
                       (exp[0] == "infer" and mk == "OInferredColumn")
                if not good:
                    ck.violation("model and generator disagree on a well-scoped reference (bug in the check)", dict(rep, expect=list(exp)))
                    continue
            # the resolver's verdict is what matters here (pl_to_rq); a back-end panic on an RQ the resolver produced is C12's subject
            if "ok" not in c.get("rq", {}):
                ck.violation("well-scoped program rejected: reference `%s` should resolve (%s)" % (c["ref"], c["impl"]), dict(rep, answer=str(c.get("rq"))[:300]))
                continue
            if c["impl"] != "ok":
                ck.stat(st, "resolved-but-back-end-failed(C12):" + c["impl"])
            bc = bound_column(c["rq"]["ok"]) if "ok" in c.get("rq", {}) else None
            rep["bound"] = list(bc) if bc else None
            fr = c["frame"]
            if exp[0] == "direct":
                ok = bc is not None and bc[0] in ("compute",)
            else:
                iname = fr["inputs"][exp[1]][0]
                # which input of the main pipeline is it: 0 = From, j = j-th Join
                ok = bc is not None and bc[0] in ("from", "join") and bc[1] == exp[1] and bc[2] == exp[2]
            ck.stat(st, "bound-as-predicted" if ok else "bound-differently")
            if not ok:
                ck.violation("the implementation bound `%s` to %s, the model resolves it to %s" % (c["ref"], bc, exp), rep)
            continue
        # an interpolated item of an s-string that names a relation variable: spliced in by design (the model says so)
        if c.get("interp") and mk == "OPassthrough" and c.get("what") in ("let-table", "database-table"):
            ck.stat(st, "interpolated-relation-name:" + c["impl"])
            if c["impl"] != "ok":
                ck.violation("a relation name interpolated into an s-string should be spliced in (model: OPassthrough), got %s" % c["impl"], dict(rep, answer=str(a)[:300]))
            continue
        if mk == "ODropped" and c["impl"] != "ok":
            ck.violation("the model says the dead case branch is dropped unchecked, the implementation rejects it (%s)" % c["impl"], dict(rep, answer=str(a)[:300]))
            continue
        # edits: the implementation must reject
        want = None
        if mk is not None:
            if mk.startswith("OErr:") or (isinstance(mv, tuple) and mv[0] == "AErr"):
                want = mv[1]
        ck.stat(st, "model:%s" % (mk if c["kind"] == "edit" else (mv[1] if isinstance(mv, tuple) and len(mv) > 1 else mv)))
        ck.stat(st, "impl:" + c["impl"])
        if c.get("what") and c["kind"] == "edit":
            ck.stat(st, "family:%s:%s" % (str(c["what"]).split("+")[0], "rejected" if c["impl"].startswith("err") else c["impl"]))
        if c["impl"] == "ok" or c["impl"] == "panic" or c["impl"] == "other":
            what = "ill-scoped program %s: %s" % ("compiled" if c["impl"] == "ok" else "did not produce an error (%s)" % c["impl"], st)
            rep["answer"] = str(a)[:400]
            ck.disagreement(what, rep, classify)
            continue
        # rejected: does the kind of error match the model's verdict?
        if want is not None:
            expected_impl = {"EUnknown": ("err:unknown",), "EAmbiguous": ("err:ambiguous",),
                             "ETooManyArgs": ("err:too-many", "err:internal", "err:unknown", "err:expected", "err:other"),
                             "EUnknownNamed": ("err:unknown-named",),
                             "ENotAValue": ("err:expected", "err:not-a-value"),
                             "ENotARelation": ("err:internal", "err:expected", "err:other", "err:unknown")}.get(want)
            if expected_impl and c["impl"] not in expected_impl:
                ck.violation("rejected, but not for the reason the model gives (%s vs %s)" % (c["impl"], want), dict(rep, answer=str(a)[:300]))
        elif mv is not None and c["kind"] == "edit" and mk in ("OColumn", "OInferredColumn"):
            # the model binds a column but the implementation rejects: the model is wrong about this scope
            # (OPassthrough / OTuple / OValue verdicts are about a scalar position; the site may still reject them by type)
            ck.violation("the model resolves the edited reference (%s) but the implementation rejects it (%s)" % (mk, c["impl"]), dict(rep, answer=str(a)[:300]))

    # ------------------------------------------------------------------ passthrough oracle: judged for every traced case, whatever compile said
    for c in cases:
        t = c.get("trace")
        if not t or not t["lines"]:
            continue
        st = "lowerer-trace"
        ck.count(st, c["src"])
        mv = c.get("model")
        mk = None
        if mv is not None and c["kind"] in ("edit", "ref", "value"):
            mk = outcome_kind(mv)
        allowed = set()
        if c["kind"] == "edit" and mk == "OPassthrough" and c.get("name"):
            allowed.add(c["name"].split(".")[-1])
        found = {w for w, _ in t["words"]}
        ck.stat(st, "reached-lowering:" + ("compiled" if t["ok"] else "rejected-later"))
        if allowed:
            ck.stat(st, "model-predicts-passthrough:" + ("seen" if allowed <= found else "NOT-seen"))
            if not allowed <= found and t["ok"]:
                ck.violation("the model predicts that `%s` reaches SQL unresolved, the program compiles, but the lowerer's trace has no such expression" % sorted(allowed)[0],
                             {"program": c["src"], "stream": c["stream"], "model": str(mv), "trace_words": t["words"]})
        for w in sorted(found - allowed):
            ck.stat(st, "unresolved-word:" + w)
            ck.disagreement("the lowerer passed the bare word `%s` through to SQL (lower_expr's unresolved-ident fallback) in a program whose names are all accounted for: %s" % (w, c["stream"]),
                            {"program": c["src"], "stream": c["stream"], "impl": "ok", "name": w, "model_kind": "OPassthrough" if w == "that" else str(mk),
                             "spans": [sp for ww, sp in t["words"] if ww == w], "compiled": t["ok"], "oracle": "lowerer-trace"}, classify)
        for cid, sp in t["unknown_cids"]:
            ck.violation("the lowerer emitted a ColumnRef to column id %d that no earlier operation of its trace introduced" % cid,
                         {"program": c["src"], "stream": c["stream"], "span": sp, "oracle": "lowerer-trace"})

    # ------------------------------------------------------------------ recorded findings: every replay, open or fixed.
    # An open one must still compile (it is counted as a hit of its own id); a fixed one must be rejected -- a fixed
    # finding suppresses nothing, its recurrence is a VIOLATION.
    for f in ck.findings:
        src = (f.get("replay") or {}).get("src")
        if not src:
            continue
        a = harness("compile", [{"src": src, "target": "sql.sqlite"}], shards=1)[0]
        ck.count("finding-replay", src)
        is_open = f.get("status", "open") == "open"
        if "ok" in a:
            ck.disagreement("recorded finding %s reproduces: ill-scoped program compiled" % f["id"],
                            {"program": src, "impl": "ok", "answer": a["ok"][:200], "finding": f["id"]},
                            (lambda c_, fid=f["id"]: fid) if is_open else None)
        else:
            ck.stat("finding-replay", ("no-longer-reproduces:" if is_open else "fixed-stays-fixed:") + f["id"])
            if is_open:
                ck.violation("open finding %s no longer reproduces: audit it (mark it fixed with its commit)" % f["id"],
                             {"program": src, "impl": err_kind(a), "kind": "stale-finding"}, no_input=True)

    for c in cases[:8]:
        ck.sample({"stream": c["stream"], "program": c["src"], "model": str(c.get("model")), "impl": c["impl"]})
    ck.coverage["base_programs"] = {"generated": len(progs), "accepted": sum(1 for v in base_ok.values() if v)}
    ck.proof_broken_violation(found_input=bool(ck.violations))
    ck.assumptions += [
        "relation where a scalar is expected (`derive {a = (from u)}`) is not among the property's cases and is not demanded",
        "wildcard inference (exactly one input with unknown columns) legitimately accepts unknown names: edits of kind (a) are only placed where the frame is fully known",
    ]
    ck.finish(TRUSTED, "%d generated base programs (closed sources: sub-pipelines with declared columns, relation literals; every third also database tables) x "
              "references of the final frame (well-scoped stream) and one edit per site: dropped column at %d site kinds, bare name of two inputs, surplus positional / "
              "unknown named argument at every transform and at user / std functions, scalar in from / join / append; a case = one program text; "
              "non-trivial = its base program compiles" % (len(progs), len(c10_gen.SITES)))

"""C02 streams: parser correspondence, SQL text correspondence, end-to-end oracle, directed cases."""
import json
import os
from fractions import Fraction

from ..common import coq_eval, harness, COQ
from . import c02_gen as G
from . import c02 as M
from . import c02_sqlsem as Q
from .c02_classify import classify_e2e, classify_text, F


def coq_eval_retry(ck, header, exprs, tries=3):
    """coq_eval, retried: the coq/ tree and .cache/cases are shared with concurrently running checks (a .vo
    rebuilt under our feet gives 'inconsistent assumptions', a cleaned scratch directory a missing file)"""
    import time
    last = None
    for k in range(tries):
        try:
            return coq_eval(header, exprs)
        except RuntimeError as ex:
            last = ex
            ck.coverage.setdefault("coq_eval_retries", []).append(str(ex)[-200:])
            time.sleep(5 * (k + 1))
            models_built(ck)
    raise last


def models_built(ck):
    """the executable models (Model/ has no proofs, so they build even when a theorem is broken); always run
    make: it is incremental, and a stale .vo would be rejected by coqc"""
    need = ["Model/SqlPrint.vo", "Model/EvalDoc.vo", "Model/PrqlExpr.vo", "Model/SqlSem.vo", "Model/SqlCompat.vo", "Model/C02Probe.vo"]
    from ..common import coq_make, Lock
    with Lock("coq"):
        rc, out, err = coq_make(need)
    if rc != 0:
        ck.coverage["model_build_error"] = (out + err)[-1500:]
    return rc == 0


# ----------------------------------------------------------------------------- (a) parser

def stream_parse(ck, model_ok):
    n = ck.n(400, 4000)
    cases = []
    seen = set()
    while len(cases) < n:
        toks = G.rand_tokens(ck.rng, ck.rng.randint(1, 6))
        src = G.tokens_prql(toks)
        if src in seen:
            continue
        seen.add(src)
        cases.append((toks, src))
    ans = harness("pl", [{"src": "from t | select {v = %s}" % src} for _, src in cases])
    binidx = {o: i for i, o in enumerate(G.BINOPS)}
    unidx = {o: i for i, o in enumerate(G.UNOPS)}
    impl = []
    for a in ans:
        if "ok" not in a:
            impl.append(None)
            continue
        try:
            e = a["ok"]["stmts"][0]["VarDef"]["value"]["Pipeline"]["exprs"][1]["FuncCall"]["args"][0]["Tuple"][0]
            impl.append(G.ser_json(e, binidx, unidx))
        except (KeyError, IndexError, ValueError) as ex:
            # prqlc read the text as something that is not one operator expression (a function call such as
            # `x * +` applied to `!x`, an open range): outside the modelled grammar, like a parse error
            impl.append(None)
    model = None
    if model_ok:
        try:
            model = coq_eval_retry(ck, M.HEADER, ["option_map gser (prql_parse %s)" % G.tokens_coq(t) for t, _ in cases])
        except (RuntimeError, ValueError, TypeError) as ex:
            ck.coverage["parse_model_error"] = str(ex)[-400:]
            ck.violation("the parser model could not be evaluated: the parse correspondence did not run",
                         {"kind": "model-evaluation-failed", "error": str(ex)[-400:]}, no_input=True)
    for k, (toks, src) in enumerate(cases):
        ck.count("parse", src, nontrivial=impl[k] is not None)
        ck.stat("parse", "impl:" + ("not-an-operator-expression" if impl[k] is None else "tree"))
        ck.stat("parse", "ops:%d" % sum(1 for t in toks if t[0] == "O"))
        if model is None:
            continue
        m = model[k]
        mv = None if m == "None" else list(m[1])
        iv = impl[k]
        if mv != iv:
            ck.disagreement("parser model and prql_to_pl disagree on %r: model %s, implementation %s" % (src, mv, iv),
                            {"stream": "parse", "src": src, "model": mv, "impl": iv}, lambda c: None)
        elif k % 97 == 0:
            ck.sample({"stream": "parse", "src": src, "tree": mv})


# ----------------------------------------------------------------------------- (b) SQL text + end-to-end

def stream_sql_and_e2e(ck, model_ok, tm=None):
    import time
    tm = tm if tm is not None else {}
    _t = time.time()
    rows = M.table_rows()
    cases = []          # (label, tree, row indices)
    allrows = list(range(len(rows)))
    for key, t in G.all_triples():
        cases.append(("triple:%s/%s/%s" % key, t, allrows))
    seenf = set()
    for t in G.fold_cases() + G.null_cases() + G.case_cases() + G.temporal_cases():
        s = G.prql(t)
        if s not in seenf:
            seenf.add(s)
            cases.append(("fold", t, allrows[::4]))
    sample = sorted(ck.rng.sample(allrows, 250))
    nrand = ck.n(350, 5000)
    seen = set()
    tries = 0
    while sum(1 for c in cases if c[0] == "random") < nrand and tries < nrand * 20:
        tries += 1
        t = G.rand_tree(ck.rng, ck.rng.choice([2, 3, 3, 4]))
        if G.depth(t) < 2:
            continue
        s = G.prql(t)
        if s in seen or len(s) > 400:
            continue
        seen.add(s)
        cases.append(("random", t, sample))
    lets = {}            # case index -> defining expression of the derived column d
    for e1, e2 in (G.let_cases() if ck.thorough else G.let_cases()[::2]):
        lets[len(cases)] = e1
        cases.append(("let", e2, sample))
    srcs = [G.prql(t) if k not in lets else "d = %s; %s" % (G.prql(lets[k]), G.prql(t)) for k, (_, t, _) in enumerate(cases)]

    def full_tree(k):
        return cases[k][1] if k not in lets else G.subst_col(cases[k][1], 3, lets[k])

    def expected(k, env):
        if k in lets:
            return G.eval_doc(cases[k][1], tuple(env) + (G.eval_doc(lets[k], env),))
        return G.eval_doc(cases[k][1], env)

    # model: SQL text per dialect, the engine's reading of it, the excluded corner, eval_doc on three rows
    probe = [rows[i] for i in (ck.rng.randrange(len(rows)), ck.rng.randrange(len(rows)), 444)]
    model = [None] * len(cases)
    model_rq = [None] * len(cases)
    if model_ok:
        exprs = []
        envs = "[" + "; ".join("[%s]" % "; ".join(G.coq_val(v) for v in env) for env in probe) + "]"
        for k, (_, t, _) in enumerate(cases):
            exprs.append("probe %s envs" % G.coq(t) if k not in lets else "probe_let %s %s envs" % (G.coq(lets[k]), G.coq(t)))
        try:
            # interleave so that every coqc shard gets the same mix of small and large trees
            order = sorted(range(len(exprs)), key=lambda k: (k % 16, k))
            raw0 = coq_eval_retry(ck, M.HEADER.replace("Model.EvalDoc", "Model.EvalDoc Model.SqlSem Model.SqlCompat Model.C02Probe")
                            + "Definition envs : list (list val) := %s.\n" % envs, [exprs[k] for k in order])
            raw = [None] * len(exprs)
            for pos, k in enumerate(order):
                raw[k] = raw0[pos]
            # ( [ (text, reading, (triples, pairs)) ; (...) ], corner, [shipped] )  ->  the layout used below
            model = []
            model_rq = []
            for x in raw:
                per, corner, shipped, rqm = x
                model_rq.append(rqm)
                if not per:          # a let whose definition is not inlinable in the model
                    model.append(None)
                    continue
                model.append((per[0][0], per[1][0], corner, shipped, [per[0][1], per[1][1]], [per[0][2], per[1][2]]))
        except (RuntimeError, ValueError, TypeError) as ex:
            ck.coverage["sql_model_error"] = str(ex)[-600:]
            model = [None] * len(cases)
            model_rq = [None] * len(cases)
            ck.violation("the SQL emission model could not be evaluated: the text correspondence did not run",
                         {"kind": "model-evaluation-failed", "error": str(ex)[-600:]}, no_input=True)
    tm['coq_eval_models'] = round(time.time() - _t, 1)
    setup = M.setup_sql(rows)
    for di, dialect in enumerate(M.DIALECTS):
        _t = time.time()
        plain = [k for k in range(len(cases)) if k not in lets]
        comp = [None] * len(cases)
        rq_plain = [None] * len(plain)
        for k, r in zip(plain, M.compile_batch([srcs[k] for k in plain], dialect, rq=rq_plain)):
            comp[k] = r
        lk = sorted(lets)
        rq_let = [None] * len(lk)
        for k, r in zip(lk, M.compile_programs(["from t | derive {d = %s} | select {v0 = %s}" % (G.prql(lets[k]), G.prql(cases[k][1])) for k in lk], dialect, rq=rq_let)):
            comp[k] = r
        tm['compile_' + dialect] = round(time.time() - _t, 1)
        # --- RQ correspondence (hook verif:preprocess, pass "normalize"): what the resolver + lowerer hand to the SQL
        # back end is `resolve e` = seval (expand e) of the model, and the Normalizer's output is `normalize` of it
        impl_rq = {}
        for k, r in zip(plain, rq_plain):
            impl_rq[k] = None if r is None else (M.HOOK_MISSING if r == M.HOOK_MISSING else [r])
        for k, r in zip(lk, rq_let):
            impl_rq[k] = None if r is None else (M.HOOK_MISSING if (r and r[0] == M.HOOK_MISSING) else r)
        hook_missing = 0
        for k, (label, t, ridx) in enumerate(cases):
            if comp[k][0] == "ERR" or model_rq[k] is None:
                continue
            ir = impl_rq.get(k)
            if ir == M.HOOK_MISSING:
                hook_missing += 1
                continue
            mr = model_rq[k]
            pairs = [mr] if k not in lets else [(mr[0], mr[1]), mr[2]]   # Coq prints ((a, b), (c, d)) as (a, b, (c, d))
            if ir is None or len(ir) != len(pairs) or any(x is None for x in ir):
                ck.stat("rq", dialect + ":outside-the-hook-view")
                continue
            for which, (mp, ip) in enumerate(zip(pairs, ir)):
                m_in, m_out = M.codes_text(("Some", mp[0])), M.codes_text(("Some", mp[1]))
                ck.count("rq", "%s|%d|%s" % (dialect, which, srcs[k]), nontrivial=True)
                ck.stat("rq", "normalizer:" + ("swapped" if ip[0] != ip[1] else "identity"))
                if ip[0] != m_in:
                    ck.disagreement("RQ handed to the SQL back end differs for %r: model (seval (expand e)) %s, implementation %s" % (srcs[k], m_in, ip[0]),
                                    {"stream": "rq", "pass": "resolve", "dialect": dialect, "src": srcs[k], "model": m_in, "impl": ip[0]}, classify_text)
                elif ip[1] != m_out:
                    ck.disagreement("Normalizer output differs for %r: model (normalize) %s, implementation %s (input %s)" % (srcs[k], m_out, ip[1], ip[0]),
                                    {"stream": "rq", "pass": "normalize", "dialect": dialect, "src": srcs[k], "input": ip[0], "model": m_out, "impl": ip[1]}, classify_text)
                elif k % 211 == 0:
                    ck.sample({"stream": "rq", "src": srcs[k], "before": ip[0], "after": ip[1]})
        if hook_missing:
            ck.violation("the verif:preprocess hook (pass normalize) is not in this tree: %d compiled programs produced no hook line -- "
                         "the RQ correspondence did not run (fail closed)" % hook_missing, {"kind": "hook-missing", "hook": "verif:preprocess", "programs": hook_missing}, no_input=True)
        # --- text correspondence
        for k, (label, t, ridx) in enumerate(cases):
            got = comp[k]
            ck.stat("sqltext", "%s:%s" % (dialect, "rejected" if got[0] == "ERR" else "compiled"))
            if got[0] == "ERR" or model[k] is None:
                continue
            mt = M.codes_text(model[k][di])
            ck.count("sqltext", dialect + "|" + srcs[k], nontrivial=True)
            if mt is None:
                ck.stat("sqltext", dialect + ":model-has-no-text")
                continue
            if got[0] != mt:
                case = {"stream": "sqltext", "dialect": dialect, "src": srcs[k], "model": mt, "impl": got[0], "statement": got[1]}
                ck.disagreement("SQL text differs for %r (%s): model %r, implementation %r" % (srcs[k], dialect, mt, got[0]), case, classify_text)
        # --- execution
        # date/time literals have no value in the model (and sql.generic spells them DATE '..', which SQLite does not read):
        # they feed the text / RQ correspondences only
        todo = [k for k in range(len(cases)) if comp[k][0] not in ("ERR", None) and "@" not in srcs[k]]
        sqls = ["SELECT %s FROM t" % comp[k][0] for k in todo]
        # pack several expressions per statement; on failure run them one by one
        results = {}
        P = 10
        packs = [todo[i:i + P] for i in range(0, len(todo), P)]
        res = M.run_queries(setup, ["SELECT " + ", ".join("%s AS v%d" % (comp[k][0], j) for j, k in enumerate(p)) + " FROM t" for p in packs])
        single = []
        for p, r in zip(packs, res):
            if "rows" in r and len(r["cols"]) == len(p) and len(r["rows"]) == len(rows):
                for j, k in enumerate(p):
                    results[k] = [row[j] for row in r["rows"]]
            else:
                single += p
        if single:
            for k, r in zip(single, M.run_queries(setup, ["SELECT %s AS v FROM t" % comp[k][0] for k in single])):
                if "rows" in r and len(r["cols"]) == 1 and len(r["rows"]) == len(rows):
                    results[k] = [row[0] for row in r["rows"]]
                else:
                    results[k] = {"exec_err": r.get("exec_err", json.dumps(r)[:200])}
        tm['exec_' + dialect] = round(time.time() - _t, 1)
        if ck.thorough:
            # second engine: the harness' bundled SQLite (rusqlite) on the statements it can run (no POW / FLOOR)
            ks = [k for k in todo if isinstance(results.get(k), list) and "POW(" not in comp[k][0] and "FLOOR(" not in comp[k][0]]
            ks = ks[:: max(1, len(ks) // 600)]
            res2 = M.run_queries_harness(setup, ["SELECT %s AS v FROM t" % comp[k][0] for k in ks])
            for k, r2 in zip(ks, res2):
                ck.count("engine2", dialect + "|" + srcs[k])
                if "rows" not in r2:
                    ck.violation("second SQLite engine cannot run %r: %s" % (comp[k][0], json.dumps(r2)[:200]), {"stream": "engine2", "sql": comp[k][0], "answer": r2})
                    continue
                a = [M.obs_val(row[0]) for row in r2["rows"]]
                b = [M.obs_val(x) for x in results[k]]
                if a != b:
                    ck.violation("the two SQLite engines disagree on %r" % comp[k][0], {"stream": "engine2", "sql": comp[k][0]})
        _t = time.time()
        for k in todo:
            label, t, ridx = cases[k]
            src = srcs[k]
            mk = model[k]
            corner = bool(mk[2]) if mk is not None else False
            if corner:
                ck.stat("e2e", "excluded-corner")
                continue
            ft = full_tree(k)
            case = {"stream": "e2e", "dialect": dialect,
                    "src": ("from t | select {v = %s}" % src) if k not in lets else "from t | derive {d = %s} | select {v = %s}" % (G.prql(lets[k]), G.prql(t)),
                    "expr": src, "sql": comp[k][0],
                    "edges": ["%s/%s/%s" % e for e in G.edges(ft)], "kinds": sorted(G.kinds_of(ft)),
                    "let_def": lets.get(k), "let_body": t if k in lets else None,
                    "model_sql": M.codes_text(mk[di]) if mk is not None else None,
                    "bad_triples": Q.triples_py(mk[5][di]) if mk is not None else None}
            r = results[k]
            if isinstance(r, dict):
                case["exec_err"] = r["exec_err"]
                ck.count("e2e", dialect + "|" + src, nontrivial=True)
                ck.disagreement("emitted SQL does not execute for %r (%s): %s" % (src, dialect, r["exec_err"]), case, classify_e2e)
                continue
            reading = Q.tree_py(mk[4][di]) if mk is not None else None
            compared = bad = 0
            first_bad = None
            engine_bad = None
            for i in ridx:
                env = rows[i]
                try:
                    exp = expected(k, env)
                except G.Undef:
                    continue
                except G.Inexact:
                    continue
                obs = M.obs_val(r[i])
                compared += 1
                if reading is not None and engine_bad is None:
                    try:
                        pred = Q.eval_sql(reading, env)
                        if not Q.same_sql(pred, obs):
                            engine_bad = {"row": [str(v) for v in env], "predicted": str(pred), "observed": str(obs)}
                    except (Q.Unmodelled, G.Inexact):
                        pass
                if not M.same(exp, obs):
                    bad += 1
                    if first_bad is None:
                        first_bad = {"row": {"a": str(env[0]), "b": str(env[1]), "c": str(env[2])}, "expected": str(exp), "observed": str(obs)}
            ck.count("e2e", dialect + "|" + src, nontrivial=compared > 0)
            ck.stat("e2e", "%s:%s" % (dialect, "compared" if compared else "no-comparable-row"))
            for e in G.edges(ft):
                ck.stat("e2e-edges", "%s/%s/%s" % e)
            if engine_bad is not None:
                c2 = dict(case); c2.update(engine_bad); c2["stream"] = "engine-model"
                ck.disagreement("the engine model (grammar + scalar semantics) mispredicts SQLite on %r (%s): %s" % (comp[k][0], dialect, engine_bad), c2, lambda c: None)
            if bad:
                case.update(first_bad); case["rows_wrong"] = bad; case["rows_compared"] = compared
                ck.disagreement("value differs for %r (%s): SQL %r row %s expected %s observed %s (%d/%d rows)" % (
                    src, dialect, comp[k][0], first_bad["row"], first_bad["expected"], first_bad["observed"], bad, compared), case, classify_e2e)
            elif k % 151 == 0:
                ck.sample({"stream": "e2e", "dialect": dialect, "expr": src, "sql": comp[k][0], "rows_compared": compared})
    tm['compare_last'] = round(time.time() - _t, 1)
    # --- the python mirror of eval_doc agrees with the Coq definition on the probe rows
    if model_ok:
        for k, (label, t, ridx) in enumerate(cases):
            if model[k] is None:
                continue
            for env, shipped in zip(probe, model[k][3]):
                tag, num, den = shipped
                if tag == 4:        # astronomically large: the mirror does not compare it either
                    continue
                try:
                    pv = expected(k, env)
                    py = (0, 0, 1) if pv is None else (1, Fraction(pv).numerator, Fraction(pv).denominator)
                except G.Undef:
                    py = (3, 0, 1)
                except G.Inexact:
                    continue
                ck.count("mirror", "%d|%s" % (k, env), nontrivial=True)
                if py != (tag, num, den):
                    ck.violation("python mirror of eval_doc disagrees with Coq on %r at %s: python %s, Coq %s" % (srcs[k], env, py, (tag, num, den)),
                                 {"stream": "mirror", "expr": srcs[k], "env": [str(v) for v in env], "python": py, "coq": [tag, num, den]})
    cov = ck.coverage["streams"].get("e2e-edges", {}).get("hist", {})
    ck.coverage["triples_exercised"] = len(cov)


# ----------------------------------------------------------------------------- (b') filter conditions

def stream_filter(ck, model_ok, mode="filter"):
    """`from t | filter E` (mode "filter": the WHERE path) and `from t | join u (E)` (mode "join": the ON path; u has one
    row, the columns of t are written t.a, t.b, t.c and printed so by the emitter: the qualifier is stripped before the
    comparison, column naming is not C02's).  Expressions held by a transform (filter, join) are the ones the SQL back
    end takes from the pipeline AFTER the Normalizer (select / derive columns are translated from the declarations
    registered before it).  Per condition and dialect: model text vs the WHERE clause, byte for byte; RQ before /
    after the Normalizer vs the model (hook); and the rows kept by SQLite vs the rows where eval_doc is true."""
    rows = M.table_rows()
    import re as _re
    cases = G.cond_cases(ck.rng, ck.n(120, 420))
    seen = set()
    cases = [t for t in cases if not (G.prql(t) in seen or seen.add(G.prql(t)))]
    if mode == "join":
        cases = cases[::2] if not ck.thorough else cases
    srcs = [G.prql(t) for t in cases]
    if mode == "join":
        wrap = lambda e: "from t | join u (%s)" % _re.sub(r"\b([abc])\b", r"t.\1", e)
        pre, kindname = "SELECT t.*, u.* FROM t INNER JOIN u ON ", "Join"
    else:
        wrap = lambda e: "from t | filter (%s)" % e
        pre, kindname = "SELECT * FROM t WHERE ", "Filter"
    S_ = mode
    model = [None] * len(cases)
    if model_ok:
        try:
            hdr = M.HEADER.replace("Model.EvalDoc", "Model.EvalDoc Model.SqlSem Model.SqlCompat Model.C02Probe") + "Definition envs : list (list val) := [].\n"
            model = coq_eval_retry(ck, hdr, ["probe %s envs" % G.coq(t) for t in cases])
        except (RuntimeError, ValueError, TypeError) as ex:
            ck.coverage["filter_model_error"] = str(ex)[-600:]
            model = [None] * len(cases)
            ck.violation("the models could not be evaluated on the filter conditions", {"kind": "model-evaluation-failed", "error": str(ex)[-600:]}, no_input=True)
    import sqlite3
    conn = sqlite3.connect(":memory:")
    for st in M.setup_sql(rows):
        conn.execute(st)
    conn.execute("CREATE TABLE u(x)")
    conn.execute("INSERT INTO u VALUES (1)")
    exp_cache = {}
    for di, dialect in enumerate(M.DIALECTS):
        reqs = [{"src": wrap(s_), "target": "sql." + dialect, "format": False, "sig": False,
                 "want": ["ReprRq"], "msg_prefix": "verif:preprocess"} for s_ in srcs]
        ans = harness("log", reqs)
        hook_missing = 0
        for k, (t, a) in enumerate(zip(cases, ans)):
            src = wrap(srcs[k])
            ck.stat(S_, "%s:%s" % (dialect, "compiled" if "ok" in a else "rejected"))
            if "ok" not in a:
                continue
            sql = a["ok"]
            mw = None
            if sql.startswith(pre):
                mw = sql[len(pre):]
                if mode == "join":
                    mw = _re.sub(r"\bt\.([abc])\b", r"\1", mw)
            mk = model[k]
            corner = bool(mk[1]) if mk is not None else False
            per = mk[0][di] if mk is not None and mk[0] else None
            mt = M.codes_text(per[0]) if per is not None else None
            bad = Q.triples_py(per[2]) if per is not None else None
            case = {"stream": S_, "dialect": dialect, "src": src, "expr": srcs[k], "sql": sql, "model_sql": mt,
                    "kinds": sorted(G.kinds_of(t)), "edges": ["%s/%s/%s" % e for e in G.edges(t)], "bad_triples": bad}
            ck.count(S_, dialect + "|" + srcs[k], nontrivial=True)
            # (1) text of the WHERE / ON clause
            if mt is not None and mw is not None and mt != mw:
                c2 = dict(case); c2["stream"] = "sqltext"; c2["model"] = mt; c2["impl"] = mw
                ck.disagreement("%s condition text differs for %r (%s): model %r, implementation %r" % (mode, srcs[k], dialect, mt, mw), c2, classify_text)
            # (2) RQ of the condition before / after the Normalizer
            names, norm = {}, None
            for en in a.get("entries", []):
                if "ReprRq" in en:
                    try:
                        for st in en["ReprRq"]["relation"]["kind"]["Pipeline"]:
                            if "From" in st:
                                for col, cid in st["From"]["columns"]:
                                    if isinstance(col, dict) and col.get("Single") in ("a", "b", "c"):
                                        names[cid] = "abc".index(col["Single"])
                    except (KeyError, TypeError):
                        pass
                elif "Message" in en and en["Message"].endswith('"pass":"normalize"}'):
                    norm = json.loads(en["Message"][len("verif:preprocess "):])
            if norm is None:
                hook_missing += 1
            elif mk is not None:
                try:
                    fin = [x for x in norm["in"]["pipeline"] if x.get("kind") == kindname]
                    fout = [x for x in norm["out"]["pipeline"] if x.get("kind") == kindname]
                    if len(fin) == 1 and len(fout) == 1:
                        i_in, i_out = M.rq_text(fin[0]["expr"], names), M.rq_text(fout[0]["expr"], names)
                        m_in, m_out = M.codes_text(("Some", mk[3][0])), M.codes_text(("Some", mk[3][1]))
                        ck.count("rq", "%s|%s|%s" % (dialect, mode, srcs[k]), nontrivial=True)
                        ck.stat("rq", "normalizer:" + ("swapped" if i_in != i_out else "identity"))
                        if i_in != m_in:
                            ck.disagreement("RQ of the filter condition differs for %r: model %s, implementation %s" % (srcs[k], m_in, i_in),
                                            {"stream": "rq", "pass": "resolve", "dialect": dialect, "src": src, "model": m_in, "impl": i_in}, classify_text)
                        elif i_out != m_out:
                            ck.disagreement("Normalizer output differs for the filter condition %r: model (normalize) %s, implementation %s (input %s)" % (srcs[k], m_out, i_out, i_in),
                                            {"stream": "rq", "pass": "normalize", "dialect": dialect, "src": src, "input": i_in, "model": m_out, "impl": i_out}, classify_text)
                    else:
                        ck.stat("rq", dialect + ":outside-the-hook-view")
                except (KeyError, TypeError, M.RqUnmodelled):
                    ck.stat("rq", dialect + ":outside-the-hook-view")
            # (3) rows kept
            if corner:
                ck.stat(S_, "excluded-corner")
                continue
            try:
                got = conn.execute(sql).fetchall()
            except sqlite3.Error as ex:
                case["exec_err"] = str(ex)
                ck.disagreement("emitted statement does not execute for %r (%s): %s" % (src, dialect, ex), case, classify_e2e)
                continue
            if k not in exp_cache:
                keep, skip = [], set()
                for env in rows:
                    try:
                        v = G.eval_doc(t, env)
                        if G.truth(v) is True:
                            keep.append(env)
                    except (G.Undef, G.Inexact):
                        skip.add(env)
                exp_cache[k] = (keep, skip)
            keep, skip = exp_cache[k]
            gotn = [tuple(M.obs_val(x) for x in r_[:3]) for r_ in got]
            gotn = [r_ for r_ in gotn if r_ not in skip]
            if mode == "join":      # the order of the rows of a join is the planner's business: compare as multisets
                order = {r_: i for i, r_ in enumerate(rows)}
                gotn.sort(key=lambda r_: order.get(tuple(None if x is None else (int(x) if x == int(x) else x) for x in r_), -1))
            same_rows = len(gotn) == len(keep) and all(all(M.same(x, y) for x, y in zip(g, e)) for g, e in zip(gotn, keep))
            ck.stat(S_, dialect + ":rows-compared")
            if not same_rows:
                gs = set(gotn); ks = set(keep)
                extra = [r_ for r_ in gotn if r_ not in ks][:1]
                lost = [r_ for r_ in keep if r_ not in gs][:1]
                case.update({"rows_kept": len(gotn), "rows_expected": len(keep), "kept_but_not_true": [str(x) for x in (extra[0] if extra else [])],
                             "true_but_dropped": [str(x) for x in (lost[0] if lost else [])], "rows_wrong": len(gs ^ ks), "rows_compared": len(rows) - len(skip)})
                c2 = dict(case); c2["stream"] = "e2e"
                ck.disagreement("rows kept differ for %r (%s): WHERE %s keeps %d rows, the condition is true on %d (kept but not true: %s; true but dropped: %s)" % (
                    src, dialect, mw, len(gotn), len(keep), case["kept_but_not_true"], case["true_but_dropped"]), c2, classify_e2e)
            elif k % 67 == 0:
                ck.sample({"stream": S_, "dialect": dialect, "src": src, "sql": sql, "rows_kept": len(gotn)})
        if hook_missing:
            ck.violation("the verif:preprocess hook (pass normalize) is not in this tree: %d compiled filters produced no hook line (fail closed)" % hook_missing,
                         {"kind": "hook-missing", "hook": "verif:preprocess", "programs": hook_missing}, no_input=True)
    conn.close()


# ----------------------------------------------------------------------------- (c) std function calls

FN_DOMAIN = [None, 1, 2, 12, 123, "12", "ab", "2a"]


def _fn_templates(stdsql, dialect):
    """name -> template chosen by find_operator_impl (dialect module first, then the default one), for the
    function modules math.* and text.* (operators, aggregates and window functions have their own streams)"""
    out = {}
    for mod in (dialect, ""):
        for t in stdsql["templates"]:
            if t["module"] == mod and t["name"] not in out and (t["name"].startswith("math.") or t["name"].startswith("text.")):
                out[t["name"]] = t
    return {n: t for n, t in out.items() if t["chunks"] is not None and t["skel"] is not None and t["coalesce"] is None
            and not t["window"] and len(t["params"]) > 0}


def fn_children():
    I = lambda n: ("lit", "int", n)
    a, b, c = ("col", 0), ("col", 1), ("col", 2)
    return [("bin", "Add", b, c), ("bin", "Mul", b, I(2)), ("bin", "Sub", b, c), ("bin", "Eq", b, c), ("bin", "Lt", b, c),
            ("bin", "And", b, c), ("bin", "Or", b, c), ("bin", "Coalesce", b, c), ("un", "Neg", b), ("bin", "Mod", b, c),
            ("bin", "DivFloat", b, c), ("bin", "DivInt", b, c), ("bin", "Eq", b, ("lit", "null", None)), ("in", b, I(1), I(5)),
            ("case", [(("bin", "Gt", b, I(1)), c), (("lit", "bool", True), a)]), ("un", "Not", b), ("un", "Neg", I(5))]


def stream_fncall(ck, model_ok, stdsql):
    """every math.* / text.* template of sql.sqlite and sql.generic x every parameter position x a family of operator
    children: (1) model SQL text (translate of the call node) vs compile, byte for byte; (2) a differential oracle
    that needs no value model: the emitted expression and the template with every hole filled by the PARENTHESISED
    child text are both executed on SQLite over a table of numbers and strings -- rows differ exactly when the
    emitter's (missing) parentheses make the engine regroup."""
    if not stdsql or "templates" not in stdsql:
        return
    import sqlite3
    from .c02_classify import classify_fncall
    kids = fn_children()
    leaves = [("col", 0), ("col", 1), ("col", 2)]
    cases = []          # (name, position, child, [arg trees])
    names = sorted(set(_fn_templates(stdsql, "sqlite")) | set(_fn_templates(stdsql, "generic")))
    for nm in names:
        t = _fn_templates(stdsql, "sqlite").get(nm) or _fn_templates(stdsql, "generic").get(nm)
        n = len(t["params"])
        for pos in range(n):
            for ch in kids:
                args = [leaves[i % 3] for i in range(n)]
                args[pos] = ch
                cases.append((nm, pos, ch, args))
    if not ck.thorough:
        # quick tier: all text.* positions (the LIKE templates live there), a seed-dependent third of the math.* ones
        keep = [nm for nm in names if nm.startswith("math.")][ck.seed % 3::3]
        cases = [c for c in cases if c[0].startswith("text.") or c[0] in keep]
    def arg_src(t):
        s = G.prql(t)
        return s if t[0] == "col" or (t[0] == "lit" and not s.startswith("-")) else "(" + s + ")"
    srcs = ["(%s %s)" % (nm, " ".join(arg_src(x) for x in args)) for nm, pos, ch, args in cases]
    model = [None] * len(cases)
    if model_ok:
        try:
            hdr = M.HEADER.replace("Model.EvalDoc", "Model.EvalDoc Model.SqlSem Model.SqlCompat Model.C02Probe")
            exprs = ["probe_call %s [%s]" % (G_codes("std." + nm), "; ".join(G.coq(x) for x in args)) for nm, pos, ch, args in cases]
            model = coq_eval_retry(ck, hdr, exprs)
        except (RuntimeError, ValueError, TypeError) as ex:
            ck.coverage["fncall_model_error"] = str(ex)[-600:]
            ck.violation("the SQL emission model could not be evaluated on function calls: the correspondence did not run",
                         {"kind": "model-evaluation-failed", "error": str(ex)[-600:]}, no_input=True)
    rows = [(x, y, z) for x in FN_DOMAIN for y in FN_DOMAIN for z in FN_DOMAIN]
    conn = sqlite3.connect(":memory:")
    conn.execute("CREATE TABLE t(a, b, c)")
    conn.executemany("INSERT INTO t VALUES (?, ?, ?)", rows)

    def run(sql):
        try:
            return conn.execute("SELECT %s FROM t" % sql).fetchall()
        except sqlite3.Error as ex:
            return str(ex)
    for di, dialect in enumerate(M.DIALECTS):
        tmpl = _fn_templates(stdsql, dialect)
        comp = M.compile_batch(srcs, dialect)
        childsql = {}
        distinct = []
        for nm, pos, ch, args in cases:
            for x in args:
                s = G.prql(x)
                if s not in childsql:
                    childsql[s] = None
                    distinct.append(s)
        for s, r in zip(distinct, M.compile_batch(distinct, dialect)):
            childsql[s] = r[0] if r and r[0] not in ("ERR", None) else None
        for k, (nm, pos, ch, args) in enumerate(cases):
            got = comp[k]
            t = tmpl.get(nm)
            ck.stat("fncall", "%s:%s" % (dialect, "no-template" if t is None else "rejected" if got[0] == "ERR" else "compiled"))
            if t is None or got[0] in ("ERR", None):
                continue
            mk = model[k][di] if model[k] is not None else None
            mt = M.codes_text(mk[0]) if mk is not None else None
            bad = Q.triples_py((mk[1], [])) if mk is not None else None
            case = {"stream": "fncall", "dialect": dialect, "src": "from t | select {v = %s}" % srcs[k], "fn": nm, "position": pos,
                    "param": t["params"][pos], "child": G.prql(ch), "sql": got[0], "model_sql": mt, "bad_triples": bad}
            ck.count("fncall", dialect + "|" + srcs[k], nontrivial=True)
            if mt is not None and mt != got[0]:
                c2 = dict(case); c2["stream"] = "sqltext"
                ck.disagreement("SQL text differs for %r (%s): model %r, implementation %r" % (srcs[k], dialect, mt, got[0]), c2, classify_text)
            # reference: every hole filled by the parenthesised child text
            parts = []
            ok = True
            for c in t["chunks"]:
                if c[0] == "text":
                    parts.append(c[1])
                else:
                    cs = childsql.get(G.prql(args[c[2]]))
                    if cs is None:
                        ok = False
                        break
                    parts.append("(" + cs + ")")
            if not ok:
                ck.stat("fncall", dialect + ":no-reference")
                continue
            ref = "".join(parts)
            case["reference_sql"] = ref
            r1, r2 = run(got[0]), run(ref)
            if isinstance(r1, str) or isinstance(r2, str):
                ck.stat("fncall", dialect + (":not-executable-on-sqlite" if isinstance(r1, str) and isinstance(r2, str) else ":one-side-fails"))
                if isinstance(r1, str) != isinstance(r2, str):
                    case["exec"] = {"emitted": r1 if isinstance(r1, str) else "ok", "reference": r2 if isinstance(r2, str) else "ok"}
                    ck.disagreement("only one of emitted / parenthesised reference executes for %r (%s): %s" % (srcs[k], dialect, case["exec"]), case, classify_fncall)
                continue
            ck.stat("fncall", dialect + ":executed")
            diff = [i for i in range(len(rows)) if r1[i] != r2[i] and not (isinstance(r1[i][0], float) and isinstance(r2[i][0], float) and abs(r1[i][0] - r2[i][0]) <= 1e-9 * max(1.0, abs(r2[i][0])))]
            if diff:
                i = diff[0]
                case.update({"row": {"a": rows[i][0], "b": rows[i][1], "c": rows[i][2]}, "observed": repr(r1[i][0]), "expected": repr(r2[i][0]),
                             "rows_wrong": len(diff), "rows_compared": len(rows)})
                ck.disagreement("the engine regroups %r (%s): `%s` gives %r, the intended `%s` gives %r at %s (%d/%d rows)" % (
                    srcs[k], dialect, got[0], r1[i][0], ref, r2[i][0], case["row"], len(diff), len(rows)), case, classify_fncall)
            elif bad and (bad[0] or bad[1]):
                # the table calls this triple bad but no row of the domain shows it: keep it visible
                ck.stat("fncall", dialect + ":bad-triple-without-witness-row")
            elif k % 53 == 0:
                ck.sample({"stream": "fncall", "dialect": dialect, "expr": srcs[k], "sql": got[0], "reference": ref})
    conn.close()


# ----------------------------------------------------------------------------- (c') nested calls, date templates

def _nprql(n):
    k = n[0]
    if k == "p":
        s_ = G.prql(n[1])
        return s_ if n[1][0] == "col" or (n[1][0] == "lit" and not s_.startswith("-")) else "(" + s_ + ")"
    if k == "str":
        return '"%s"' % n[1]
    if k == "call":
        return "(%s %s)" % (n[1], " ".join(_nprql(a) for a in n[2]))
    if k == "op":
        return "(%s %s %s)" % (_nprql(n[2]), G.BIN_TEXT[n[1]], _nprql(n[3]))
    return "(%s%s)" % ({"Neg": "-", "Not": "!"}[n[1]], _nprql(n[2]))


def _ncoq(n):
    k = n[0]
    if k == "p":
        return "(normalize (resolve %s))" % G.coq(n[1])
    if k == "str":
        return "(RLit (LStr %s))" % G_codes(n[1])
    if k == "call":
        return "(ROp %s [%s])" % (G_codes("std." + n[1]), "; ".join(_ncoq(a) for a in n[2]))
    if k == "op":
        return "(ROp (expand_binop B_%s) [%s; %s])" % (n[1], _ncoq(n[2]), _ncoq(n[3]))
    return "(ROp %s [%s])" % ({"Neg": "n_neg", "Not": "n_not"}[n[1]], _ncoq(n[2]))


def nested_cases():
    a, b, c = (("p", ("col", i)) for i in range(3))
    I = lambda n: ("p", ("lit", "int", n))
    P = lambda t: ("p", t)
    call = lambda nm, *args: ("call", nm, list(args))
    return [call("math.abs", call("math.round", I(2), b)),
            ("op", "Add", call("text.length", a), I(1)),
            call("text.contains", call("text.lower", b), a),
            ("un", "Neg", call("math.abs", a)),
            ("op", "Mul", call("math.pow", I(2), a), b),
            call("math.round", I(1), P(("bin", "DivFloat", ("col", 0), ("col", 1)))),
            call("text.starts_with", call("text.upper", b), call("text.lower", a)),
            ("op", "And", call("text.contains", b, a), call("text.ends_with", b, c)),
            call("math.abs", ("op", "Sub", a, call("math.abs", b))),
            call("math.pow", call("math.abs", a), P(("bin", "Add", ("col", 1), ("lit", "int", 1)))),
            ("op", "Mul", call("math.log", I(2), a), b),
            call("text.replace", call("text.lower", a), b, call("text.upper", c)),
            ("un", "Not", call("text.contains", b, a)),
            ("op", "Eq", call("text.length", call("text.trim", a)), call("text.length", b)),
            call("math.floor", ("op", "Mul", call("math.ceil", a), I(2))),
            ("op", "Lt", call("text.starts_with", b, a), c),
            ("op", "Sub", c, ("op", "Sub", call("math.abs", a), call("math.abs", b))),
            call("text.contains", ("op", "Add", call("text.length", b), I(1)), a),
            call("text.ends_with", call("text.extract", I(1), I(2), b), ("op", "Or", a, c))]


def stream_fncall_nested(ck, model_ok, stdsql):
    """std function calls nested in each other and under operators (sql.sqlite, sql.generic: text, and the differential
    oracle against the fully parenthesised reference), and the date templates, which exist only for other dialects
    (date.to_text on sql.duckdb and sql.mysql with a format both leave as it is: text only; the translation of the
    format string itself is C08's)."""
    if not stdsql or "templates" not in stdsql:
        return
    import sqlite3
    from .c02_classify import classify_fncall
    groups = [(["sqlite", "generic"], nested_cases(), True),
              (["duckdb", "mysql"], [("call", "date.to_text", [("str", "%Y"), ("p", ch)]) for ch in fn_children()], False)]
    rows = [(x, y, z) for x in FN_DOMAIN for y in FN_DOMAIN for z in FN_DOMAIN]
    conn = sqlite3.connect(":memory:")
    conn.execute("CREATE TABLE t(a, b, c)")
    conn.executemany("INSERT INTO t VALUES (?, ?, ?)", rows)
    OPSQL = {"Add": "+", "Sub": "-", "Mul": "*", "Eq": "=", "Lt": "<", "And": "AND", "Or": "OR"}
    for dialects, cases, execute in groups:
        srcs = [_nprql(n) for n in cases]
        model = [None] * len(cases)
        if model_ok:
            try:
                hdr = M.HEADER.replace("Model.EvalDoc", "Model.EvalDoc Model.SqlSem Model.SqlCompat Model.C02Probe Gen.GenExpand")
                dl = "[" + "; ".join(G_codes(d) for d in dialects) + "]"
                model = coq_eval_retry(ck, hdr, ["probe_rexpr %s %s" % (dl, _ncoq(n)) for n in cases])
            except (RuntimeError, ValueError, TypeError) as ex:
                ck.coverage["nested_model_error"] = str(ex)[-600:]
                ck.violation("the model could not be evaluated on nested calls", {"kind": "model-evaluation-failed", "error": str(ex)[-600:]}, no_input=True)
        for di, dialect in enumerate(dialects):
            tmpl = {}
            for mod in (dialect, ""):
                for t in stdsql["templates"]:
                    if t["module"] == mod and t["name"] not in tmpl:
                        tmpl[t["name"]] = t
            comp = M.compile_batch(srcs, dialect)
            leafsql = {}

            def leaf(t):
                key = G.prql(t)
                if key not in leafsql:
                    r = M.compile_batch([key], dialect)[0]
                    leafsql[key] = r[0] if r and r[0] not in ("ERR", None) else None
                return leafsql[key]

            def ref(n):
                k = n[0]
                if k == "p":
                    x = leaf(n[1])
                    return None if x is None else "(" + x + ")"
                if k == "str":
                    return "'" + n[1] + "'"
                if k == "call":
                    t = tmpl.get(n[1])
                    if t is None or t["chunks"] is None:
                        return None
                    out = []
                    for ch in t["chunks"]:
                        if ch[0] == "text":
                            out.append(ch[1])
                        else:
                            x = ref(n[2][ch[2]])
                            if x is None:
                                return None
                            out.append("(" + x + ")")
                    return "".join(out)
                if k == "op":
                    l_, r_ = ref(n[2]), ref(n[3])
                    return None if l_ is None or r_ is None or n[1] not in OPSQL else "(%s) %s (%s)" % (l_, OPSQL[n[1]], r_)
                x = ref(n[2])
                return None if x is None else "%s(%s)" % ({"Neg": "-", "Not": "NOT "}[n[1]], x)
            for k, n in enumerate(cases):
                got = comp[k]
                ck.stat("fncall-nested", "%s:%s" % (dialect, "rejected" if got[0] == "ERR" else "compiled"))
                if got[0] in ("ERR", None):
                    continue
                mk = model[k][di] if model[k] is not None else None
                mt = M.codes_text(mk[0]) if mk is not None else None
                bad = Q.triples_py((mk[1], [])) if mk is not None else None
                case = {"stream": "fncall-nested", "dialect": dialect, "src": "from t | select {v = %s}" % srcs[k], "sql": got[0], "model_sql": mt, "bad_triples": bad}
                ck.count("fncall-nested", dialect + "|" + srcs[k], nontrivial=True)
                if mt is None:
                    ck.stat("fncall-nested", dialect + ":model-has-no-text")
                elif mt != got[0]:
                    c2 = dict(case); c2["stream"] = "sqltext"; c2["model"] = mt; c2["impl"] = got[0]
                    ck.disagreement("SQL text differs for %r (%s): model %r, implementation %r" % (srcs[k], dialect, mt, got[0]), c2, classify_text)
                if not execute:
                    continue
                rf = ref(n)
                if rf is None:
                    ck.stat("fncall-nested", dialect + ":no-reference")
                    continue
                case["reference_sql"] = rf
                try:
                    r1 = conn.execute("SELECT %s FROM t" % got[0]).fetchall()
                    r2 = conn.execute("SELECT %s FROM t" % rf).fetchall()
                except sqlite3.Error:
                    ck.stat("fncall-nested", dialect + ":not-executable-on-sqlite")
                    continue
                ck.stat("fncall-nested", dialect + ":executed")
                diff = [i for i in range(len(rows)) if r1[i] != r2[i] and not (isinstance(r1[i][0], float) and isinstance(r2[i][0], float) and abs(r1[i][0] - r2[i][0]) <= 1e-9 * max(1.0, abs(r2[i][0])))]
                if diff:
                    i = diff[0]
                    case.update({"row": {"a": rows[i][0], "b": rows[i][1], "c": rows[i][2]}, "observed": repr(r1[i][0]), "expected": repr(r2[i][0]),
                                 "rows_wrong": len(diff), "rows_compared": len(rows)})
                    ck.disagreement("the engine regroups %r (%s): `%s` gives %r, the intended `%s` gives %r at %s (%d/%d rows)" % (
                        srcs[k], dialect, got[0], r1[i][0], rf, r2[i][0], case["row"], len(diff), len(rows)), case, classify_fncall)
    conn.close()


# ----------------------------------------------------------------------------- (d) f-strings (process_concat)

def stream_fstring(ck, model_ok):
    """`derive {d = E1} | select {v0 = f"..{d}.."}`: std.concat / process_concat.  Model text (select's concat construct:
    CONCAT( ) or a `||` chain, parts never parenthesised) vs compile; RQ of the f-string (left-nested std.concat) vs the
    hook; and, on sql.sqlite, the emitted expression vs the chain with every part parenthesised, both executed."""
    import sqlite3
    from .c02_classify import classify_fncall
    defs = [e1 for e1, _ in G.let_cases()]
    uniq = []
    for e1 in defs:
        if e1 not in uniq:
            uniq.append(e1)
    shapes = [[("c", 3), ("s", "x")], [("s", "x"), ("c", 3)], [("s", "p"), ("c", 3), ("s", "q")], [("c", 3), ("c", 0)],
              [("c", 0), ("s", "-"), ("c", 3)], [("c", 3), ("c", 3)]]
    cases = [(e1, sh) for e1 in uniq for sh in shapes]

    def fsrc(sh):
        return 'f"' + "".join(("{%s}" % "abcd"[v]) if k == "c" else v for k, v in sh) + '"'

    def fcoq(sh):
        return "[" + "; ".join(("inr %d%%nat" % v) if k == "c" else "inl %s" % G_codes(v) for k, v in sh) + "]"
    progs = ["from t | derive {d = %s} | select {v0 = %s}" % (G.prql(e1), fsrc(sh)) for e1, sh in cases]
    model = [None] * len(cases)
    if model_ok:
        try:
            hdr = M.HEADER.replace("Model.EvalDoc", "Model.EvalDoc Model.SqlSem Model.SqlCompat Model.C02Probe")
            model = coq_eval_retry(ck, hdr, ["probe_fstr %s (%s : list (str + nat))" % (G.coq(e1), fcoq(sh)) for e1, sh in cases])
        except (RuntimeError, ValueError, TypeError) as ex:
            ck.coverage["fstring_model_error"] = str(ex)[-600:]
            ck.violation("the model could not be evaluated on f-strings", {"kind": "model-evaluation-failed", "error": str(ex)[-600:]}, no_input=True)
    rows = [(x, y, z) for x in FN_DOMAIN for y in FN_DOMAIN for z in FN_DOMAIN]
    conn = sqlite3.connect(":memory:")
    conn.execute("CREATE TABLE t(a, b, c)")
    conn.executemany("INSERT INTO t VALUES (?, ?, ?)", rows)
    for di, dialect in enumerate(M.DIALECTS):
        rq = [None] * len(progs)
        comp = M.compile_programs(progs, dialect, rq=rq)
        dsql = {}
        keys = [G.prql(e1) for e1 in uniq]
        for key, r in zip(keys, M.compile_batch(keys, dialect)):
            dsql[key] = r[0] if r and r[0] not in ("ERR", None) else None
        hook_missing = 0
        for k, ((e1, sh), got) in enumerate(zip(cases, comp)):
            ck.stat("fstring", "%s:%s" % (dialect, "rejected" if got[0] == "ERR" else "compiled"))
            if got[0] in ("ERR", None) or model[k] is None:
                continue
            inl, per, mrq, hasfn = model[k]
            if not inl:
                ck.stat("fstring", dialect + ":definition-not-inlinable-in-the-model")
                continue
            mt = M.codes_text(per[di][0])
            bad = Q.triples_py((per[di][1], []))
            case = {"stream": "fstring", "dialect": dialect, "src": progs[k], "sql": got[0], "model_sql": mt, "bad_triples": bad,
                    "has_concat_function": bool(hasfn[di])}
            ck.count("fstring", dialect + "|" + progs[k], nontrivial=True)
            if mt is not None and mt != got[0]:
                c2 = dict(case); c2["stream"] = "sqltext"; c2["model"] = mt; c2["impl"] = got[0]
                ck.disagreement("SQL text differs for %r (%s): model %r, implementation %r" % (progs[k], dialect, mt, got[0]), c2, classify_text)
            r = rq[k]
            if r and r[0] == M.HOOK_MISSING:
                hook_missing += 1
            elif r and len(r) == 2 and all(x is not None for x in r):
                m_d, m_v = M.codes_text(("Some", mrq[0])), M.codes_text(("Some", mrq[1]))
                ck.count("rq", "%s|fstring|%s" % (dialect, progs[k]), nontrivial=True)
                if r[0][0] != m_d or r[1][0] != m_v:
                    ck.disagreement("RQ of the f-string program differs for %r: model %s / %s, implementation %s / %s" % (progs[k], m_d, m_v, r[0][0], r[1][0]),
                                    {"stream": "rq", "pass": "resolve", "dialect": dialect, "src": progs[k], "model": [m_d, m_v], "impl": [r[0][0], r[1][0]]}, classify_text)
            else:
                ck.stat("rq", dialect + ":outside-the-hook-view")
            # differential execution: every part parenthesised
            parts = []
            for kind, v in sh:
                if kind == "s":
                    parts.append("'" + v + "'")
                elif v == 3:
                    parts.append(None if dsql.get(G.prql(e1)) is None else "(" + dsql[G.prql(e1)] + ")")
                else:
                    parts.append("abc"[v])
            if any(x is None for x in parts):
                continue
            ref = " || ".join(parts)
            case["reference_sql"] = ref
            try:
                r1 = conn.execute("SELECT %s FROM t" % got[0]).fetchall()
                r2 = conn.execute("SELECT %s FROM t" % ref).fetchall()
            except sqlite3.Error:
                ck.stat("fstring", dialect + ":not-executable-on-sqlite")
                continue
            ck.stat("fstring", dialect + ":executed")
            diff = [i for i in range(len(rows)) if r1[i] != r2[i]]
            if diff:
                i = diff[0]
                case.update({"row": {"a": rows[i][0], "b": rows[i][1], "c": rows[i][2]}, "observed": repr(r1[i][0]), "expected": repr(r2[i][0]),
                             "rows_wrong": len(diff), "rows_compared": len(rows)})
                ck.disagreement("the engine regroups the f-string of %r (%s): `%s` gives %r, the intended `%s` gives %r at %s (%d/%d rows)" % (
                    progs[k], dialect, got[0], r1[i][0], ref, r2[i][0], case["row"], len(diff), len(rows)), case, classify_fncall)
        if hook_missing:
            ck.violation("the verif:preprocess hook (pass normalize) is not in this tree (f-string programs; fail closed)",
                         {"kind": "hook-missing", "hook": "verif:preprocess", "programs": hook_missing}, no_input=True)
    conn.close()


# ----------------------------------------------------------------------------- (e) date formats

DATE_SPECS = ["%Y", "%y", "%m", "%-m", "%d", "%-d", "%H", "%-H", "%I", "%M", "%S", "%f", "%b", "%B", "%a", "%A", "%p", "%+", "%%"]
DATE_LITS = ["-", "/", ":", ".", ",", "T", "at", "Q1", "_", "(", ")", "'", '"', "o'clock", "|", "#", "h", "é"]
DATE_BAD = ["%-Y", "%-b", "%j", "%", "%-"]          # no translation: a compile error


def rand_date_format(r):
    n = r.randint(1, 6)
    out = []
    for _ in range(n):
        x = r.random()
        if x < 0.55:
            out.append(r.choice(DATE_SPECS))
        elif x < 0.85:
            out.append(r.choice(DATE_LITS))
        else:
            out.append(r.choice([" ", "  ", " "]))
    f = "".join(out)
    if "'" in f and '"' in f:
        f = f.replace('"', "")
    return f or "%Y"


def stream_datefmt(ck, model_ok, dateinfo):
    """`(a | date.to_text "<format>")` on the six dialects that translate date formats: the whole emitted expression vs the
    model (chrono items -> the dialect's table -> literal -> template), agreement on rejection, and -- sql.duckdb, whose
    format language SQLite's strftime shares for %Y %m %d %H %M %S -- the emitted format literal applied by SQLite to a
    fixed instant vs python's strftime of the SOURCE format."""
    if not dateinfo or "dialects" not in dateinfo:
        return
    import sqlite3
    import datetime
    dialects = [d for d, _, _ in dateinfo["dialects"]]
    fmts = ["%Y-%m-%d", "%d/%m/%y %H:%M:%S", "%Y'%m", "%d '%H", "'", "%A, %-d %B %Y", "%+", "%Y%%", "at %I %p", "%H:%M:%S.%f", 'say "%Y"', "%Y  %m"] + DATE_BAD
    seen = set(fmts)
    n = ck.n(60, 400)
    while len(fmts) < n + 12:
        f = rand_date_format(ck.rng)
        if f not in seen:
            seen.add(f)
            fmts.append(f)

    def src_of(f):
        q = "'" if '"' in f else '"'
        return "(a | date.to_text %s%s%s)" % (q, f, q)
    srcs = [src_of(f) for f in fmts]
    model = [None] * len(fmts)
    if model_ok:
        try:
            hdr = M.HEADER.replace("Model.EvalDoc", "Model.EvalDoc Model.SqlSem Model.SqlCompat Model.C02Probe Model.DateFormat")
            dl = "[" + "; ".join(G_codes(d) for d in dialects) + "]"
            model = coq_eval_retry(ck, hdr, ["map fst (probe_rexpr %s (ROp n_date_to_text [RLit (LStr %s); RCol 0]))" % (dl, G_codes(f)) for f in fmts])
        except (RuntimeError, ValueError, TypeError) as ex:
            ck.coverage["datefmt_model_error"] = str(ex)[-600:]
            ck.violation("the date format model could not be evaluated", {"kind": "model-evaluation-failed", "error": str(ex)[-600:]}, no_input=True)
            return
    conn = sqlite3.connect(":memory:")
    when = datetime.datetime(2020, 3, 4, 5, 6, 7)
    for di, dialect in enumerate(dialects):
        comp = M.compile_batch(srcs, dialect)
        for k, f in enumerate(fmts):
            got = comp[k]
            mt = M.codes_text(model[k][di]) if model[k] is not None else None
            rejected = got[0] == "ERR"
            ck.count("datefmt", dialect + "|" + f, nontrivial=True)
            ck.stat("datefmt", "%s:%s" % (dialect, "rejected" if rejected else "translated"))
            case = {"stream": "datefmt", "dialect": dialect, "format": f, "src": "from t | select {v = %s}" % srcs[k], "sql": None if rejected else got[0], "model_sql": mt}
            if rejected != (mt is None) or (not rejected and mt != got[0]):
                ck.disagreement("date format %r (%s): model %r, implementation %r" % (f, dialect, mt, "a compile error" if rejected else got[0]),
                                dict(case, stream="sqltext", model=mt, impl=None if rejected else got[0]), classify_text)
                continue
            if rejected or dialect != "duckdb" or "%-" in f or any(x not in "YmdHMS%" for x in re_findall_specs(f)) or any(ord(ch) > 126 for ch in f):
                continue
            sql = got[0]
            i = sql.find(", '")
            if not sql.startswith("strftime(a, '") or i < 0:
                continue
            lit = sql[i + 2:-1]
            try:
                obs = conn.execute("SELECT strftime(%s, '2020-03-04 05:06:07')" % lit).fetchone()[0]
            except sqlite3.Error:
                continue
            exp = when.strftime(f)
            ck.stat("datefmt", "duckdb:executed-as-sqlite-strftime")
            if obs != exp:
                case.update({"format_literal": lit, "observed": obs, "expected": exp})
                ck.disagreement("date format %r (duckdb): the emitted format literal %s renders %r, the source format means %r" % (f, lit, obs, exp), case,
                                lambda c: F["N10"] if "'" in c["format"] else None)
    conn.close()


def re_findall_specs(f):
    import re as _re
    return [m_[-1] for m_ in _re.findall(r"%-?.", f)]


def G_codes(s):
    return "[" + "; ".join(str(ord(c)) for c in s) + "]%N"


# ----------------------------------------------------------------------------- directed cases

def stream_directed(ck):
    """replays of the recorded findings and a few hand-picked programs with their expected value"""
    for f in ck.findings:
        rp = f.get("replay", {})
        if "src" not in rp:
            continue
        ck.stat("directed", "replay:" + f["id"])
    # F17: literal folding by text
    src = "from t | select {v = @2020-01-01T00:00:00Z == @2020-01-01T00:00:00+00:00}"
    a = harness("compile", [{"src": src, "target": "sql.sqlite", "format": False, "sig": False}])[0]
    ck.count("directed", src)
    if "ok" in a:
        sql = a["ok"]
        if " false " in sql.lower() or sql.lower().startswith("select false"):
            ck.disagreement("two spellings of one instant compared by text at compile time: %s" % sql,
                            {"stream": "directed", "src": src, "sql": sql, "kinds": ["timestamp-literal-eq"]}, lambda c: F["F17"])
    # F3b: negation of an s-string that starts with a minus sign (s-strings are outside the generators)
    f = [x for x in ck.findings if x["id"] == F["F3b"]]
    src = 'from t | select {v = -(s"-a")}'
    a = harness("compile", [{"src": src, "target": "sql.sqlite", "format": False, "sig": False}])[0]
    ck.count("directed", src)
    if "ok" in a and "--" in a["ok"]:
        ck.disagreement("negation of an s-string starting with `-` emits an SQL comment: %s" % a["ok"],
                        {"stream": "directed", "src": src, "sql": a["ok"]}, lambda c: F["F3b"])
    # C02-N7 (open: f-string concatenation), C02-N6 and C02-N5 (repaired by e8f08a7 / bb7bbd5: LIKE templates; their ids are
    # 'fixed', so a recurrence is a VIOLATION).
    # Each replay is compiled, and the emitted statement and a hand-parenthesised reference are executed on SQLite.
    import sqlite3
    conn = sqlite3.connect(":memory:")
    conn.execute("CREATE TABLE t(a, b, c)")
    conn.executemany("INSERT INTO t VALUES (?, ?, ?)", [(123, 10, 2), ("3x", 1, 2), (1, 1, "1"), ("ab", "a", "b"), (None, 1, 2), (12, 12, 0)])
    for key, src, bad_text, reference in (
            ("N5", "from t | select {v = (a | text.starts_with (b + c))}", "a LIKE b + c || '%'", "SELECT a LIKE (b + c) || '%' AS v FROM t"),
            ("N5", "from t | select {v = (a | text.contains (b * c))}", "a LIKE '%' || b * c || '%'", "SELECT a LIKE '%' || (b * c) || '%' AS v FROM t"),
            ("N5", "from t | select {v = (a | text.ends_with (b - c))}", "a LIKE '%' || b - c", "SELECT a LIKE '%' || (b - c) AS v FROM t"),
            ("N7", 'from t | derive d = b + c | select {v = f"{d}x"}', "b + c || 'x'", "SELECT (b + c) || 'x' AS v FROM t"),
            # the shape pinned by /repo's own snapshot test_f_string / f_string-2 (`year_born - now()` between two `||`)
            ("N7", 'from t | derive age = a - b | select {v = f"and I am {age} years old."}', "'and I am ' || a - b || ' years old.'",
             "SELECT 'and I am ' || (a - b) || ' years old.' AS v FROM t"),
            ("N6", "from t | select {v = ((a == b) | text.contains c)}", "a = b LIKE", "SELECT (a = b) LIKE '%' || c || '%' AS v FROM t"),
            ("N6", "from t | select {v = ((a | text.contains c) < b)}", "|| '%' < b", "SELECT (a LIKE '%' || c || '%') < b AS v FROM t"),
            ("N6", "from t | select {v = ((a && b) | text.starts_with c)}", "a AND b LIKE", "SELECT (a AND b) LIKE c || '%' AS v FROM t")):
        a = harness("compile", [{"src": src, "target": "sql.sqlite", "format": False, "sig": False}])[0]
        ck.count("directed", src)
        if "ok" not in a:
            ck.violation("directed replay no longer compiles: %s" % src, {"stream": "directed", "src": src, "answer": a})
            continue
        try:
            got = conn.execute(a["ok"]).fetchall()
            want = conn.execute(reference).fetchall()
        except sqlite3.Error as ex:
            ck.violation("directed replay does not execute: %s: %s" % (a["ok"], ex), {"stream": "directed", "src": src, "sql": a["ok"]})
            continue
        if got != want or bad_text in a["ok"]:
            wrong = [i for i in range(len(want)) if got[i] != want[i]]
            ck.disagreement("operand next to `||` / LIKE regroups: %s (intended: %s); %d of %d rows differ%s" % (
                a["ok"], reference, len(wrong), len(want), (", e.g. observed %r, intended %r" % (got[wrong[0]][0], want[wrong[0]][0])) if wrong else ""),
                {"stream": "directed", "src": src, "sql": a["ok"], "reference": reference, "rows_wrong": len(wrong)}, lambda c, k=key: F[k])
    conn.close()
    # /repo 222f71a: std.neg of Literal::Integer(i64::MIN) is left unevaluated (checked_neg).  No source text denotes
    # that literal (the lexer reads 9223372036854775808 as a float), so the PL is presented as JSON (harness c02_plsql):
    # model (static_eval_op + translate) vs implementation, byte for byte, around both ends of the i64 range.
    MIN, MAX = -2 ** 63, 2 ** 63 - 1
    base = harness("pl", [{"src": "from t | select {v0 = -101, v1 = -(-102), v2 = a + -103, v3 = -104 == 105, v4 = -(a + 106)}"}])[0]
    if "ok" in base:
        rl = lambda z: "(RLit (LInt (%d)))" % z
        neg = lambda x: "(ROp n_neg [%s])" % x
        for name, vals in (("min", [MIN] * 6), ("min+1", [MIN + 1] * 6), ("max", [MAX] * 6), ("mixed", [MIN, MAX, MIN, MIN + 1, MAX, MIN])):
            txt = json.dumps(base["ok"])
            for ph, z in zip((101, 102, 103, 104, 105, 106), vals):
                txt = txt.replace('{"Integer": %d}' % ph, '{"Integer": %d}' % z)
            v = vals
            rq = [neg(rl(v[0])), neg(neg(rl(v[1]))), "(ROp (expand_binop B_Add) [RCol 0; %s])" % neg(rl(v[2])),
                  "(ROp n_eq [%s; %s])" % (neg(rl(v[3])), rl(v[4])), neg("(ROp (expand_binop B_Add) [RCol 0; %s])" % rl(v[5]))]
            try:
                hdr = M.HEADER.replace("Model.EvalDoc", "Model.EvalDoc Model.SqlSem Model.SqlCompat Model.C02Probe Gen.GenExpand")
                mod = coq_eval_retry(ck, hdr, ["probe_rq %s" % r for r in rq])
            except (RuntimeError, ValueError, TypeError) as ex:
                ck.violation("the model could not be evaluated on the i64 boundary literals", {"kind": "model-evaluation-failed", "error": str(ex)[-400:]}, no_input=True)
                break
            for di, dialect in enumerate(M.DIALECTS):
                a = harness("c02_plsql", [{"pl": json.loads(txt), "target": "sql." + dialect}])[0]
                ck.count("directed", "i64:%s:%s" % (name, dialect), nontrivial=True)
                want = [M.codes_text(m[di]) for m in mod]
                got = M.split_select(a["ok"], 5) if "ok" in a else None
                if got != want:
                    ck.disagreement("constant folding / emission at the i64 boundary (%s, %s): model %r, implementation %r" % (name, dialect, want, got if got is not None else a),
                                    {"stream": "sqltext", "dialect": dialect, "pl_literals": [str(z) for z in vals], "model": want, "impl": got, "answer": a if got is None else None},
                                    classify_text)
    # findings that live in tables / non-executable dialects: confirm the recorded emission
    for key, target, want in (("N3", "sql.sqlite", "a REGEXP b < c"), ("N4", "sql.bigquery", "(a + b * 180 / PI())"), ("N9", "sql.postgres", "a ~ b ~ c")):
        f = [x for x in ck.findings if x["id"] == F[key]]
        if not f:
            continue
        src = f[0]["replay"]["src"]
        a = harness("compile", [{"src": src, "target": target, "format": False, "sig": False}])[0]
        ck.count("directed", src)
        if "ok" in a and want in a["ok"]:
            ck.disagreement("recorded mis-parenthesised emission reproduced: %s" % a["ok"],
                            {"stream": "directed", "src": src, "sql": a["ok"]}, lambda c, k=key: F[k])
    try:
        from ..translate import gen_doc_prec
        rows = gen_doc_prec.extract()["rows"]
        if not any("~=" in sp for _, sp, _, _ in rows):
            ck.count("directed", "doc:~=")
            ck.disagreement("the book's precedence table does not list `~=`", {"stream": "directed", "doc": gen_doc_prec.DOC, "operator": "~="}, lambda c: F["N1"])
    except Exception:
        pass

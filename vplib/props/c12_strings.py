"""C12: directed input families about the TEXT of string-like tokens.
 * escape_strings: escape-sequence fragments (complete, truncated, non-hex digits, out-of-range code points, at
   the end of input) inside every kind of quoted token;
 * slicing_family: a multi-byte character at every small byte offset of the text of every string-like token
   (table-valued and scalar s-strings, string / f-string / raw literals, backtick names, comments, date formats,
   regexes, target names, date literals, ...): code that slices such text at a fixed byte offset or at a length
   derived from an ASCII pattern panics ('byte index n is not a char boundary') exactly there."""

BS = "\\"
ESC_FRAGS = [BS, BS + "u", BS + "u{", BS + "x", "{", "}", "{{", "}}", "0", "4", "41", "1F600", "D800", "110000", "FFFFFFFF", "g", "z", " ", "",
             BS + "n", BS + "t", BS + "0", BS + "'", BS + '"', BS + "b", BS + "e", BS + "N", BS + "U", BS + "u{}", BS + "u{ 41}", BS + "u{zz}",
             BS + "u{41}", BS + "u{D800}", BS + "u{110000}", BS + "u{1234567}", BS + "x4", BS + "xZZ", BS + "x41", BS + BS, "é", "\n"]
STRING_SHELLS = ['from t | derive x = "%s"', "from t | derive x = '%s'", 'from t | derive x = """%s"""', 'from t | derive x = f"%s"',
                 'from t | derive x = s"%s"', 'from t | derive x = r"%s"', 'from t | filter a ~= "%s"', "from t | derive x = f'''%s'''",
                 'from s"%s"', 'from t | derive d = (date.to_text "%s" d0)', 'from t | derive x = "%s', 'from t | derive x = f"{a}%s',
                 'from t | select `%s`']


def escape_strings(rng, n):
    out = []
    for _ in range(n):
        body = "".join(rng.choice(ESC_FRAGS) for _ in range(rng.randint(1, 6)))
        out.append(("escapes", rng.choice(STRING_SHELLS) % body))
    # every fragment on its own in every shell (exhaustive, small)
    for f in ESC_FRAGS:
        for sh in STRING_SHELLS:
            out.append(("escapes", sh % f))
    return out


SLICE_SHELLS = ['from s"%s"', 'from t | join s"%s" (==a)', 'from t | append s"%s"', 'from t | derive x = s"%s"', 'from t | derive x = "%s"',
                'from t | derive x = f"%s"', "from `%s`", "from t | select `%s`", "# %s\nfrom t", "#! %s\nfrom t",
                'from t | derive d = (date.to_text "%s" d0)', 'from t | filter a ~= "%s"', 'from t | filter (text.contains "%s" a)',
                "prql target:sql.%s\nfrom t", "let `%s` = 1\nfrom t", "from t | derive x = @%s", "from t | derive x = %sdays",
                "from t | filter a == $%s", 'from (read_csv "%s")', 'from t | derive x = r"%s"', 'from (from_text format:json "%s")']
SLICE_HEADS = ["SELECT * FROM t", "select 1 as a", "VALUES (1), (2)", "WITH x AS (SELECT 1) SELECT * FROM x", "aaaaaaaaaaaaaaaa",
               "%Y-%m-%d %H:%M", "2020-01-01T10:00:00", "sqlite", "12345678", "[{\"a\": 1}]"]
SLICE_CHARS = [" ", "é", "€", "\U0001F600", "́"]


def slicing_family(rng, per_shell):
    out = []
    combos = [(h, n, c) for h in SLICE_HEADS for n in range(0, 13) for c in SLICE_CHARS]
    for sh in SLICE_SHELLS:
        for h, n, c in rng.sample(combos, min(per_shell, len(combos))):
            text = h[:n] + c + h[n:]
            out.append(("slicing", sh % text))
            if rng.random() < 0.3:
                out.append(("slicing", sh % ("  " + text + " ")))
    return out

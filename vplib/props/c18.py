"""C18 -- the dialect is chosen by options, then by the query header, then generic."""
import json

from ..common import Check, coq_eval, coq_codes, harness
from ..translate import gen_dialect, gen_dialect_reads
from ..programs import POOL

TRUSTED = [
    "Coq 8.16.1 kernel (coqc, vm_compute); no axioms: every theorem is 'Closed under the global context'",
    "translator vplib/translate/gen_dialect.py (regex scanners over sql/dialect.rs, lib.rs, sql/mod.rs, sql/pq/gen_query.rs, parser/stmt.rs; fail closed)",
    "translator vplib/translate/gen_dialect_reads.py: the inventory of every occurrence, in the non-test Rust source of both crates, of a `dialect: Option<Dialect>` parameter / `options.target`, of `.other` / a `QueryDef {..}` literal, of `.dialect` / `.dialect_enum` / `Context {..}` / `Context::new`, of `Target::from_str` / `Dialect::from_str`, each classified by the normalised text of its statement (fail closed; an unrecognised use is class OTHER and breaks c18_reads_inventory_ok). Its completeness -- that the compiler has no other way to reach the option or the header (e.g. through serde, a macro, unsafe code) -- is the hypotheses FE / BK of the c18_rd_* theorems, and is what the full matrix and the observed-dialect stream check on the implementation",
    "correspondence harness (harness/src/main.rs: prqlc::compile, prql_to_pl+pl_to_rq) and python comparison",
    "modelled, not verified: front end and back end are arbitrary read-programs (Model/SelectReads.v) whose reads happen at inventoried sites; what each site does with the answer is not modelled (it does not need to be)",
    "strum's EnumString/Display derive (exact, lowercase names)",
]

HEADERS_UNKNOWN = ["sql.SQLite", "sql.Generic", "sqlite", "sql.foo", "sql.sqlite.x", "sql.`sqlite`", "postgres", "sql.any.x", "sql.anyx", "SQL.sqlite", "sql.sqlite_", "sql.ms_sql", "sql.é"]


def run():
    ck = Check("C18", level="proof")
    info = gen_dialect.generate()
    rinfo = gen_dialect_reads.generate()
    pr = ck.prove()
    if "error" in rinfo:
        ck.coverage["reads_translator_error"] = rinfo["error"]
    else:
        inv = {}
        bad = []
        for kind, rel, fn, cls, what in rinfo["entries"]:
            inv.setdefault(kind, {}).setdefault(str(cls), 0)
            inv[kind][str(cls)] += 1
            if cls in (8, 9) and not rel.startswith("prqlc/prqlc/src/cli/"):
                bad.append({"kind": kind, "file": rel, "function": fn, "what": what})
        ck.coverage["read_sites"] = {"by_kind_and_class": inv, "total": len(rinfo["entries"]), "unclassified_uses": bad,
                                     "chosen_dialect_read_sites": sorted({"%s::%s" % (rel, fn) for kind, rel, fn, cls, _ in rinfo["entries"] if kind == "chosen" and cls == 0})}
        ck.count("read-site-inventory", "inventory", nontrivial=True)
    names = info.get("names") if "error" not in info else None
    if names is None:
        # translator failed closed: use the implementation's own list for the search
        from ..common import harness1
        names = [n[4:] for n in harness1("names", {})["target_names"] if n != "sql.any"]
    opts = [None] + ["sql." + n for n in names]
    headers = [None, "sql.any"] + ["sql." + n for n in names] + HEADERS_UNKNOWN
    progs = POOL      # every pool program in both tiers: each exercises a different dialect-consulting code path (loop -> WITH RECURSIVE, take, regex, dates, s-string relations ..)
    extra_prog_opts = [{"format": False}] + ([{"format": True}] if ck.thorough else [])

    # 1. what the resolver does with each header (and which string reaches def.other.target)
    rq_reqs = []
    for p in progs:
        for h in headers:
            src = p if h is None else "prql target:%s\n%s" % (h, p)
            rq_reqs.append({"src": src})
    rq_ans = harness("rq", rq_reqs)
    stored = {}     # (pi, hi) -> ("ok", target string or None) | ("err", reasons)
    k = 0
    for pi, p in enumerate(progs):
        for hi, h in enumerate(headers):
            a = rq_ans[k]; k += 1
            if "ok" in a:
                stored[(pi, hi)] = ("ok", a["ok"].get("def", {}).get("other", {}).get("target"))
            elif "err" in a:
                stored[(pi, hi)] = ("err", [e["reason"] for e in a["err"]])
            else:
                stored[(pi, hi)] = ("panic", a)
    # resolver acceptance must not depend on the header
    for pi, p in enumerate(progs):
        base = stored[(pi, 0)][0]
        for hi, h in enumerate(headers):
            st = stored[(pi, hi)]
            ck.count("resolver-accepts", "%d|%s" % (pi, h))
            if st[0] != base:
                ck.violation("resolver verdict depends on header %r: %s vs %s for program %r" % (h, st[0], base, p),
                             {"program": p, "header": h, "with_header": st, "without": stored[(pi, 0)]})
            if st[0] == "ok" and h is not None and st[1] != h.replace("`", "") and st[1] != h:
                # informational: what string reaches the back end
                ck.stat("resolver-accepts", "header-text-changed:%s->%s" % (h, st[1]))

    # 2. model verdicts for every (option, stored header string) pair
    hstrings = sorted({st[1] for st in stored.values() if st[0] == "ok" and st[1] is not None})
    pairs = [(o, h) for o in range(len(opts)) for h in [None] + hstrings]
    model = {}
    if pr["ok"] or "error" not in info:
        header = ("From Coq Require Import List NArith.\nFrom PV Require Import Lib.ListX Model.Select Gen.GenDialect.\n"
                  "Import ListNotations.\nLocal Open Scope N_scope.\n")
        exprs = []
        for o, h in pairs:
            oc = "None" if o == 0 else "(Some %d%%nat)" % (o - 1)
            hc = "None" if h is None else "(Some %s)" % coq_codes(h)
            exprs.append("match select_dialect dialect_names default_index target_prefix target_any %s %s with Ok d => Some (N.of_nat d) | Err => None end" % (oc, hc))
        try:
            vals = coq_eval(header, exprs)
            for (o, h), v in zip(pairs, vals):
                model[(o, h)] = None if v == "None" else v[1]
        except RuntimeError as ex:
            ck.coverage["model_eval_error"] = str(ex)[-500:]
    if not model:
        # model cannot be evaluated (broken Gen): python mirror of the *specification* drives the search
        for o, h in pairs:
            if o > 0:
                model[(o, h)] = o - 1
            elif h is None or h == "sql.any":
                model[(o, h)] = names.index("generic") if "generic" in names else None
            elif h.startswith("sql.") and h[4:] in names:
                model[(o, h)] = names.index(h[4:])
            else:
                model[(o, h)] = None

    # 3. implementation: compile under (option, header) vs compile under the model's dialect alone
    for eo in extra_prog_opts:
        ref_reqs = [dict(src=p, target="sql." + n, **eo) for p in progs for n in names]
        ref_ans = harness("compile", ref_reqs)
        ref = {}
        k = 0
        for pi in range(len(progs)):
            for ni in range(len(names)):
                ref[(pi, ni)] = ref_ans[k]; k += 1
        reqs, meta = [], []
        for pi, p in enumerate(progs):
            for hi, h in enumerate(headers):
                st = stored[(pi, hi)]
                if st[0] != "ok":
                    continue
                src = p if h is None else "prql target:%s\n%s" % (h, p)
                for o in range(len(opts)):
                    reqs.append(dict(src=src, target=opts[o], **eo))
                    meta.append((pi, hi, o, st[1]))
        ans = harness("compile", reqs)
        for (pi, hi, o, hs), a in zip(meta, ans):
            want = model.get((o, hs), "missing")
            case = {"program": progs[pi], "header": headers[hi], "option": opts[o], "format": eo["format"]}
            key = json.dumps([pi, hi, o, eo["format"]])
            ck.count("matrix", key, nontrivial=True)
            ck.stat("matrix", "model:" + ("err" if want is None else "ok"))
            def canon(x):
                if "ok" in x:
                    return ("ok", x["ok"])
                if "err" in x:
                    return ("err", tuple(e["reason"] for e in x["err"]))
                return ("other", json.dumps(x, sort_keys=True)[:300])
            got = canon(a)
            if want == "missing":
                continue
            if want is None:
                ok = got[0] == "err" and any("target" in r for r in got[1])
                if not ok:
                    case["expected"] = "error: unknown target"; case["got"] = got
                    ck.violation("unknown target %r accepted or mis-reported under option %r" % (headers[hi], opts[o]), case)
            else:
                exp = canon(ref[(pi, want)])
                if got != exp:
                    case["expected_dialect"] = names[want]; case["expected"] = exp; case["got"] = got
                    ck.violation("option %r + header %r: output differs from dialect %s alone" % (opts[o], headers[hi], names[want]), case)
            if len(ck.coverage["samples"]) < 6 and (pi + hi + o) % 97 == 0:
                ck.sample({"case": case, "model_dialect": None if want is None else names[want], "impl": got[0]})
    # 4. the chosen dialect observed at its read sites: the `verif:select_pipeline_in` hook logs ctx.dialect_enum inside
    #    translate_select_pipeline; on every (option, header) pair it must be the model's dialect (a few programs: a plain one, a
    #    recursive CTE, a nested pipeline, an s-string relation)
    variants = info.get("variants") if "error" not in info else None
    obs_progs = [i for i in (0, 33, 27, 37, 10) if i < len(progs)] if variants else []
    if obs_progs:
        reqs, meta = [], []
        for pi in obs_progs:
            for hi, h in enumerate(headers):
                st = stored[(pi, hi)]
                if st[0] != "ok":
                    continue
                src = progs[pi] if h is None else "prql target:%s\n%s" % (h, progs[pi])
                for o in range(len(opts)):
                    reqs.append({"src": src, "target": opts[o], "format": False, "want": [], "msg_prefix": "verif:select_pipeline_in"})
                    meta.append((pi, hi, o, st[1]))
        ans = harness("log", reqs)
        hook_seen = 0
        for (pi, hi, o, hs), a in zip(meta, ans):
            want = model.get((o, hs), "missing")
            if want == "missing":
                continue
            seen = []
            for e in a.get("entries", []):
                t = e.get("Message", "")
                if t.startswith("verif:select_pipeline_in "):
                    try:
                        seen.append(json.loads(t[len("verif:select_pipeline_in "):]).get("dialect"))
                    except ValueError:
                        seen.append("<unparsable>")
            ck.count("observed-chosen", json.dumps([pi, hi, o]), nontrivial=bool(seen))
            hook_seen += len(seen)
            case = {"program": progs[pi], "header": headers[hi], "option": opts[o], "observed_ctx_dialect_enum": seen}
            if want is None:
                if seen:
                    case["expected"] = "no back-end run (unknown target)"
                    ck.violation("back end ran with ctx.dialect_enum=%s although the header target %r is unknown" % (seen, headers[hi]), case)
            else:
                if "ok" in a and not seen:
                    ck.violation("compile succeeded but the select_pipeline_in hook logged nothing (hook missing from this tree?)", case)
                if any(d != variants[want] for d in seen):
                    case["expected_dialect"] = variants[want]
                    ck.violation("ctx.dialect_enum read by translate_select_pipeline is %s, the model's selection is %s (option %r, header %r)" % (
                        sorted(set(seen)), variants[want], opts[o], headers[hi]), case)
        ck.coverage["observed_chosen"] = {"programs": [progs[i] for i in obs_progs], "compiles": len(meta), "hook_lines": hook_seen}
    ck.coverage["matrix_shape"] = {"programs": len(progs), "options": len(opts), "headers": len(headers), "formats": len(extra_prog_opts)}
    ck.coverage["exhaustive"] = True
    ck.proof_broken_violation(found_input=bool(ck.violations))
    if "error" in info:
        ck.coverage["translator_error"] = info["error"]
    ck.assumptions += ["signature comment excluded (sig=false): it prints the *option's* target only, by design",
                       "the back end is deterministic (C11)"]
    ck.finish(TRUSTED, "full (option x header) matrix over the 12 dialects + absent + sql.any + %d unknown spellings, on %d pool programs; a case is (program, header, option, format); all are distinct; non-trivial = the resolver accepted the program so the back end ran" % (len(HEADERS_UNKNOWN), len(progs)))

"""C12: probe runner.  Like common.harness() but every request carries a wall-clock cap (`cap_ms`, enforced
inside the harness: on a timeout the harness answers {"hang": cap_ms} and exits) and every batch has an outer
cap as a backstop.  A batch that ends early (hang, stack overflow / SIGABRT / SIGSEGV) is continued in a new
process from the request after the culprit; the culprit's answer is {"hang": ms} or {"abort": rc, "stderr": ..}."""
import concurrent.futures as cf
import json
import subprocess
import time

from ..common import HARNESS_BIN, NPROC, harness_build


def _run(cmd, lines, cap):
    try:
        p = subprocess.run([HARNESS_BIN, cmd], input="\n".join(lines) + "\n", capture_output=True, text=True, timeout=cap)
        outs = [l for l in p.stdout.split("\n") if l.strip()]
        return p.returncode, outs, p.stderr[-400:], False
    except subprocess.TimeoutExpired as ex:
        out = ex.stdout.decode("utf-8", "replace") if isinstance(ex.stdout, bytes) else (ex.stdout or "")
        good = []
        for l in out.split("\n"):
            if not l.strip():
                continue
            try:
                json.loads(l)
                good.append(l)
            except ValueError:
                break
        return 124, good, "TIMEOUT", True


def probe(reqs, cap_ms=10000, shards=None, cmd="c12probe"):
    """reqs: list of dict (entry, src, stack_mb, target).  Returns the list of answers."""
    harness_build()
    if not reqs:
        return []
    shards = shards or NPROC
    lines = [json.dumps(dict(r, cap_ms=cap_ms)) for r in reqs]
    n = len(lines)
    # interleave so that neighbouring (similar, possibly slow) requests land in different processes
    idx = [list(range(s, n, shards)) for s in range(shards)]
    idx = [ix for ix in idx if ix]
    res = [None] * n

    def work(ix):
        c = [lines[i] for i in ix]
        done = []
        while len(done) < len(c):
            rest = c[len(done):]
            outer = 30.0 + (cap_ms / 1000.0) * 2 + 0.05 * len(rest)
            rc, outs, err, timed_out = _run(cmd, rest, outer)
            got = [json.loads(o) for o in outs[:len(rest)]]
            done += got
            if len(got) == len(rest):
                break
            if got and isinstance(got[-1], dict) and "hang" in got[-1] and rc == 3:
                continue            # the harness reported the hang itself and exited
            # no answer for the next request: abort (rc < 0 / != 0) or outer timeout
            if timed_out:
                done.append({"hang": int(outer * 1000), "outer": True})
            else:
                done.append({"abort": rc, "stderr": err})
        return ix, done

    with cf.ThreadPoolExecutor(max_workers=shards) as ex:
        for ix, done in ex.map(work, idx):
            for i, v in zip(ix, done):
                res[i] = v
    return res

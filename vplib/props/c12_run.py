"""C12: probe runner.  Like common.harness() but with wall-clock caps: a batch that does not finish within
its cap is killed and its unanswered requests are re-run one at a time, so a hang is attributed to one
input ({"hang": seconds}) exactly as an abort is ({"abort": rc, "stderr": ..})."""
import concurrent.futures as cf
import json
import subprocess
import time

from ..common import HARNESS_BIN, NPROC, harness_build


def _run(cmd, lines, cap):
    t0 = time.time()
    try:
        p = subprocess.run([HARNESS_BIN, cmd], input="\n".join(lines) + "\n", capture_output=True, text=True, timeout=cap)
        outs = [l for l in p.stdout.split("\n") if l.strip()]
        return p.returncode, outs, p.stderr[-400:], False, time.time() - t0
    except subprocess.TimeoutExpired as ex:
        out = ex.stdout.decode("utf-8", "replace") if isinstance(ex.stdout, bytes) else (ex.stdout or "")
        outs = [l for l in out.split("\n") if l.strip()]
        # the last line may be cut
        good = []
        for l in outs:
            try:
                json.loads(l)
                good.append(l)
            except ValueError:
                break
        return 124, good, "TIMEOUT", True, time.time() - t0


def probe(reqs, cap_each=20.0, cap_base=30.0, shards=None, cmd="probe"):
    """reqs: list of dict.  Returns list of answers; each answer is the harness's JSON, or
    {"abort": rc, "stderr": s} or {"hang": cap_each}."""
    harness_build()
    if not reqs:
        return []
    shards = shards or NPROC
    lines = [json.dumps(r) for r in reqs]
    n = len(lines)
    size = max(1, (n + shards - 1) // shards)
    chunks = [(i, lines[i:i + size]) for i in range(0, n, size)]
    res = [None] * n

    def work(args):
        i, c = args
        cap = cap_base + 0.05 * len(c)
        rc, outs, err, timed_out, dt = _run(cmd, c, cap)
        done = []
        for o in outs[:len(c)]:
            done.append(json.loads(o))
        k = len(done)
        while k < len(c):
            # the culprit, then the rest again as a batch
            rc1, o1, e1, to1, dt1 = _run(cmd, [c[k]], cap_each)
            if len(o1) == 1 and not to1:
                done.append(json.loads(o1[0]))
            elif to1:
                done.append({"hang": cap_each})
            else:
                done.append({"abort": rc1, "stderr": e1})
            k += 1
            if k < len(c):
                rc2, o2, e2, to2, dt2 = _run(cmd, c[k:], cap)
                for o in o2[:len(c) - k]:
                    done.append(json.loads(o))
                k = len(done)
        return i, done

    with cf.ThreadPoolExecutor(max_workers=shards) as ex:
        for i, done in ex.map(work, chunks):
            for k, v in enumerate(done):
                res[i + k] = v
    return res

"""Grammar-based whole-program generator for the C14 direct oracle.

Two families:
  * syntactic(rng): any statement kind the parser accepts (let / func definitions with defaults and type
    annotations / type / module / import / annotations / into / main pipelines, doc comments, comments, line wraps,
    long lines).  These rarely resolve; the oracle compares ASTs, idempotence and (identical) compile errors.
  * compilable(rng): `from t | ...` pipelines over columns a b c (numbers) and s (text) whose expressions use
    every operator, literals, case, ranges (`in`), f-/s-strings, std functions, nested pipelines and named
    arguments, so that both sides compile to SQL (sqlite and generic) and the SQL texts can be compared.
"""
from . import c14_gen as G


# ------------------------------------------------------------------------------------------- compilable

NUM_COLS = ["a", "b", "c", "t.a", "`a`"]
TXT_COLS = ["s", "t.s"]


def num_expr(rng, d, wide=False):
    k = rng.random()
    if d <= 0 or k < 0.22:
        j = rng.random()
        if j < 0.45:
            return rng.choice(NUM_COLS)
        if j < 0.7:
            return str(rng.choice([0, 1, 2, 3, 7, 10, 100, 1000000]))
        if j < 0.9:
            return rng.choice(["0.5", "1.5", "2.25", "0.001", "1e21", "3.14159"] + ([] if CLEAN[0] else ["1.0", "3.0", "1e3", "2.5e1", "1e400"]))
        return rng.choice(["0x1F", "1_000", "0b11"])
    if k < 0.62:
        op = rng.choice(["+", "-", "*", "/", "//", "%", "**", "??"])
        return "(%s) %s (%s)" % (num_expr(rng, d - 1), op, num_expr(rng, d - 1))
    if k < 0.72:
        return "%s(%s)" % (rng.choice(["-", "+"]), num_expr(rng, d - 1))
    if k < 0.86:
        f = rng.choice(["math.abs", "math.round 2", "math.floor", "math.pow 2", "math.sqrt", "text.length"])
        if f == "text.length":
            return "(text.length (%s))" % txt_expr(rng, d - 1)
        return "(%s (%s))" % (f, num_expr(rng, d - 1))
    if k < 0.93:
        return "case [(%s) => (%s), true => (%s)]" % (bool_expr(rng, d - 1), num_expr(rng, d - 1), num_expr(rng, d - 1))
    return "((%s) | math.abs | math.round 1)" % num_expr(rng, d - 1)


def txt_expr(rng, d):
    k = rng.random()
    if d <= 0 or k < 0.4:
        j = rng.random()
        if j < 0.4:
            return rng.choice(TXT_COLS)
        return G.str_lit(rng.choice(["x", "it's", 'say "hi"', "a b", "%Y", "é", "tab\t", "nl\n", "b\\s", "", "q'\"q", "{x}"] + ["'q\"", "\"q'"]))
    if k < 0.6:
        return "(text.%s (%s))" % (rng.choice(["lower", "upper", "trim", "ltrim"]), txt_expr(rng, d - 1))
    if k < 0.8:
        return 'f"%s{%s}%s{%s}"' % (rng.choice(["", "x ", "{{", "it's ", "\\\"q\\\" "]), rng.choice(["s", "a", "t.s", "`s`"]), rng.choice(["", " - ", "}}"]), rng.choice(["b", "s"]))
    if k < 0.9:
        return 's"COALESCE({%s}, %s)"' % (rng.choice(TXT_COLS), rng.choice(["''", "'x'", "\\\"s\\\""]))
    return "((%s) ?? (%s))" % (txt_expr(rng, d - 1), txt_expr(rng, d - 1))


def bool_expr(rng, d):
    k = rng.random()
    if d <= 0 or k < 0.3:
        op = rng.choice(["==", "!=", ">", "<", ">=", "<="])
        j = rng.random()
        if j < 0.7:
            return "(%s) %s (%s)" % (num_expr(rng, max(d - 1, 0)), op, num_expr(rng, max(d - 1, 0)))
        if j < 0.8:
            return "(%s) %s null" % (rng.choice(NUM_COLS), rng.choice(["==", "!="]))
        if j < 0.9:
            return "(%s) ~= %s" % (rng.choice(TXT_COLS), G.str_lit(rng.choice(["^a", "x$", "a|b"])))
        return "(%s) == (%s)" % (txt_expr(rng, max(d - 1, 0)), txt_expr(rng, max(d - 1, 0)))
    if k < 0.6:
        return "(%s) %s (%s)" % (bool_expr(rng, d - 1), rng.choice(["&&", "||"]), bool_expr(rng, d - 1))
    if k < 0.72:
        return "!(%s)" % bool_expr(rng, d - 1)
    if k < 0.86:
        lo, hi = rng.choice([("1", "5"), ("0", ""), ("", "10"), ("(-3)", "3"), ("-3", "3"), ("1.5", "2.5"), ("(a)", "(b + 1)")])
        return "((%s) | in %s..%s)" % (num_expr(rng, d - 1), lo, hi)
    if k < 0.93:
        return "(text.%s %s (%s))" % (rng.choice(["contains", "starts_with", "ends_with"]), G.str_lit(rng.choice(["x", "a'b", "%"])), txt_expr(rng, d - 1))
    return "true" if rng.random() < 0.5 else "false"


def any_expr(rng, d):
    k = rng.random()
    if k < 0.55:
        return num_expr(rng, d)
    if k < 0.8:
        return bool_expr(rng, d)
    if k < 0.95:
        return txt_expr(rng, d)
    return rng.choice(["@2020-01-01", "@10:00:00", "@2020-01-01T10:00:00", "@2020-01-01T10:00:00+05:30", "2days", "null", "3years"])


NAMES = ["x", "y", "z", "total", "n1", "`my col`", "`select`", "r_1", "é", "a_really_long_column_name_for_wrapping_purposes", "another_quite_long_name_to_force_a_break"]


def tuple_of(rng, gen, lo=1, hi=4, d=2):
    items = []
    used = set()
    for _ in range(rng.randint(lo, hi)):
        nm = rng.choice(NAMES)
        if nm in used:
            continue
        used.add(nm)
        items.append("%s = %s" % (nm, gen(rng, rng.randint(0, d))))
    return "{" + ", ".join(items) + "}"


def transform(rng, d):
    k = rng.random()
    if k < 0.28:
        return "derive " + tuple_of(rng, any_expr, d=d)
    if k < 0.42:
        return "filter " + bool_expr(rng, d)
    if k < 0.52:
        return "select " + tuple_of(rng, any_expr, d=d)
    if k < 0.60:
        keys = rng.sample(["a", "-b", "+c", "s", "-(a + b)", "(a * 2)"], rng.randint(1, 3))
        return "sort {" + ", ".join(keys) + "}" if rng.random() < 0.8 else "sort " + rng.choice(["a", "(-b)"])
    if k < 0.68:
        return "take " + rng.choice(["5", "1..3", "2..", "..4", "10"])
    if k < 0.76:
        aggs = ["n = count this", "sm = sum a", "mn = min (b + 1)", "av = average (a * 2.5)", "mx = max (a ?? 0)", "cd = count_distinct s"]
        return "group {%s} (aggregate {%s})" % (rng.choice(["c", "s", "c, s"]), ", ".join(rng.sample(aggs, rng.randint(1, 3))))
    if k < 0.82:
        return "aggregate {n = count this, sm = sum (%s)}" % num_expr(rng, 1)
    if k < 0.88:
        return "join %su (%s)" % (rng.choice(["", "side:left ", "side:inner ", "side:full "]), rng.choice(["==a", "t.a == u.a", "t.a == u.a && t.b > 1"]))
    if k < 0.93:
        return "window %s (derive {w = %s})" % (rng.choice(["rolling:3", "rows:-1..1", "expanding:true", "range:-2..0"]), rng.choice(["sum a", "average b", "min (a + b)"]))
    if k < 0.97:
        return "group {c} (sort a | take 1)" if rng.random() < 0.5 else "group {c} (sort {-a} | derive {rk = rank a, ln = lag 1 b})"
    return "derive {w = (a | math.abs | math.round 2), v = (text.lower s | text.upper)}"


def compilable(rng):
    d = rng.choice([1, 2, 2, 3])
    n = rng.randint(1, 5)
    ts = ["from t"]
    joined = False
    for _ in range(n):
        t = transform(rng, d)
        if t.startswith("join"):
            if joined:
                continue
            joined = True
        ts.append(t)
    style = rng.random()
    if style < 0.5:
        body = "\n".join(ts)
    elif style < 0.8:
        body = " | ".join(ts)
    else:
        body = "\n".join(ts[:1] + [x + rng.choice(["", "  # comment", " # it's \"x\""]) for x in ts[1:]])
    head = ""
    h = rng.random()
    if h < 0.12:
        head = "prql target:sql.%s\n" % rng.choice(["sqlite", "generic", "postgres"])
    elif h < 0.18:
        head = 'prql version:"0.13" target:sql.sqlite\n'
    pre = ""
    if rng.random() < 0.25:
        pre += "let add2 = func x y:1 -> x + y + 2\n"
        body += "\nderive {q = add2 a, q2 = add2 y:b c, q3 = (add2 (-a) | add2 y:(-1))}"
    if rng.random() < 0.15:
        pre += "let base = (from u | filter (%s))\n" % bool_expr(rng, 1)
    if rng.random() < 0.1:
        pre += "#! docs for the query\n"
    return head + pre + body + "\n"


# ------------------------------------------------------------------------------------------- syntactic

CLEAN = [True]   # set by the caller: avoid (True) or include (False) the constructs of the known findings


def ty(rng):
    return rng.choice(G.TYPES + G.HOSTILE_TYPES)


def stmt_name(rng, quoted=0.06):
    if rng.random() < quoted:
        return "`" + rng.choice(["a b", "let", "my-name", "true", "x$y", "*"]) + "`"
    return rng.choice(["x", "y", "my_var", "f1", "é", "rel", "long_variable_name_number_one"])


def gexpr(rng, d):
    return G.gen_expr(rng, d, {"clean": CLEAN[0]})


def syn_expr(rng, d, rich=True):
    return G.src(G.gen_expr(rng, d, {"rich": rich, "clean": CLEAN[0]}))


def syn_call(rng, d):
    """function-call or pipeline value of a let / main"""
    k = rng.random()
    if k < 0.3:
        return syn_expr(rng, d)
    if k < 0.6:
        return "%s %s" % (rng.choice(["from", "f", "std.select", "m.g"]), " ".join(G.wrap(gexpr(rng, d - 1)) for _ in range(rng.randint(1, 3))))
    if k < 0.8:
        return "(" + " | ".join("%s %s" % (rng.choice(["from", "filter", "select", "take", "f"]), G.wrap(gexpr(rng, d - 1))) for _ in range(rng.randint(2, 4))) + ")"
    return G.src(G.gen_func(rng, d, lambda dd: G.gen_expr(rng, dd, {"clean": CLEAN[0]}), CLEAN[0]))


def statement(rng, d, depth=0):
    k = rng.random()
    pre = ""
    if rng.random() < 0.12 and (not CLEAN[0] or k < 0.68):
        pre += "#! %s\n" % rng.choice(["doc comment", "It's documented", "two", ""])
    if rng.random() < 0.12:
        pre += "@%s\n" % rng.choice(["{binding_strength = 11}", "deprecated", "{a = 1, b = \"x\"}", "{coalesce = \"0\"}", "(f x)", "(a + b)", "(func x -> x)", "(al = a)"])
    if k < 0.40:
        nm = stmt_name(rng)
        j = rng.random()
        if j < 0.08:
            return pre + "let %s" % nm
        if j < 0.16:
            return pre + "let %s <%s>" % (nm, ty(rng))
        if j < 0.28:
            return pre + "let %s <%s> = %s" % (nm, ty(rng), syn_expr(rng, d))
        return pre + "let %s = %s" % (nm, syn_call(rng, d))
    if k < 0.50:
        return pre + "type %s = %s" % (stmt_name(rng, 0.03), ty(rng))
    if k < 0.58:
        return pre + "import %s%s" % (rng.choice(["", "", "al = ", "`my al` = ", "`let` = ", "`import` = ", "`a$b` = ", "`*` = "]), rng.choice(["a.b", "std.math", "x", "`a b`.c", "m.`type`"]))
    if k < 0.68 and depth < 2:
        inner = [statement(rng, max(d - 1, 1), depth + 1) for _ in range(rng.randint(0, 3))]
        inner = [s for s in inner if not s.lstrip("#!@ \n").startswith("from")]
        body = "\n".join("  " + ln for s in inner for ln in s.split("\n"))
        return pre + "module %s {\n%s\n}" % (stmt_name(rng, 0.03), body)
    # main pipeline / into
    n = rng.randint(1, 4)
    steps = []
    for i in range(n):
        f = "from" if i == 0 else rng.choice(["filter", "select", "derive", "take", "sort", "join", "group", "f"])
        args = " ".join(G.wrap(gexpr(rng, d - 1), alias_ok=False) for _ in range(rng.randint(1, 2)))
        if rng.random() < 0.2:
            args = "%s:%s %s" % (rng.choice(["side", "rolling", "n1"]), G.wrap(gexpr(rng, 1)), args)
        steps.append(f + " " + args)
    sep = rng.choice(["\n", " | ", "\n"]) if depth == 0 else " | "
    s = sep.join(steps)
    if rng.random() < 0.25:
        s += rng.choice(["\n", " | "]) + "into " + stmt_name(rng, 0.05)
    if depth > 0:
        s = "let %s = (%s)" % (stmt_name(rng, 0.0), s.replace("\n", " "))
    return pre + s


def decorate(rng, text):
    """sprinkle comments, blank lines and line wraps that must not change the AST"""
    lines = text.split("\n")
    out = []
    for ln in lines:
        r = rng.random()
        if r < 0.08:
            out.append("# a comment line")
        if r > 0.92:
            out.append("")
        if 0.3 < r < 0.42 and ln and not ln.lstrip().startswith(("#", "@")) and '"' not in ln and "'" not in ln:
            ln = ln + "  # trailing %s" % rng.choice(["comment", "it's", "| pipe", "{brace"])
        if 0.5 < r < 0.58 and " + " in ln and '"' not in ln and "'" not in ln and "#" not in ln:
            i = ln.index(" + ")
            ln = ln[:i] + "\n  \\ " + ln[i + 1:]
        out.append(ln)
    return "\n".join(out)


def syntactic(rng):
    d = rng.choice([1, 2, 2, 3])
    n = rng.randint(1, 4)
    head = ""
    h = rng.random()
    if h < 0.1:
        head = "prql target:sql.%s\n" % rng.choice(["sqlite", "generic", "any", "ms_sql"])
    elif h < 0.15:
        head = 'prql version:"%s"\n' % rng.choice(["0.13", "^0.9", ">=0.10, <1"])
    body = "\n".join(statement(rng, d) for _ in range(n))
    return head + decorate(rng, body) + "\n"


# ------------------------------------------------------------------------------------------- long lines

def long_lines(rng):
    """sources whose natural single-line form exceeds 50 columns at several nesting levels"""
    k = rng.random()
    long = ["a_really_long_column_name_for_wrapping_purposes", "another_quite_long_name_to_force_a_break", "some_really_long_and_really_long_name", "short", "x"]
    if k < 0.2:
        items = ["%s = %s" % (rng.choice(NAMES), num_expr(rng, rng.randint(0, 3))) for _ in range(rng.randint(2, 8))]
        return "from t\nderive {%s}\n" % ", ".join(items)
    if k < 0.35:
        return "from t\nfilter %s\n" % " && ".join("(%s)" % bool_expr(rng, 2) for _ in range(rng.randint(3, 6)))
    if k < 0.5:
        inner = " | ".join("%s %s" % (rng.choice(["filter", "derive", "select"]), rng.choice(long)) for _ in range(rng.randint(2, 6)))
        return "from t\ngroup {%s} (%s)\n" % (rng.choice(long), inner)
    if k < 0.62:
        return "let f = func %s -> %s\nfrom t\nderive {v = f %s}\n" % (" ".join(long[:rng.randint(1, 4)]), " + ".join(long[:rng.randint(1, 4)]), " ".join("1" for _ in range(4)))
    if k < 0.74:
        # deep nesting: indentation eats the width
        e = rng.choice(long)
        for i in range(rng.randint(3, 9)):
            e = rng.choice(["{x%d = %s, y%d = %s}", "[%s, %s]"]) .replace("%d", str(i)) % (e, rng.choice(long)) if rng.random() < 0.6 else "(f %s | g %s)" % (e, rng.choice(long))
        return "from t\nselect %s\n" % e
    if k < 0.84:
        return "from t\nderive {c = case [%s]}\n" % ", ".join("%s => %s" % (bool_expr(rng, 1), num_expr(rng, 1)) for _ in range(rng.randint(2, 6)))
    if k < 0.92:
        return "from t\nfilter s == %s\n" % G.str_lit("".join(rng.choice(["word ", "it's ", '"q" ', "x"]) for _ in range(rng.randint(8, 20))))
    return "from t\njoin side:left (from u | filter %s | select {%s}) (%s)\n" % (bool_expr(rng, 2), ", ".join(long[:3]), " && ".join("t.%s == u.%s" % (c, c) for c in long[:rng.randint(1, 3)]))

"""The hand-made side of C11's inventory obligation: every (file, kind, item) row that gen_sites_state.py may
report, with what the model says about it.  `python3 -m vplib.props.c11_sites` rewrites coq/Model/PermSites.v
from this table (the .v file is the one the kernel checks; c11.py verifies the two are in sync).

disposition:
  once / lock / env / clock : modelled in Model/Globals.v (cell or step named in `model`); rows of kind `under-lock`
                    list what a function does between taking a static lock and returning that could panic (poison)
  inv:<pattern>   : iteration result is permutation-invariant; `model` names the generic lemma of Proofs/PermProofs.v
  refuted:<pattern>: order reaches output; `finding` names the known finding
  nothash         : the scanner's name-based approximation hit something that is not a hash container here
  nooutput        : debug / reporting code that cannot reach SQL, RQ or error text of compile
"""
import os

P = "prqlc/prqlc/src/"
PP = "prqlc/prqlc-parser/src/"

# (file, kind, item, disposition, model/lemma, finding or "", note)
SITES = [
    (PP + "parser/stmt.rs", "hash-iter", "query_def:args.into_iter +sorted", "nothash", "", "", "`args` on the right-hand side is the Vec of parsed (name, expr) pairs being collected into the map (the flag comes from the .sorted() further down)"),
    (PP + "parser/stmt.rs", "hash-iter", "query_def:args.keys +sorted", "inv:sort", "c11_perm_invariant_text_of_sorted", "", "unknown `prql` header arguments: .keys().sorted() before joining (was F10b)"),
    (P + "codegen/ast.rs", "hash-iter", "write:named_args.for", "nothash", "", "", "`named_args` is the local Vec that was sorted by name just above"),
    (P + "codegen/ast.rs", "hash-iter", "write:named_args.iter +sorted", "inv:sort_by_key", "c11_perm_invariant_text_of_sorted_by_key", "", "named arguments collected into a Vec and sorted by name before printing (was F10c)"),
    (P + "codegen/ast.rs", "hash-iter", "write:other.for", "inv:at_most_one", "perm_invariant_at_most_one", "", "QueryDef.other holds at most the `target` entry (parser/stmt.rs)"),
    (P + "codegen/ast.rs", "once", "KEYWORDS", "once", "CFmtKeywords", "", ""),
    (P + "codegen/ast.rs", "once", "VALID_PRQL_IDENT", "once", "CRegexPrqlIdent", "", ""),
    (P + "debug/log.rs", "clock", "log_start:SystemTime", "nooutput", "", "", "timestamp stored in the debug log only"),
    (P + "debug/log.rs", "lock", "CURRENT_LOG", "lock", "g_log / g_poisoned", "", "log slot of Model/Globals.v; log_start no longer asserts (F10h fixed by 9396557); LogSuppressLock::drop saturates (F10j fixed by 2f50a3c): no step can poison the lock (c11_concurrent_log_api_independent)"),
    (P + "debug/log.rs", "under-lock", "drop:CURRENT_LOG.write:saturating_sub", "lock", "SSuppressDec", "", "LogSuppressLock::drop: suppress_count = suppress_count.saturating_sub(1) -- cannot panic under the lock (was `-= 1`: F10j, fixed by 2f50a3c); Globals.gstep mirrors the saturation (Nat.pred)"),
    (P + "debug/log.rs", "under-lock", "log_entry:CURRENT_LOG.write:call:entry", "lock", "SLogEntry", "", "push under the write lock; the `entry` closure parameter is CALLED while the lock is held: every call site is a row `<fn>:log_entry(closure)..` below"),
    (P + "debug/log.rs", "under-lock", "log_stage:log_entry(closure) x1", "lock", "SLogEntry", "", "closure = DebugEntryKind::NewStage(stage): a constructor"),
    (P + "debug/messages.rs", "under-lock", "log:log_entry(closure):format! x1", "lock", "SLogEntry", "", "MessageLogger::log: format!(record.args()) runs the Display / Debug impls of the caller's arguments UNDER the write lock -- ASSUMED not to panic and not to log (a log::debug! inside such an impl would re-enter CURRENT_LOG.write() on the same thread); every other field is a copy"),
    (P + "parser.rs", "under-lock", "parse:log_entry(closure) x2", "lock", "SLogEntry", "", "closure = clone of an IR into a DebugEntryKind constructor"),
    (P + "parser.rs", "under-lock", "parse_source:log_entry(closure) x1", "lock", "SLogEntry", "", "clone + constructor"),
    (P + "semantic/mod.rs", "under-lock", "resolve:log_entry(closure) x2", "lock", "SLogEntry", "", "clone + constructor"),
    (P + "semantic/mod.rs", "under-lock", "resolve_and_lower:log_entry(closure) x1", "lock", "SLogEntry", "", "clone + constructor"),
    (P + "sql/gen_query.rs", "under-lock", "translate_query:log_entry(closure) x1", "lock", "SLogEntry", "", "clone + Box::new + constructor"),
    (P + "sql/mod.rs", "under-lock", "compile:log_entry(closure) x1", "lock", "SLogEntry", "", "clone + constructor"),
    (P + "sql/pq/gen_query.rs", "under-lock", "compile_query:log_entry(closure) x2", "lock", "SLogEntry", "", "clone + constructor"),
    (P + "sql/pq/preprocess.rs", "under-lock", "preprocess:log_entry(closure) x1", "lock", "SLogEntry", "", "clone + constructor"),
    (P + "debug/log.rs", "under-lock", "log_finish:CURRENT_LOG.write", "lock", "SLogFinish", "", "lock.take()"),
    (P + "debug/log.rs", "under-lock", "log_is_enabled:CURRENT_LOG.read", "lock", "SLogEnabled", "", "read lock, suppress_count == 0"),
    (P + "debug/log.rs", "under-lock", "log_start:CURRENT_LOG.write", "lock", "SLogStart", "", "write().unwrap_or_else(into_inner): works on a poisoned lock; no assert under the lock any more (was F10h)"),
    (P + "debug/log.rs", "under-lock", "new:CURRENT_LOG.write:+=", "lock", "SSuppressInc", "", "LogSuppressLock::new: suppress_count += 1 (overflow needs usize::MAX live guards: not modelled)"),
    (P + "debug/render_html.rs", "hash-iter", "write_decl:names.iter +sorted", "nooutput", "", "", "HTML rendering of the debug log"),
    (P + "debug/render_html.rs", "hash-iter", "write_repr_decl:names.iter +sorted", "nooutput", "", "", "HTML rendering of the debug log"),
    (P + "debug/render_html.rs", "hash-iter", "write_repr_prql:source_ids.iter", "nooutput", "", "", "HTML rendering of the debug log"),
    (P + "debug/render_html.rs", "hash-iter", "write_repr_prql:sources.for", "nooutput", "", "", "HTML rendering of the debug log"),
    (P + "ir/pl/fold.rs", "hash-iter", "fold_func_call:named_args.into_iter", "refuted:first_error", "first_error_order_dependent", "", "LATENT: values re-collected into a map (perm_invariant_map_values), but the first failing argument in iteration order would be reported; not reachable with two failing arguments in any sampled program (named arguments are consumed by apply_args_to_closure before a PlFold visits the call)"),
    (P + "ir/pl/lineage.rs", "hash-iter", "sorted_set:value.iter +sorted", "inv:sort", "perm_invariant_sort", "", ".sorted() before serialising"),
    (P + "lib.rs", "env", "compiler_version:var(PRQL_VERSION_OVERRIDE)", "env", "SReadEnv", "", "PRQL_VERSION_OVERRIDE is read on every call; constant during a run (assumption)"),
    (P + "lib.rs", "hash-iter", "insert:source_ids.keys", "inv:max", "perm_invariant_max", "", ".keys().max()"),
    (P + "lib.rs", "hash-iter", "prql_to_tokens:source_ids.keys", "inv:min", "perm_invariant_min", "", ".keys().copied().min(): the smallest source id names the source the lexer errors are composed against (d650e1d)"),
    (P + "lib.rs", "once", "COMPILER_VERSION", "once", "CVersion", "", ""),
    (P + "parser.rs", "hash-iter", "linearize_tree:sources.for +sorted", "inv:sort_by_key", "perm_invariant_sort_by_key", "", "sorted by module path afterwards (module paths of distinct files assumed distinct)"),
    (P + "parser.rs", "hash-iter", "linearize_tree:sources.keys +sorted", "inv:sort", "c11_perm_invariant_root_choice", "", ".keys().next() only when len == 1; root = .keys().sorted().find(starts_with_uppercase) (was F10g); the error listing is .sorted()"),
    (P + "parser.rs", "hash-iter", "parse:source_ids.iter", "inv:lookup", "perm_invariant_lookup", "", "reverse map path -> id re-collected; paths are distinct"),
    (P + "semantic/ast_expand.rs", "hash-iter", "expand_expr:named_args.into_iter +sorted", "inv:sort_by_key", "c11_perm_invariant_named_args_first_error", "", ".sorted_by(name) before try_collect: the first failing argument in NAME order is reported (was F10e)"),
    (P + "semantic/ast_expand.rs", "hash-iter", "expand_func_params:value.into_iter", "nothash", "", "", "`value` is a Vec<FuncParam> here"),
    (P + "semantic/ast_expand.rs", "hash-iter", "expand_stmts:value.into_iter", "nothash", "", "", "`value` is a Vec<Stmt> here"),
    (P + "semantic/ast_expand.rs", "hash-iter", "restrict_expr_kind:named_args.into_iter", "inv:map_values", "perm_invariant_map_values", "", "infallible map re-collected into a map"),
    (P + "semantic/ast_expand.rs", "hash-iter", "restrict_func_params:value.into_iter", "nothash", "", "", "`value` is a Vec<FuncParam> here"),
    (P + "semantic/ast_expand.rs", "hash-iter", "restrict_module:names.into_iter +sorted", "inv:sort_by_key", "perm_invariant_sort_by_key", "", ".sorted_by_key(name)"),
    (P + "semantic/lowering.rs", "hash-iter", "extract_from_module:names.for", "inv:lookup", "perm_invariant_lookup", "", "the Vec built here is turned back into a HashMap by toposort_tables"),
    (P + "semantic/lowering.rs", "hash-iter", "lower_to_ir:names.keys", "inv:any", "perm_invariant_any", "", ".filter(..).is_empty()"),
    (P + "semantic/lowering.rs", "hash-iter", "lower_to_ir:tables.for", "nothash", "", "", "`tables` is the Vec returned by toposort_tables"),
    (P + "semantic/lowering.rs", "hash-iter", "redirect_mappings:node_mapping.values_mut", "inv:map_values", "perm_invariant_map_values", "", "each value updated on its own"),
    (P + "semantic/lowering.rs", "hash-iter", "toposort_tables:tables.for +sorted", "inv:sort_by_key", "perm_invariant_sort_by_key", "", "dependencies.sort_by(ident) before the toposort ('to make sure lowering is stable')"),
    (P + "semantic/module.rs", "hash-iter", "as_decls:names.for", "inv:sort", "c11_perm_invariant_available_columns", "", "the only consumer (resolver/names.rs collect_columns_in_module) sorts by (Decl::order, ident): a total order on distinct idents (was F10i)"),
    (P + "semantic/module.rs", "hash-iter", "from_exprs:exprs.into_iter", "inv:map_values", "perm_invariant_map_values", "", "re-collected into a map"),
    (P + "semantic/module.rs", "hash-iter", "into_exprs:names.into_iter", "inv:map_values", "perm_invariant_map_values", "", "re-collected into a map"),
    (P + "semantic/reporting.rs", "hash-iter", "label_module:names.iter", "nooutput", "", "", "lineage / debug reporting"),
    (P + "semantic/resolver/expr.rs", "hash-iter", "construct_tuple_from_module:names.iter +sorted", "inv:sort", "c11_perm_invariant_this_wildcard", "", ".sorted_by((order, name)) since 987d30b: a total order on the (distinct) names of one module; before, .sorted_by_key(order) kept the iteration order of an input sub-module and a direct column that share an order (was F10k)"),
    (P + "semantic/resolver/transforms.rs", "hash-iter", "apply_assign:e_e.difference +sorted", "inv:sort", "perm_invariant_sort", "", "columns left when two wildcards of one input cancel (`select !{!{a, b}}`): .difference(..).sorted() before they are pushed"),
    (P + "semantic/resolver/functions.rs", "hash-iter", "apply_args_to_closure:named_args.into_iter", "inv:min_by_key", "perm_invariant_after_sort_by_key", "", ".into_iter().min_by(name): the entry (name, argument) with the alphabetically first name -- names are the keys of the map, hence distinct -- is reported, now with the argument's span (819c36b; was .into_keys().min(), was F10): the head of the entries sorted by key, c11_perm_invariant_apply_args_to_closure for the name alone"),
    (P + "semantic/resolver/functions.rs", "hash-iter", "resolve_function_args:other.for", "nothash", "", "", "`other` is a Vec here"),
    (P + "semantic/resolver/names.rs", "hash-iter", "ambiguous_error:idents.for +sorted", "inv:sort", "perm_invariant_sort", "", "chunks.sort() before joining"),
    (P + "semantic/resolver/names.rs", "hash-iter", "ambiguous_error:idents.iter +sorted", "inv:all", "perm_invariant_all", "", ".all(..)"),
    (P + "sql/gen_expr.rs", "hash-iter", "translate_select_item:column_names.values", "inv:any", "perm_invariant_any", "", ".values().any(|n| *n == name): is the generated alias in use (755de8e)"),
    (P + "sql/gen_projection.rs", "hash-iter", "as_col_names:cids.iter +sorted", "inv:sort_by_key", "perm_invariant_sort_by_key", "", ".sorted_by_key(cid)"),
    (P + "sql/gen_projection.rs", "hash-iter", "translate_exclude:excluded.into_iter", "nothash", "", "", "`excluded` was shadowed by the sorted Vec of as_col_names"),
    (P + "sql/gen_projection.rs", "hash-iter", "try_into_exprs:cids.for", "nothash", "", "", "`cids` is a Vec<CId> here"),
    (P + "sql/keywords.rs", "once", "EMPTY", "once", "CKwEmpty", "", ""),
    (P + "sql/keywords.rs", "once", "REDSHIFT", "once", "CKwRedshift", "", ""),
    (P + "sql/keywords.rs", "once", "SQL_KEYWORDS", "once", "CKwSql", "", ""),
    (P + "sql/operators.rs", "once", "STD", "once", "CStd", "", ""),
    (P + "sql/pq/gen_query.rs", "hash-iter", "compile_relation_instance:cid_redirects.iter", "inv:find_value", "perm_invariant_find_value", "", "find_map by value, then the value is read back"),
    (P + "sql/pq/postprocess.rs", "hash-iter", "alias_last_sorting:cid_redirects.iter", "inv:find_unique", "perm_invariant_find_unique", "", "first redirect whose target is the column; redirect targets assumed distinct"),
    (P + "sql/pq/postprocess.rs", "hash-iter", "alias_last_sorting:column_decls.iter +sorted", "inv:sort_by_key", "c11_perm_invariant_alias_last_sorting", "", "entries sorted by descending column id before the column -> alias map is collected: the alias with the smallest id wins (was F10d)"),
    (P + "sql/pq/postprocess.rs", "hash-iter", "alias_last_sorting:relation_instances.iter +sorted", "inv:lookup", "perm_invariant_lookup", "", "re-collected into a map keyed by RIId (the flag comes from the sort of column_decls further down)"),
    (P + "sql/pq/postprocess.rs", "hash-iter", "assign_names:relation_instances.values +sorted", "inv:any", "perm_invariant_any", "", "lower-cased aliases collected into a Vec that only extends the HashSet reserved_table_names, which is only asked .contains() (99a89d3; the flag comes from the sort of table_decls further down)"),
    (P + "sql/pq/postprocess.rs", "hash-iter", "assign_names:table_decls.values +sorted", "inv:any", "perm_invariant_any", "", "lower-cased user table names, same use: membership in reserved_table_names (99a89d3)"),
    (P + "sql/pq/postprocess.rs", "hash-iter", "assign_names:table_decls.values_mut +sorted", "inv:sort_by_key", "perm_invariant_sort_by_key", "", ".sorted_by_key(id)"),
    (P + "sql/pq/postprocess.rs", "hash-iter", "fold_sql_query:relation_instances.iter_mut", "inv:min_by_key", "c11_perm_invariant_cte_instance", "", ".filter(source == cte.tid).min_by_key(riid): the instance with the smallest id (was F10f)"),
    (P + "sql/pq/preprocess.rs", "hash-iter", "vecs_contain_same_elements:a.iter", "nothash", "", "", "slice iteration collected into a set; sets compared with =="),
    (P + "sql/pq/preprocess.rs", "hash-iter", "vecs_contain_same_elements:b.iter", "nothash", "", "", "slice iteration collected into a set; sets compared with =="),
    (P + "utils/mod.rs", "once", "VALID_IDENT", "once", "CRegexIdent", "", ""),
]


def codes(s):
    return "[" + ";".join(str(ord(c)) for c in s) + "]"


def coq_text():
    v = "(* The modelled / allow-listed inventory of process-global state and hash-iteration sites (C11).\n"
    v += "   Written by `python3 -m vplib.props.c11_sites` from vplib/props/c11_sites.py -- hand-maintained table,\n"
    v += "   NOT regenerated from /repo: Gen/GenState.v (which is) must be covered by it. *)\n"
    v += "From Coq Require Import List NArith Bool.\nFrom PV Require Import Lib.ListX.\nImport ListNotations.\nLocal Open Scope N_scope.\n\n"
    v += "Inductive disposition := DModelledState | DInvariant | DRefuted | DNotHash | DNoOutput.\n\n"
    v += "(* (file, kind, item, disposition) *)\nDefinition sites : list (list N * list N * list N * disposition) :=\n  [ "
    rows = []
    for f, k, i, d, model, finding, note in SITES:
        dd = ("DModelledState" if d in ("once", "lock", "env", "clock") else "DInvariant" if d.startswith("inv:")
              else "DRefuted" if d.startswith("refuted:") else "DNotHash" if d == "nothash" else "DNoOutput")
        rows.append("(%s, %s, %s, %s) (* %s | %s | %s -- %s %s %s *)" % (codes(f), codes(k), codes(i), dd, f, k, i, d, model, finding))
    v += ";\n    ".join(rows) + " ].\n\n"
    v += ("Definition row_eqb (a : list N * list N * list N) (b : list N * list N * list N * disposition) : bool :=\n"
          "  match a, b with (f, k, i), (f', k', i', _) => leqb f f' && leqb k k' && leqb i i' end.\n\n"
          "(* every row of the regenerated inventory is known *)\n"
          "Definition inventory_covered (rows : list (list N * list N * list N)) : bool :=\n"
          "  forallb (fun r => existsb (row_eqb r) sites) rows.\n\n"
          "(* and no modelled row has silently disappeared (a lemma about a vanished site would be vacuous) *)\n"
          "Definition inventory_current (rows : list (list N * list N * list N)) : bool :=\n"
          "  forallb (fun s => existsb (fun r => row_eqb r s) rows) sites.\n\n"
          "Definition count_disp (d : disposition) : nat :=\n"
          "  length (filter (fun s => match snd s, d with DModelledState, DModelledState | DInvariant, DInvariant | DRefuted, DRefuted | DNotHash, DNotHash | DNoOutput, DNoOutput => true | _, _ => false end) sites).\n")
    return v


def path():
    return os.path.join(os.path.dirname(os.path.dirname(os.path.dirname(os.path.abspath(__file__)))), "coq", "Model", "PermSites.v")


if __name__ == "__main__":
    open(path(), "w").write(coq_text())
    print("wrote", path(), len(SITES), "rows")

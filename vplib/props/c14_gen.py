"""Generators for C14: expression trees (shared by the model correspondence and the direct oracle) and
grammar-based whole programs.  Every random choice comes from the `rng` passed in (ck.rng).

Expression trees are python tuples:
  ("id", [part, ...])              identifier path
  ("lit", kind, text)              literal; `text` is PRQL source of the literal
  ("bin", op, l, r)   ("un", op, x)   ("range", l|None, r|None)
  ("call", f, [(name|None, arg), ...])      named args carry a name
  ("pipe", [e, ...])  ("tuple", [e...])  ("array", [e...])  ("case", [(c, v), ...])
  ("func", [(pname, ty|None)], [(pname, default)], ret|None, body)
  ("alias", name, e)               only generated where the grammar allows an alias
  ("interp", "s"|"f", [str | ("id", ...)])   ("param", "1")   ("internal", "a.b")
`src(e)` prints a tree with parentheses around every compound operand, so the parser returns exactly that
tree whatever the precedence tables are.
"""

BINOPS = ["**", "*", "//", "/", "%", "+", "-", "==", "!=", ">", "<", ">=", "<=", "~=", "??", "&&", "||"]
BIN_NAMES = {"**": "Pow", "*": "Mul", "//": "DivInt", "/": "DivFloat", "%": "Mod", "+": "Add", "-": "Sub", "==": "Eq",
             "!=": "Ne", ">": "Gt", "<": "Lt", ">=": "Gte", "<=": "Lte", "~=": "RegexSearch", "??": "Coalesce",
             "&&": "And", "||": "Or"}
UNOPS = ["-", "+", "!", "=="]
UN_NAMES = {"-": "Neg", "+": "Add", "!": "Not", "==": "EqSelf"}

LEX_KEYWORDS = ["let", "into", "case", "prql", "type", "module", "internal", "func", "import", "enum"]
LIT_WORDS = ["true", "false", "null"]

PLAIN_IDS = ["a", "b", "c", "x1", "_y", "foo_bar", "t", "col", "é", "日本", "Ωmega", "s", "f", "r", "in", "from", "select", "trueish", "lets", "nulls"]
QUOTED_IDS = ["a b", "a-b", "1a", "a.b", "", "*", "a$b", "$a", "a\"b", "a'b", "é x", "Mixed Case", "{x}", "a|b", "a,b", "#h", "a\\b"]
KEYWORD_IDS = LEX_KEYWORDS + LIT_WORDS


def q_ident(p):
    """source text of one identifier part: bare when the lexer would give Ident(p) back, else in backticks"""
    import re
    if p in KEYWORD_IDS:
        return "`" + p + "`"
    if p and (p[0].isalpha() or p[0] == "_") and all(c.isalnum() or c == "_" for c in p) and re.match(r"^[\w]+$", p):
        return p
    return "`" + p + "`"


def is_plain_lexable(p):
    """True iff printing `p` bare lexes back to exactly Ident(p) (wherever it stands)"""
    if p in KEYWORD_IDS or not p:
        return False
    if not (p[0].isalpha() or p[0] == "_"):
        return False
    return all(c.isalnum() or c == "_" for c in p)


# ------------------------------------------------------------------------------------------- literals

STRINGS = ["", "a", "hello world", "it's", 'say "hi"', "both ' and \"", "\"starts", "ends\"", "'s\"", "\"e'", "'", "\"", "''", "\"\"", "'\"", "\"'",
           "a\"\"b'c", "a'''b\"c", "tab\there", "nl\nhere", "back\\slash", "\\n", "é", "😀", "\u0007", "\u007f", "{x}", "a\rb", "'''", "\"\"\"'", "x\"'y", "'x\"", "\"x'y\"z'",
           "\u0000", " ", " ", "퟿", "￿", "#not a comment", "`bt`", "a\\", "\\\"", "\\'"]


def str_lit(s, rng=None):
    """a PRQL string literal whose value is s (escaped form; delimiter chosen so that it lexes)"""
    out = ""
    for ch in s:
        if ch == "\\":
            out += "\\\\"
        elif ch == '"':
            out += '\\"'
        elif ch == "\n":
            out += "\\n"
        elif ch == "\r":
            out += "\\r"
        elif ch == "\t":
            out += "\\t"
        elif ord(ch) < 32 or ord(ch) == 127:
            out += "\\u{%x}" % ord(ch)
        else:
            out += ch
    return '"' + out + '"'


def gen_string_value(rng):
    k = rng.random()
    if k < 0.5:
        return rng.choice(STRINGS)
    n = rng.randint(0, 6)
    alpha = ["'", '"', "\\", "a", " ", "\n", "é", "{", "'", '"']
    return "".join(rng.choice(alpha) for _ in range(n))


CLEAN_KINDS = ["int", "int", "float", "float", "string", "string", "raw", "date", "time", "timestamp", "unit", "bool", "null", "based", "under_int"]


def quote_edge(s):
    if '"' not in s or "'" not in s:
        return False
    q = "'" if (s.startswith('"') or s.endswith('"')) else '"'
    return s.startswith(q) or s.endswith(q)


def gen_literal(rng, kinds=None, clean=False):
    if clean and kinds is None:
        kinds = CLEAN_KINDS
    k = rng.choice(kinds or ["int", "int", "float", "float0", "floatbig", "string", "string", "raw", "date", "time", "timestamp",
                             "unit", "bool", "null", "based", "under", "exp"])
    if k == "int":
        return ("lit", k, str(rng.choice([0, 1, 2, 7, 10, 42, 100, 65535, 2147483648, 9223372036854775807])))
    if k == "float":
        return ("lit", k, rng.choice(["0.5", "1.5", "3.14159", "0.1", "10.25", "0.001", "123456.789", "2.5e-3", "1.5e-7", "0.30000000000000004",
                                      "1.7976931348623157e308", "5e-324", "4.9e-320", "1.25e-10", "12345678901234567890.5"]))
    if k == "float0":
        return ("lit", k, rng.choice(["1.0", "0.0", "2.00", "10.0", "1e3", "2.5e1", "100.0", "1_000.0", "9007199254740993.0"]))
    if k == "floatbig":
        return ("lit", k, rng.choice(["1e400", "9223372036854775808", "1e21", "12345678901234567890", "1e19", "9223372036854775808.0", "1.5e300", "1e308", "2e308"]))
    if k == "string":
        s = gen_string_value(rng)
        return ("lit", k, str_lit(s))
    if k == "under_int":
        return ("lit", k, rng.choice(["1_000", "10_000_000", "1_0"]))
    if k == "raw":
        return ("lit", k, rng.choice(['r"a\\b"', "r'c d'", 'r""', 'r"\\n{x}"', "r'#x'"]))
    if k == "date":
        return ("lit", k, rng.choice(["@2020-01-01", "@1999-12-31", "@0001-01-01"]))
    if k == "time":
        return ("lit", k, rng.choice(["@10:00", "@23:59:59", "@10:00:00.123456", "@08", "@10:00:00.5", "@10:00Z", "@10:00:00+05:30", "@10:00-0800"]))
    if k == "timestamp":
        return ("lit", k, rng.choice(["@2020-01-01T10:00:00", "@2020-01-01T10:00Z", "@2020-01-01T10:00:00+05:30", "@2020-01-01T10:00:00-0800",
                                      "@2020-01-01T10:00:00.123", "@2020-01-01T10"]))
    if k == "unit":
        return ("lit", k, "%d%s" % (rng.choice([1, 2, 10, 365]), rng.choice(["microseconds", "milliseconds", "seconds", "minutes", "hours", "days", "weeks", "months", "years"])))
    if k == "bool":
        return ("lit", k, rng.choice(["true", "false"]))
    if k == "null":
        return ("lit", k, "null")
    if k == "based":
        return ("lit", k, rng.choice(["0x1F", "0b101", "0o17", "0x_ff", "0b_1"]))
    if k == "under":
        return ("lit", k, rng.choice(["1_000", "1_0.5_0", "10_000_000"]))
    if k == "exp":
        return ("lit", k, rng.choice(["1e3", "1.5E+2", "2e-2", "1e0", "1.0e1", "3e10"]))
    raise AssertionError(k)


def gen_ident(rng, quoted=0.15, keyword=0.05, path=0.25, clean=False):
    def part():
        k = rng.random()
        if k < keyword:
            return rng.choice(KEYWORD_IDS)
        if k < keyword + quoted:
            return rng.choice(QUOTED_IDS)
        return rng.choice(PLAIN_IDS)
    parts = [part()]
    while rng.random() < path and len(parts) < 3:
        parts.append(part())
    if rng.random() < 0.03:
        parts[-1] = "*"
    return ("id", parts)


# ------------------------------------------------------------------------------------------- expressions

def gen_expr(rng, depth, opts=None):
    """random expression tree.  opts: dict(lits=bool, idq=float, idk=float, rich=bool)"""
    o = {"lits": True, "idq": 0.1, "idk": 0.03, "rich": True, "clean": False}
    o.update(opts or {})
    clean = o["clean"]

    def atom():
        k = rng.random()
        if o["lits"] and k < 0.35:
            return gen_literal(rng, clean=clean)
        if o["rich"] and k < 0.38:
            return ("param", rng.choice(["1", "a", "a.b", "_x"]))
        if o["rich"] and k < 0.42:
            return gen_interp(rng, clean)
        return gen_ident(rng, o["idq"], o["idk"], clean=clean)

    def go(d, nofunc=False):
        k = rng.random()
        if nofunc and k >= 0.97:      # only the top of a tree meant for the expression model (lambdas are outside it)
            k = rng.random() * 0.97
        if d <= 0 or k < 0.18:
            return atom()
        def operand():
            # an alias on an operand / bound / callee / named value needs parentheses (repaired by 95d15ad, 2a611aa)
            x = go(d - 1)
            if o["rich"] and rng.random() < 0.06 and x[0] != "func":
                x = ("alias", rng.choice(PLAIN_IDS[:8] + ["a b", "let", "*"]), x)
            return x
        if k < 0.52:
            return ("bin", rng.choice(BINOPS), operand(), operand())
        if k < 0.62:
            return ("un", rng.choice(UNOPS), operand())
        if k < 0.74:
            n = rng.randint(1, 3)
            args = []
            for _ in range(n):
                a = go(d - 1)
                if o["rich"] and rng.random() < 0.1:
                    a = ("alias", rng.choice(PLAIN_IDS[:8]), a)
                args.append((None, a))
            if rng.random() < 0.3:
                names = rng.sample(["side", "rolling", "rows", "n1"], rng.randint(1, 2 if o["rich"] else 1))
                args = [(nm, operand()) for nm in names] + args
            f = gen_ident(rng, 0.02, 0.0, 0.15, clean=clean) if rng.random() < 0.9 else operand()
            return ("call", f, args)
        if k < 0.80:
            c = rng.random()
            lo = go(d - 1) if c < 0.75 else None
            if o["rich"] and lo is not None and rng.random() < 0.08:
                # a parameter (or a sign applied to one) in front of `..` (repaired by commit 1b7b9df)
                lo = ("param", rng.choice(["1", "a", "_x"])) if rng.random() < 0.5 else ("un", rng.choice(UNOPS), ("param", rng.choice(["1", "a"])))
            hi = go(d - 1) if 0.2 < c else None
            if o["rich"] and rng.random() < 0.05:
                if lo is not None and lo[0] not in ("func",):
                    lo = ("alias", "lo", lo)
                elif hi is not None and hi[0] not in ("func",):
                    hi = ("alias", "hi", hi)
            return ("range", lo, hi)
        if not o["rich"]:
            return atom()
        if k < 0.85:
            return ("pipe", [go(d - 1) for _ in range(rng.randint(2, 3))])
        if k < 0.90:
            items = []
            for _ in range(rng.randint(0, 3)):
                a = go(d - 1)
                if rng.random() < 0.4:
                    a = ("alias", rng.choice(PLAIN_IDS[:8] + QUOTED_IDS[:3] + ["a$b", "import", "true", "let", "*"]), a)
                items.append(a)
            return ("tuple", items)
        if k < 0.93:
            return ("array", [go(d - 1) for _ in range(rng.randint(0, 3))])
        if k < 0.97:
            # lambdas as case branches and lambda bodies are generated in every mode (repaired by commit 95d15ad)
            return ("case", [(go(d - 1), go(d - 1)) for _ in range(rng.randint(1, 3))])
        return gen_func(rng, d - 1, lambda dd: go(dd), clean)

    return go(depth, bool(o.get("nofunc_top")))


def gen_interp(rng, clean=False):
    parts = []
    for _ in range(rng.randint(0, 4)):
        if rng.random() < 0.5:
            parts.append(rng.choice(["a", " ", "x = ", "{", "}", "\"", "'", "\\", "SELECT ", "é", "\n", "(", ":"]))
        else:
            idn = gen_ident(rng, 0.1, 0.03, 0.3, clean=clean)
            if rng.random() < 0.15:
                idn = ("idfmt", idn, rng.choice([">10", ".2f", "x", " ", "0>4"]))
            parts.append(idn)
    return ("interp", rng.choice("sf"), parts)


TYPES = ["int", "float", "bool", "text", "date", "time", "timestamp", "[int]", "[]", "{a = int, b = text}", "{int, ..}", "func", "func int -> bool",
         "my_type", "m.ty", "[{a = int}]"]


HOSTILE_TYPES = ["{x = *}", "{a = int, ..float}", "{..my_type}", "{`b c` = int}", "`my ty`", "m.`let`"]


def gen_type(rng, d, field=False):
    """source text of a random type expression (parser/types.rs): primitives, identifiers, func types (also nested, in
    parameter and return position), tuples with named / unnamed / `*` fields and a trailing wildcard, arrays"""
    k = rng.random()
    if d <= 0 or k < 0.3:
        return rng.choice(["int", "float", "bool", "text", "date", "time", "timestamp", "my_type", "m.ty", "`a b`", "m.`let`.x", "func", "[]", "{}"])
    if k < 0.5:
        n = rng.randint(0, 3)
        ps = [gen_type(rng, d - 1) for _ in range(n)]
        # a parameter may not end in a bare `func` (there is no way to write that): wrap it into an array type
        ps = [("[%s]" % x) if x.endswith("func") else x for x in ps]
        return "func %s-> %s" % ("".join(x + " " for x in ps), gen_type(rng, d - 1))
    if k < 0.65:
        return "[%s]" % gen_type(rng, d - 1)
    fields = []
    for _ in range(rng.randint(0, 4)):
        j = rng.random()
        nm = rng.choice(["a", "b", "`c d`", "`let`", "x1", "`*`"])
        if j < 0.45:
            fields.append("%s = %s" % (nm, gen_type(rng, d - 1)))
        elif j < 0.7:
            fields.append(gen_type(rng, d - 1))
        elif j < 0.85:
            fields.append("%s = *" % nm)
        else:
            fields.append("*")
    j = rng.random()
    if j < 0.2:
        fields.append("..")
    elif j < 0.4:
        fields.append(".." + gen_type(rng, d - 1))
    return "{" + ", ".join(fields) + "}"


def gen_func(rng, d, go, clean=False):
    params = [(rng.choice(["x", "y", "z", "p_1", "`a b`", "`let`", "`true`", "`*`"]), rng.choice(TYPES + HOSTILE_TYPES) if rng.random() < 0.3 else None) for _ in range(rng.randint(0, 2))]
    # default values: atoms, and (since commit 95d15ad repaired them) calls, lambdas and aliased expressions
    named = [(rng.choice(["k", "w"]), go(rng.choice([0, 0, 1, 1]))) for _ in range(rng.randint(0, 1))]
    if named and rng.random() < 0.3:
        named = [(n + " <%s>" % rng.choice(TYPES[:5]), dflt) for n, dflt in named]     # (repaired by commit 212f897)
    if not params and not named:
        params = [("x", None)]
    ret = rng.choice(TYPES) if rng.random() < 0.2 else None
    return ("func", params, named, ret, go(d))


def src(e, top=False):
    """fully parenthesised source of a tree"""
    k = e[0]
    if k == "id":
        return ".".join("*" if (p == "*" and i == len(e[1]) - 1 and len(e[1]) > 1) else q_ident(p) for i, p in enumerate(e[1]))
    if k == "lit":
        return e[2]
    if k == "param":
        return "$" + e[1]
    if k == "internal":
        return "internal " + e[1]
    if k == "interp":
        out = ""
        for p in e[2]:
            if isinstance(p, str):
                out += p.replace("\\", "\\\\").replace('"', '\\"').replace("{", "{{").replace("}", "}}")
            elif p[0] == "idfmt":
                out += "{" + src(p[1]) + ":" + p[2] + "}"
            else:
                out += "{" + src(p) + "}"
        return e[1] + '"' + out + '"'
    if k == "bin":
        return "%s %s %s" % (wrap(e[2]), e[1], wrap(e[3]))
    if k == "un":
        return e[1] + wrap(e[2])
    if k == "range":
        return (wrap(e[1]) if e[1] is not None else "") + ".." + (wrap(e[2]) if e[2] is not None else "")
    if k == "call":
        return wrap(e[1]) + "".join(" " + ((n + ":") if n else "") + wrap(a, alias_ok=not n) for n, a in e[2])
    if k == "pipe":
        return "(" + " | ".join(src(x) for x in e[1]) + ")"
    if k == "tuple":
        return "{" + ", ".join(src(x) for x in e[1]) + "}"
    if k == "array":
        return "[" + ", ".join(src(x) for x in e[1]) + "]"
    if k == "case":
        return "case [" + ", ".join("%s => %s" % (wrap(c), wrap(v)) for c, v in e[1]) + "]"
    if k == "alias":
        return "%s = %s" % (q_ident(e[1]), wrap(e[2]))
    if k == "func":
        s = "func "
        for n, ty in e[1]:
            s += n + (" <%s>" % ty if ty else "") + " "
        for n, dflt in e[2]:
            s += "%s:%s " % (n, wrap(dflt))
        s += "-> "
        if e[3]:
            s += "<%s> " % e[3]
        return s + wrap(e[4])
    raise AssertionError(e)


def wrap(e, alias_ok=False):
    k = e[0]
    if k in ("id", "lit", "param", "interp", "tuple", "array", "pipe"):
        return src(e)
    if k == "alias":
        # `name = (expr)`; inside a call argument an alias is allowed bare, elsewhere it needs parentheses
        return src(e) if alias_ok else "(" + src(e) + ")"
    return "(" + src(e) + ")"


def size(e):
    if not isinstance(e, tuple):
        return 0
    return 1 + sum(size(x) if isinstance(x, tuple) else sum(size(y) for y in x if isinstance(y, tuple)) if isinstance(x, list) else 0 for x in e[1:])


# ------------------------------------------------------------------------------------------- exhaustive shapes

def node_kinds():
    """representative operator nodes (one per formatter strength class member), as constructors over children"""
    ks = []
    for o in BINOPS:
        ks.append(("bin:" + o, 2, (lambda o: lambda c: ("bin", o, c[0], c[1]))(o)))
    for o in UNOPS:
        ks.append(("un:" + o, 1, (lambda o: lambda c: ("un", o, c[0]))(o)))
    ks.append(("range", 2, lambda c: ("range", c[0], c[1])))
    ks.append(("range-open-end", 1, lambda c: ("range", c[0], None)))
    ks.append(("range-open-start", 1, lambda c: ("range", None, c[0])))
    ks.append(("call", 2, lambda c: ("call", c[0], [(None, c[1])])))
    ks.append(("call-named", 2, lambda c: ("call", ("id", ["f"]), [("n1", c[0]), (None, c[1])])))
    return ks


def triples():
    """all (parent, side, child) combinations at depth 2, children filled with distinct atoms"""
    atoms = [("id", ["a"]), ("id", ["b"]), ("id", ["c"]), ("id", ["d"])]
    out = []
    ks = node_kinds()
    for pn, pa, pc in ks:
        for side in range(pa):
            for cn, ca, cc in ks:
                child = cc(atoms[:ca])
                kids = [atoms[3]] * pa
                kids[side] = child
                out.append(("%s|%d|%s" % (pn, side, cn), pc(kids)))
    return out


def quads(rng, n):
    """depth-3 chains parent/child/grandchild on random sides"""
    atoms = [("id", ["a"]), ("id", ["b"]), ("id", ["c"]), ("id", ["d"])]
    ks = node_kinds()
    out = []
    for _ in range(n):
        (gn, ga, gc), (pn, pa, pc), (cn, ca, cc) = rng.choice(ks), rng.choice(ks), rng.choice(ks)
        child = cc(atoms[:ca])
        s1 = rng.randrange(pa)
        kids = [atoms[3]] * pa
        kids[s1] = child
        mid = pc(kids)
        s2 = rng.randrange(ga)
        kids = [atoms[2]] * ga
        kids[s2] = mid
        out.append(("%s|%d|%s|%d|%s" % (gn, s2, pn, s1, cn), gc(kids)))
    return out


ADJACENCY = [
    "-(-a)", "a - (-b)", "!(!a)", "a - -b", "-(a - b)", "(-a) - b", "-(a ** b)", "(-a) ** b", "a ** (-b)", "-(f a)", "f (-a)", "f (-a) (-b)", "f a (-b)",
    "f (==a)", "f (+a) b", "f (!a)", "(f a) - b", "f (a - b)", "f a - b", "+(+a)", "==(==a)", "-(+a)", "!(-a)", "-(!a)", "a + (+b)", "a == (==b)",
    "a && (!b)", "a || (b && c)", "(a || b) && c", "a ?? (b ?? c)", "(a ?? b) ?? c", "a - (b - c)", "(a - b) - c", "a ** (b ** c)", "(a ** b) ** c",
    "a == (b == c)", "(a == b) == c", "a < (b < c)", "(a < b) < c", "a / (b * c)", "(a / b) * c", "a..(b..c)", "(a..b)..c", "-(a..b)", "(-a)..b", "a..(-b)",
    "(a + b)..c", "a..(b + c)", "(a ** b)..c", "a..(b ** c)", "a + ((b ** c)..d)", "a + (b..(c ** d))", "(f a)..b", "f (a..b)", "f a..b", "(f a) (g b)", "f (g b)",
    "f (g b) c", "(f a) b", "f (a | g)", "(a | f) + 1", "f (x = a)", "f x:(a + b) c", "f x:(-a) c", "f x:(g a) c", "f x:a..b c", "f x:(a..b) c",
    "(func x -> x + 1)", "f (func x -> x)", "(func x -> x) a", "func x -> (func y -> x + y)", "func x -> f x y", "func x -> (x | f)", "case [a => -b, (f a) => g b, (a == b) => (c ?? d)]",
    "{a = -b, c = (f x), (d = e)}", "[a + b, -c, f d]", "(a)", "((a))", "(a + b)", "{(a + b)}", "f ((a))", "1 + 2 * 3", "(1 + 2) * 3", "a.b + c.d", "-1", "-1..2", "-(1..2)", "..-1",
    "f -a", "f - a", "f (a) -b", "a -b", "a - b", "a-b", "a ==b", "f ==b", "f (==b)", "f !b", "f (!b)", "f +b", "f (+b)",
    # a binary expression whose left-most operand starts with a sign, as an (unaliased) function argument
    "f ((-a) + b)", "f ((-a) + b) c", "f c ((-a) * b)", "f ((+a) - b)", "f ((==a) && b)", "f x:((-a) + b) c", "f ((-a) + b > 0)", "f (((-a) + b) * c)",
    # lambdas at every position (model since this round; the restricted ones were repaired by commit 95d15ad)
    "func x -> x", "func x y -> x + y", "func -> 1", "func x k:1 -> x + k", "func k:1 w:(a + b) -> k", "func k:(g y) -> k", "func k:(func y -> y) -> k", "func k:(x = a) -> k",
    "func k:-1 w:a..b -> k", "func k:(-a) -> k", "func k:[1, 2] w:{a = 1} -> k", "case [a => (func y -> y)]", "case [(func y -> y) => a]", "func x -> (func y -> (func z -> x + y + z))",
    "{f = func x -> x, g = (func y -> y)}", "[func x -> x, func y -> y + 1]", "(func x -> x | f)", "a + (func x -> x)", "(func x -> x) + a", "-(func x -> x)", "(func x -> x)..a",
    "f k:(func x -> x) a", "f (func x -> x) (func y -> y)", "(al = func x -> x) + a", "{al = func x -> f x y}", "func x -> f x | g", "func x -> (f x | g)", "func x -> {a = x, b = (func y -> y)}",
    "func x -> case [x => (func y -> y)]", "func x -> x..y", "func x -> -x", "func x -> (y = x) + 1", "func `a b` `let` -> `a b`", "func x -> s\"{x}\"",
    # positions repaired by commits 95d15ad / 2a611aa / 1b7b9df: aliased operand, bound, callee, named value; parameter before `..`
    "a + (x = b)", "(x = a) + b", "(x = a) ** (y = b)", "-(x = a)", "!(x = a)", "(x = a)..b", "a..(x = b)", "(x = a)..", "..(x = a)", "(x = f) a", "(x = f a) b",
    "f n1:(x = a) b", "f n1:(x = a + b) c", "f (x = a)", "f x = a", "f (x = a) (y = b)", "f (x = a + b) c", "a + (x = b + c)", "a * (x = (b + c))", "(x = -a) + b",
    "f ((x = a) + b)", "{x = (y = a) + b}", "{(x = a) + b}", "[(x = a) + b]", "case [(x = a) + b => (y = c) * d]", "((x = a))", "(x = (a))", "f ((x = a))",
    "($a)..b", "($a)..", "(-$a)..b", "(!$x)..", "(+$a)..3", "(==$a)..b", "f ($a)..b", "f (-$a)..b", "f ((-$a)..b)", "a + (($b)..c)", "(x = $a)..b", "(-(x = $a))..b",
    "($a.b)..c", "a..$b", "($a)..($b)", "$a + 1", "(($a))..b", "(f $a)..b", "[($a)..b, (-$c)..]",
    "f ((-a)..b)", "f ((-a) ?? b) (+c)", "f (!a && b)", "f ((-a) + b | g)", "f {(-a) + b}", "f [(-a) + b]", "f (x = (-a) + b)", "(f ((-a) + b)) + c", "-a + b", "(-a) + b",
]


# ------------------------------------------------------------------------------------------- identifier alphabet

def unicode_names():
    """Names that probe where identifier classes of the printers can differ from the lexer's (char::is_alphabetic /
    is_alphanumeric / `_`): for every Unicode general category a few well-established non-ASCII code points (plus some
    ASCII ones), placed after a letter, between letters and in front.  Control characters and the backtick are left out
    (a backticked name cannot contain a backtick)."""
    import unicodedata
    picks = {}
    wanted = ["Lu", "Ll", "Lt", "Lm", "Lo", "Mn", "Mc", "Me", "Nd", "Nl", "No", "Pc", "Pd", "Ps", "Pe", "Pi", "Pf", "Po", "Sm", "Sc", "Sk", "So", "Zs", "Cf"]
    for cp in list(range(0x80, 0x3000)) + list(range(0xFF00, 0xFFEF)) + list(range(0x1D400, 0x1D440)):
        cat = unicodedata.category(chr(cp))
        if cat in wanted and len(picks.setdefault(cat, [])) < 3:
            picks[cat].append(chr(cp))
    special = ["\u0301", "\u094d", "\u203f", "\u200d", "\u200c", "\u0661", "\u2167", "\u00b2", "\uff3f", "\u00aa", "\u02b0", "\u0e31", "\u064b", "\u3005", "\u00b7", "\u2118", "\u1885", "\u309b",
               "$", "-", ".", " ", "'", "\"", "#", "@", "0", "_"]
    chars = []
    for cat in wanted:
        chars += picks.get(cat, [])
    chars += special
    names = []
    for ch in dict.fromkeys(chars):
        names += ["a" + ch, "a" + ch + "b", ch + "a"]
    names += ["cafe\u0301", "\u0939\u093f\u0928\u094d\u0926\u0940", "nai\u0308ve\u203fx", "t\u00e8te", "gr\u00f6\u00dfe2", "\u65e5\u672c\u8a9e", "\u0661\u0662", "\u2167"]
    return list(dict.fromkeys(names))


def unicode_name_sources():
    out = []
    for n in unicode_names():
        q = "`" + n + "`"
        out.append("from t\nselect {%s = %s, x = t.%s}\n" % (q, q, q))
        out.append("let %s = func %s k:1 -> %s\nfrom t\nderive {y = f k:2 %s}\n" % (q, q, q, q))
        out.append("module %s {\n  type %s = int\n}\nfrom t\nwindow %s:1 (derive {z = 1})\n" % (q, q, q))
    return out


# ------------------------------------------------------------------------------------------- repaired positions

def restricted_position_sources():
    """every (position, form) pair of the positions repaired by commits 95d15ad / 2a611aa (forms the parser accepts there
    only in parentheses), the parameter in front of `..` (1b7b9df) and the wildcard as a name (328740d)"""
    forms = {"lambda": "(func y -> y + 1)", "lambda2": "(func y k:1 -> (func z -> z))", "call": "(g y)", "call2": "(g y z:1)",
             "alias": "(al = b)", "alias-call": "(al = g y)", "alias-lambda": "(al = func y -> y)", "pipe": "(b | g)", "plain": "b", "neg": "(-b)"}
    positions = [
        "let v = case [%s => 1]", "let v = case [c => %s]", "let v = func q -> %s", "let v = func q k:%s -> q", "@%s\nlet v = 1",
        "let v = a + %s", "let v = %s + a", "let v = -%s", "let v = %s..a", "let v = a..%s", "let v = %s a", "let v = f n1:%s a", "let v = f %s a",
        "let v = f a %s", "let v = {%s, a}", "let v = [%s]", "let v = (%s | f)", "let v = %s", "from t\nselect %s", "from t\nderive {w = %s}",
        "let v = a ?? %s", "let v = f (%s + 1)", "let v = f n1:%s", "let v = ((%s))", "let v = s\"{a}\" + %s",
    ]
    out = []
    for pos in positions:
        for form in forms.values():
            out.append(pos % form + "\n")
    out += ["let v = ($a)..b\n", "let v = [(!$x)..]\n", "let v = (-$a)..\n", "let v = f ($a)..b (-$c)..\n", "let v = ($a.b)..c\n",
            "from t\nselect {`*` = 1}\n", "let f = func `*` -> 1\n", "let `*` = 1\n", "import `*` = a.b\n", "let v = f `*`:1 a\n", "from t\nselect {t.*, x = `*`}\n",
            "module `*` {\n  let a = 1\n}\n", "type `*` = int\n", "from t\ninto `*`\n", "type t = {`*` = int}\n"]
    return out


def deep_nesting_source(n):
    e = "a_long_name_for_a_column"
    for i in range(n):
        e = "(%s + b_%d) * c_long_name_%d" % (e, i, i)
    return "from t\nderive {x = %s}\n" % e

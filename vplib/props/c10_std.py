"""C10 translator: semantic/std.prql (parsed by prqlc's own parser through harness `parsefile`) -> coq/Gen/GenC10Std.v

Table-shaped facts the scope model needs and must not be written by hand: which names the std module declares and what
they denote (function / module / type), and the signature of every std function (positional parameters with the kind
their declared type demands, named parameters).  Regenerated on every run; on failure a stub is written so that
Props/C10.v stops compiling (a changed std.prql becomes a broken obligation).
"""
import os

import re

from ..common import REPO, gen_write, harness1
from .. import rustscan

STD = os.path.join(REPO, "prqlc", "prqlc", "src", "semantic", "std.prql")
SCALAR_TYPES = {"int", "float", "bool", "text", "date", "time", "timestamp"}


class ExtractError(Exception):
    pass


def codes(s):
    return "[" + ";".join(str(ord(c)) for c in s) + "]"


def pkind(ty):
    if ty is None:
        return "PAny"
    k = ty.get("kind")
    if not isinstance(k, dict) or len(k) != 1:
        raise ExtractError("unexpected type node %r" % (ty,))
    (tag, v), = k.items()
    if tag == "Ident":
        name = v[-1]
        if name == "relation":
            return "PRel"
        if name in ("transform", "func"):
            return "PFunc"
        if name in SCALAR_TYPES:
            return "PScalar"
        if name == "array":
            return "PAny"      # a column seen as an array: validate_type's "temporary hack" accepts any non-function
        raise ExtractError("unknown type name %s" % name)
    if tag == "Primitive":
        return "PScalar"
    if tag == "Function":
        return "PFunc"
    if tag in ("Array", "Tuple", "Union", "Any", "Singleton", "Difference", "GenericArg"):
        return "PAny"
    raise ExtractError("unknown type kind %s" % tag)


def walk(stmts, path, names, sigs, pnames):
    for s in stmts:
        if not isinstance(s, dict):
            raise ExtractError("statement %r" % (s,))
        keys = [k for k in s if k not in ("span", "annotations", "doc_comment")]
        if len(keys) != 1:
            raise ExtractError("statement keys %r" % (list(s),))
        k = keys[0]
        v = s[k]
        if k == "VarDef":
            name = v["name"]
            val = v.get("value") or {}
            if "Func" in val:
                f = val["Func"]
                params = [pkind(p.get("ty")) for p in f["params"]]
                named = [p["name"].split(".")[-1] for p in f["named_params"]]
                names.append((path + [name], "NFunc"))
                sigs.append((path + [name], params, named))
                pnames[tuple(path + [name])] = [p["name"].split(".")[-1] for p in f["params"]]
            else:
                names.append((path + [name], "NValue"))
        elif k == "TypeDef":
            names.append((path + [v["name"]], "NType"))
        elif k == "ModuleDef":
            names.append((path + [v["name"]], "NModule"))
            walk(v["stmts"], path + [v["name"]], names, sigs, pnames)
        elif k in ("ImportDef", "QueryDef"):
            continue
        else:
            raise ExtractError("unknown statement kind %s" % k)


def extract():
    a = harness1("parsefile", {"path": STD})
    if "ok" not in a:
        raise ExtractError("std.prql does not parse: %r" % (str(a)[:300],))
    names, sigs, pnames = [], [], {}
    walk(a["ok"]["stmts"], [], names, sigs, pnames)
    if len(sigs) < 40:
        raise ExtractError("only %d std functions found" % len(sigs))
    # Module.names is a HashMap: a later declaration of the same name replaces the earlier one
    # (std declares both `type date` and `module date`, `type text` and `module text`)
    last = {}
    for path, k in names:
        last[tuple(path)] = k
    names = [(list(p), k) for p, k in last.items()]
    lasts = {}
    for path, ps, named in sigs:
        lasts[tuple(path)] = (ps, named)
    sigs = [(list(p), v[0], v[1]) for p, v in lasts.items() if last.get(p) == "NFunc"]
    # positional parameter names are not part of the Coq table (they can never be named arguments); the check uses them
    # to spell unknown named arguments that look plausible
    return {"names": names, "sigs": sigs, "param_names": pnames}


def extract_cfg():
    """What two pieces of the resolver / lowerer look like NOW (Model/Scope.v `cfg`); pinned shapes, anything else fails closed.

    cfg_that_rejected  semantic/lowering.rs, lower_expr's Ident arm: between the test `Some(DeclKind::Module(_) |
                       DeclKind::LayeredModules(_))` and the `SString(vec![InterpolateItem::String(ident.name)])` fallback
                       there is / is not a test of the bare name NS_THAT (`ident.path.is_empty() && ident.name == NS_THAT`).
    cfg_parent_walk    semantic/resolver/names.rs, resolve_ident: the retries drop the first part with `pop_front()` (twice:
                       relation and value branch) / take prefixes `path[..n]` of current_module_path (twice)."""
    src = rustscan.read("prqlc/prqlc/src/semantic/lowering.rs")
    m = rustscan.mask(src)
    a = re.search(r"Some\s*\(\s*DeclKind::Module\s*\(\s*_\s*\)\s*\|\s*DeclKind::LayeredModules\s*\(\s*_\s*\)\s*\)", m)
    b = re.search(r"rq::ExprKind::SString\s*\(\s*vec!\s*\[\s*InterpolateItem::String\s*\(\s*ident\.name\s*\)\s*\]\s*\)", m)
    if not a or not b or b.start() < a.end():
        raise ExtractError("lowering.rs: the ident arm of lower_expr (module test ... unresolved-ident fallback) is not where it was")
    region = m[a.end():b.start()]
    if len(region) > 2500:
        raise ExtractError("lowering.rs: module test and fallback are %d characters apart" % len(region))
    if not re.search(r"\bis_relation\s*\(\s*\)", region) or not re.search(r"!\s*self\.in_interpolation", region):
        raise ExtractError("lowering.rs: the relation-variable test of a131b2a is gone")
    n_that = len(re.findall(r"\bNS_THAT\b", m[max(0, a.start() - 400):b.start()]))
    if n_that == 0:
        that_rejected = False
    elif n_that == 1 and re.search(r"ident\.path\.is_empty\s*\(\s*\)\s*&&\s*ident\.name\s*==\s*NS_THAT", m[max(0, a.start() - 400):b.start()]):
        that_rejected = True
    else:
        raise ExtractError("lowering.rs: NS_THAT is mentioned in the ident arm in a shape the translator does not know")

    src2, m2, s2, e2 = rustscan.fn_body("prqlc/prqlc/src/semantic/resolver/names.rs", r"fn\s+resolve_ident\s*\(")
    body = m2[s2:e2]
    if len(re.findall(r"current_module_path", body)) < 2 or "default_namespace" not in body:
        raise ExtractError("names.rs: resolve_ident no longer walks current_module_path in both branches")
    n_pop = len(re.findall(r"\.pop_front\s*\(\s*\)", body))
    n_pre = len(re.findall(r"\bpath\s*\[\s*\.\.\s*n\s*\]", body))
    if n_pop == 2 and n_pre == 0:
        parent_walk = False
    elif n_pop == 0 and n_pre == 2 and re.search(r"\(\s*1\s*\.\.=\s*path\.len\s*\(\s*\)\s*\)\s*\.rev\s*\(\s*\)", body) \
            and re.search(r"\(\s*0\s*\.\.\s*path\.len\s*\(\s*\)\s*\)\s*\.rev\s*\(\s*\)", body):
        parent_walk = True
    else:
        raise ExtractError("names.rs: resolve_ident's retries are neither the pop_front walk nor the prefix walk (pop_front x%d, path[..n] x%d)" % (n_pop, n_pre))
    # cfg_dead_case_checked: resolver/static_eval.rs maybe_static_eval -- the Case arm goes straight to static_eval_case(expr) /
    # first calls self.expect_value on every condition and value (proposed repair C10-F7)
    src3 = rustscan.read("prqlc/prqlc/src/semantic/resolver/static_eval.rs")
    m3 = rustscan.mask(src3)
    arm = re.search(r"ExprKind::Case\s*\(\s*(_|[a-z_]+)\s*\)\s*=>", m3)
    if not arm or "fn static_eval_case" not in m3:
        raise ExtractError("static_eval.rs: maybe_static_eval's Case arm / static_eval_case not found")
    tail = m3[arm.end():arm.end() + 700]
    k = tail.find("static_eval_case")
    if k < 0:
        raise ExtractError("static_eval.rs: the Case arm does not reach static_eval_case")
    before = tail[:k]
    if re.fullmatch(r"\s*", before):
        dead_checked = False
    elif len(re.findall(r"self\s*\.\s*expect_value\s*\(", before)) == 2 and "fn expect_value" in m3 and re.search(r"DeclKind::Module\s*\(\s*_\s*\)", m3) and "is_relation" in m3:
        dead_checked = True
    else:
        raise ExtractError("static_eval.rs: something unknown happens between the Case arm and static_eval_case")
    # cfg_std_call_rejected: resolver/types.rs validate_expr_type -- inside `if found.lineage.is_none() && expected.unwrap().is_relation()`
    # an `if let ExprKind::RqOperator { .. } = &found.kind { return Err(..) }` precedes the table inference (proposed repair C10-F4)
    src4, m4, s4, e4 = rustscan.fn_body("prqlc/prqlc/src/semantic/resolver/types.rs", r"fn\s+validate_expr_type\s*<")
    body4 = m4[s4:e4]
    sp = re.search(r"found\s*\.\s*lineage\s*\.\s*is_none\s*\(\s*\)\s*&&\s*expected\s*\.\s*unwrap\s*\(\s*\)\s*\.\s*is_relation\s*\(\s*\)", body4)
    dt = body4.find("declare_table_for_literal")
    if not sp or dt < sp.end():
        raise ExtractError("types.rs: validate_expr_type's `infer a table type` special case is not where it was")
    between = body4[sp.end():dt]
    n_rq = len(re.findall(r"ExprKind::RqOperator", between))
    if n_rq == 0:
        std_call_rejected = False
    elif n_rq == 1 and re.search(r"if\s+let\s+ExprKind::RqOperator\s*\{[^}]*\}\s*=\s*&found\s*\.\s*kind\s*\{\s*return\s+Err", between):
        std_call_rejected = True
    else:
        raise ExtractError("types.rs: RqOperator is mentioned in validate_expr_type's table inference in an unknown shape")
    return {"that_rejected": that_rejected, "parent_walk": parent_walk, "dead_case_checked": dead_checked, "std_call_rejected": std_call_rejected}


def generate():
    try:
        info = extract()
        info["cfg"] = extract_cfg()
    except (ExtractError, rustscan.ExtractError, KeyError, TypeError) as ex:
        gen_write("GenC10Std", "(* EXTRACTION FAILED: %s *)\nDefinition gen_c10_std_extraction_failed := tt.\n" % str(ex).replace("*)", "* )"))
        return {"error": str(ex)}
    v = "(* generated from /repo (semantic/std.prql, via prqlc's own parser) on every run by vplib/props/c10_std.py -- do not edit *)\n"
    v += "From Coq Require Import List NArith.\nFrom PV Require Import Lib.ListX Model.Scope.\nImport ListNotations.\nLocal Open Scope N_scope.\n\n"
    v += "Definition std_names : list (list str * nkind) :=\n  [ " + ";\n    ".join(
        "([%s], %s) (* %s *)" % ("; ".join(codes(p) for p in path), k, ".".join(path)) for path, k in info["names"]) + " ].\n\n"
    v += "Definition std_sigs : list (list str * fsig) :=\n  [ " + ";\n    ".join(
        "([%s], mkSig [%s] [%s]) (* %s *)" % ("; ".join(codes(p) for p in path), "; ".join(ps), "; ".join(codes(n) for n in named), ".".join(path))
        for path, ps, named in info["sigs"]) + " ].\n"
    v += "\n(* what lower_expr's ident arm and resolve_ident's module walk look like in the source now (extract_cfg) *)\n"
    v += "Definition head_cfg : cfg := mkCfg %s.\n" % " ".join("true" if info["cfg"][k_] else "false" for k_ in ("that_rejected", "parent_walk", "dead_case_checked", "std_call_rejected"))
    gen_write("GenC10Std", v)
    return info

"""C10 translator: semantic/std.prql (parsed by prqlc's own parser through harness `parsefile`) -> coq/Gen/GenC10Std.v

Table-shaped facts the scope model needs and must not be written by hand: which names the std module declares and what
they denote (function / module / type), and the signature of every std function (positional parameters with the kind
their declared type demands, named parameters).  Regenerated on every run; on failure a stub is written so that
Props/C10.v stops compiling (a changed std.prql becomes a broken obligation).
"""
import os

from ..common import REPO, gen_write, harness1

STD = os.path.join(REPO, "prqlc", "prqlc", "src", "semantic", "std.prql")
SCALAR_TYPES = {"int", "float", "bool", "text", "date", "time", "timestamp"}


class ExtractError(Exception):
    pass


def codes(s):
    return "[" + ";".join(str(ord(c)) for c in s) + "]"


def pkind(ty):
    if ty is None:
        return "PAny"
    k = ty.get("kind")
    if not isinstance(k, dict) or len(k) != 1:
        raise ExtractError("unexpected type node %r" % (ty,))
    (tag, v), = k.items()
    if tag == "Ident":
        name = v[-1]
        if name == "relation":
            return "PRel"
        if name in ("transform", "func"):
            return "PFunc"
        if name in SCALAR_TYPES:
            return "PScalar"
        if name == "array":
            return "PAny"      # a column seen as an array: validate_type's "temporary hack" accepts any non-function
        raise ExtractError("unknown type name %s" % name)
    if tag == "Primitive":
        return "PScalar"
    if tag == "Function":
        return "PFunc"
    if tag in ("Array", "Tuple", "Union", "Any", "Singleton", "Difference", "GenericArg"):
        return "PAny"
    raise ExtractError("unknown type kind %s" % tag)


def walk(stmts, path, names, sigs, pnames):
    for s in stmts:
        if not isinstance(s, dict):
            raise ExtractError("statement %r" % (s,))
        keys = [k for k in s if k not in ("span", "annotations", "doc_comment")]
        if len(keys) != 1:
            raise ExtractError("statement keys %r" % (list(s),))
        k = keys[0]
        v = s[k]
        if k == "VarDef":
            name = v["name"]
            val = v.get("value") or {}
            if "Func" in val:
                f = val["Func"]
                params = [pkind(p.get("ty")) for p in f["params"]]
                named = [p["name"].split(".")[-1] for p in f["named_params"]]
                names.append((path + [name], "NFunc"))
                sigs.append((path + [name], params, named))
                pnames[tuple(path + [name])] = [p["name"].split(".")[-1] for p in f["params"]]
            else:
                names.append((path + [name], "NValue"))
        elif k == "TypeDef":
            names.append((path + [v["name"]], "NType"))
        elif k == "ModuleDef":
            names.append((path + [v["name"]], "NModule"))
            walk(v["stmts"], path + [v["name"]], names, sigs, pnames)
        elif k in ("ImportDef", "QueryDef"):
            continue
        else:
            raise ExtractError("unknown statement kind %s" % k)


def extract():
    a = harness1("parsefile", {"path": STD})
    if "ok" not in a:
        raise ExtractError("std.prql does not parse: %r" % (str(a)[:300],))
    names, sigs, pnames = [], [], {}
    walk(a["ok"]["stmts"], [], names, sigs, pnames)
    if len(sigs) < 40:
        raise ExtractError("only %d std functions found" % len(sigs))
    # Module.names is a HashMap: a later declaration of the same name replaces the earlier one
    # (std declares both `type date` and `module date`, `type text` and `module text`)
    last = {}
    for path, k in names:
        last[tuple(path)] = k
    names = [(list(p), k) for p, k in last.items()]
    lasts = {}
    for path, ps, named in sigs:
        lasts[tuple(path)] = (ps, named)
    sigs = [(list(p), v[0], v[1]) for p, v in lasts.items() if last.get(p) == "NFunc"]
    # positional parameter names are not part of the Coq table (they can never be named arguments); the check uses them
    # to spell unknown named arguments that look plausible
    return {"names": names, "sigs": sigs, "param_names": pnames}


def generate():
    try:
        info = extract()
    except (ExtractError, KeyError, TypeError) as ex:
        gen_write("GenC10Std", "(* EXTRACTION FAILED: %s *)\nDefinition gen_c10_std_extraction_failed := tt.\n" % str(ex).replace("*)", "* )"))
        return {"error": str(ex)}
    v = "(* generated from /repo (semantic/std.prql, via prqlc's own parser) on every run by vplib/props/c10_std.py -- do not edit *)\n"
    v += "From Coq Require Import List NArith.\nFrom PV Require Import Lib.ListX Model.Scope.\nImport ListNotations.\nLocal Open Scope N_scope.\n\n"
    v += "Definition std_names : list (list str * nkind) :=\n  [ " + ";\n    ".join(
        "([%s], %s) (* %s *)" % ("; ".join(codes(p) for p in path), k, ".".join(path)) for path, k in info["names"]) + " ].\n\n"
    v += "Definition std_sigs : list (list str * fsig) :=\n  [ " + ";\n    ".join(
        "([%s], mkSig [%s] [%s]) (* %s *)" % ("; ".join(codes(p) for p in path), "; ".join(ps), "; ".join(codes(n) for n in named), ".".join(path))
        for path, ps, named in info["sigs"]) + " ].\n"
    gen_write("GenC10Std", v)
    return info

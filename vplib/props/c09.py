"""C09 -- identifiers are referenced verbatim; generated names never capture user names."""
import itertools
import json

from ..common import Check, Lock, coq_eval, coq_codes, coq_make, harness
from ..translate import gen_keywords, gen_ident_dialect

TRUSTED = [
    "Coq 8.16.1 kernel (coqc, vm_compute); no axioms: every theorem is 'Closed under the global context'",
    "translators vplib/translate/gen_keywords.py (keyword arrays, is_keyword / sql_keywords shape, valid_ident regex -> character classes, translate_ident_part shape; sqlparser's reserved lists and SQLite's own keyword table through harness c09_kw) and gen_ident_dialect.py (quote char / quoting style per dialect, generator prefixes; code text -- comments, string contents and #[cfg(prqlc_verif)] hook items blanked -- of gen_table_name, assign_names incl. the reserved set, RelVarNameAssigner, ensure_column_name, the anchor_split step, translate_select_item's alias loop; inventory of every call of the two generators and every use of reserved_table_names in prqlc/src); fail closed",
    "Model/Escape.v: hand model of sqlparser 0.60 Ident Display (EscapeQuotedString), validated exhaustively on short strings (harness `escape`)",
    "Model/SqlLex.v + Model/Ident.v reading side: standard quoted identifiers (quote doubled) and bare words; validated on SQLite by execution; MySQL/BigQuery backtick rules, case folding of the ten non-executable engines are from documentation only (upper-folding engines other than snowflake are outside the theorem)",
    "Model/NameGen.v: hand model of NameGenerator and of every place that draws from it; compared with the inputs / outputs of every real call of those places, step by step and loop by loop, with the generator states the hooks log (verif:namegen + namegen-draw + namegen-state of hooks/namegen-state.diff, verif:pq-names, verif:ensure_column_name, verif:select_item(s), verif:anchor_split; read through harness `log`) for the programs of the end-to-end stream; Rust's str::to_lowercase is a parameter of the model (`lower`): the runs and the instances use ASCII lower-casing, the theorems hold for every function that leaves generated names unchanged; which declarations / columns reach the places is taken from the events; the reserved column names are [] or the set reported by pq-names according to the flag the translator reads from the source",
    "end-to-end reference results are computed in python from the inserted marker values for a fixed set of program skeletons",
    "harness (prqlc::compile, rusqlite bundled SQLite) and python comparison code",
]

SYMS = ["a", "A", " ", '"', "'", ".", "-", "select", "é", "_expr_0", "table_0"]
EXTRA_NAMES = ["_expr_1", "table_1", "table_2", "_expr_2", "order", "where", "group", "Table", "x y", "a$b", "$a", "$", "a\\\"b", "\\", "\\\"", "a1", "1a", "_", "__", "a_b",
               "tablE_0", "_EXPR_0", "user", "time", "index", "key", "é_é", "a\tb", "a;b", "--", "/*", "a--b", "from", "null", "true", "CASE", "limit", "all"]
DIALECTS = ["ansi", "bigquery", "clickhouse", "duckdb", "generic", "glaredb", "mssql", "mysql", "postgres", "redshift", "sqlite", "snowflake"]

HEADER = ("From Coq Require Import List NArith.\nFrom PV Require Import Lib.ListX Model.Escape Model.SqlLex Model.Ident Model.NameGen Gen.GenKeywords Gen.GenIdentDialect.\n"
          "Import ListNotations.\nLocal Open Scope N_scope.\n"
          "Definition em (d s : str) := emit_ident_row ident_start ident_rest common_keywords dialect_keywords ident_dialects d s.\n")


_coq_eval_raw = coq_eval
_harness_raw = harness
PHASE = {}


def harness(cmd, reqs, *a, **kw):
    import time
    t0 = time.time()
    try:
        return _harness_raw(cmd, reqs, *a, **kw)
    finally:
        PHASE["harness " + cmd] = round(PHASE.get("harness " + cmd, 0) + time.time() - t0, 1)
        PHASE["n harness " + cmd] = PHASE.get("n harness " + cmd, 0) + len(reqs)


def coq_eval(header, exprs):
    """coq_eval with one retry: another check may have rebuilt a shared model file (Model/Literal.v, SqlLex.v) meanwhile, which
    leaves our .vo files stale ("makes inconsistent assumptions"); rebuild ours and evaluate again"""
    import time
    t0 = time.time()
    try:
        return _coq_eval_raw(header, exprs)
    except RuntimeError:
        with Lock("coq"):
            coq_make(["Model/Escape.vo", "Model/SqlLex.vo", "Model/Ident.vo", "Model/NameGen.vo", "Gen/GenKeywords.vo", "Gen/GenIdentDialect.vo"])
        return _coq_eval_raw(header, exprs)
    finally:
        PHASE["coq_eval"] = round(PHASE.get("coq_eval", 0) + time.time() - t0, 1)
        PHASE["n coq_eval exprs"] = PHASE.get("n coq_eval exprs", 0) + len(exprs)


def s_of(codes):
    return "".join(chr(c) for c in codes)


def bt(name):
    return "`" + name + "`"


def dq(name):
    """SQLite identifier quoting, written independently of prqlc"""
    return '"' + name.replace('"', '""') + '"'


def fold(name):
    return "".join(chr(ord(c) + 32) if "A" <= c <= "Z" else c for c in name)


# ---------------------------------------------------------------- known-finding classes

def f18_name(n):
    return '""' in n or '\\"' in n


def f32_name(n):
    return n.startswith("$")


def unalias(body):
    """`X AS X` -> X.  Since fix 68466ba a name containing the quote character gets a redundant alias of the same spelling
    (translate_select_item compares the Ident's now pre-doubled value with the column name); same object, same name."""
    h = len(body) - 4
    if h > 0 and h % 2 == 0 and body[h // 2:h // 2 + 4] == " AS " and body[:h // 2] == body[h // 2 + 4:]:
        return body[:h // 2]
    return body


def keyword_words(kinfo):
    """(common, redshift-only) upper-case keyword sets; from the translator when it succeeded, else leniently from the
    source text + the harness dump (so the search still knows what must be quoted)"""
    import re
    from ..common import REPO, harness1
    import os
    if "error" not in kinfo:
        common = set()
        for k in ("SQLITE_KEYWORDS", "POSTGRES_KEYWORDS", "DUCKDB_KEYWORDS", "BIGQUERY_KEYWORDS", "column_alias", "table_alias"):
            common |= set(kinfo[k])
        return common, set(kinfo["REDSHIFT_KEYWORDS"]) - common
    try:
        txt = open(os.path.join(REPO, "prqlc/prqlc/src/sql/keywords.rs"), encoding="utf-8").read()
    except OSError:
        return set(), set()
    txt = txt.split("#[test]")[0]
    head, _, red = txt.partition("const REDSHIFT_KEYWORDS")
    common = set(re.findall(r'^\s*"([A-Z][A-Z0-9_]*)",\s*$', head, re.M))
    dump = harness1("c09_kw", {})
    common |= set(dump.get("column_alias", [])) | set(dump.get("table_alias", []))
    return common, set(re.findall(r'^\s*"([A-Z][A-Z0-9_]*)",\s*$', red, re.M)) - common


def case_variant_of_generated(n, prefix):
    """spelled like a generated name of this prefix up to letter case, but not exactly"""
    import re
    return fold(n) != n and re.fullmatch(re.escape(fold(prefix)) + r"[0-9]+", fold(n)) is not None


def f33b_case(case, col_prefix="_expr_"):
    """F33b (open): a COLUMN of the program is a case variant of a generated column name AND the emitted SQL uses exactly that
    generated name too (as a bare word), so that the two meet in one SELECT list.  Only columns count: the table side (F33)
    was repaired by 99a89d3 and excuses nothing any more."""
    import re
    sql = case.get("sql", "")
    return any(case_variant_of_generated(n, col_prefix) and re.search(r'(?<![\w"`])' + re.escape(fold(n)) + r'(?![\w"`])', sql)
               for n in case.get("cols", []))


def run():
    ck = Check("C09", level="proof")
    kinfo = gen_keywords.generate()
    dinfo = gen_ident_dialect.generate()
    pr = ck.prove()
    if not pr["ok"]:
        with Lock("coq"):
            coq_make(["Model/Escape.vo", "Model/SqlLex.vo", "Model/Ident.vo", "Model/NameGen.vo", "Gen/GenKeywords.vo", "Gen/GenIdentDialect.vo"])
    for inf in (kinfo, dinfo):
        if "error" in inf:
            ck.coverage.setdefault("translator_error", []).append(inf["error"])

    def cl_names(case):
        # F18, F32, F31, F33, F33b, C09-N2, C09-N1 are FIXED (68466ba, b5c2cd4, 75c6718, 99a89d3, 6cdd79f, 3807cba, fdf832c):
        # there is no open finding; nothing is excused
        return None

    # ------------------------------------------------------------ names
    n_ex = ck.n(2, 3)
    names = ["".join(t) for n in range(1, n_ex + 1) for t in itertools.product(SYMS, repeat=n)]
    if not ck.thorough:
        pool3 = ["".join(t) for t in itertools.product(SYMS, repeat=3)]
        names += ck.rng.sample(pool3, 400)
    names += EXTRA_NAMES
    # every keyword prqlc is supposed to quote, whatever its shape (CURRENT_DATE, SESSION_USER, ...), read leniently from
    # the source so that the list survives a translator that failed closed
    kw_common, kw_redshift = keyword_words(kinfo)
    kw_lower = sorted(w.lower() for w in kw_common | kw_redshift)
    names += kw_lower if ck.thorough else ([w for w in kw_lower if not w.isalpha()] + ck.rng.sample(kw_lower, 60))
    names = [n for n in dict.fromkeys(names) if n != "*"]

    # ------------------------------------------------------------ 1. emit_ident model vs compile output, all dialects
    # quick tier: every name on sqlite, postgres, mysql, snowflake and on two of the other eight dialects (rotating with the
    # name); thorough: every name on all twelve.  EM_D[name] is the dialect list of a name.
    FIXED4 = ["sqlite", "postgres", "mysql", "snowflake"]
    OTHER8 = [d for d in DIALECTS if d not in FIXED4]
    EM_D = {n: (DIALECTS if ck.thorough else FIXED4 + [OTHER8[(2 * i) % 8], OTHER8[(2 * i + 1) % 8]]) for i, n in enumerate(names)}
    creqs = [{"src": "from t | select {this.%s}" % bt(n), "target": "sql." + d} for n in names for d in EM_D[n]]
    cans = harness("compile", creqs)
    model = None
    try:
        B = 100
        by_d = {d: [n for n in names if d in EM_D[n]] for d in DIALECTS}
        exprs, where = [], []
        for d in DIALECTS:
            for i in range(0, len(by_d[d]), B):
                exprs.append("map (em %s) [%s]" % (coq_codes(d), "; ".join(coq_codes(n) for n in by_d[d][i:i + B])))
                where.append((d, by_d[d][i:i + B]))
        vals = coq_eval(HEADER, exprs)
        model = {}
        for (d, ns), v in zip(where, vals):
            for n, x in zip(ns, v):
                model[(d, n)] = x
    except RuntimeError as ex:
        ck.coverage["model_eval_error"] = str(ex)[-600:]
    k = 0
    sqlite_emit = {}
    for ni, n in enumerate(names):
        for d in EM_D[n]:
            a = cans[k]; k += 1
            ck.count("emit-model", d + "|" + n, nontrivial=True)
            got = None
            if "ok" in a:
                sql = a["ok"]
                tail = " FROM " + ('"t"' if d == "snowflake" else "t")
                if sql.startswith("SELECT ") and sql.endswith(tail):
                    got = unalias(sql[len("SELECT "):-len(tail)])
            if d == "sqlite":
                sqlite_emit[n] = got
            if got is None:
                ck.violation("column reference to %r does not compile to SELECT <ident> FROM t for %s" % (n, d), {"kind": "emit-shape", "name": n, "dialect": d, "answer": a})
                continue
            ck.stat("emit-model", "bare" if got == n else "quoted")
            if model is not None:
                m = model[(d, n)]
                mv = s_of(m[1]) if isinstance(m, tuple) and m[0] == "Some" else None
                if mv != got:
                    ck.violation("emit_ident model differs from prqlc for %r on %s: model %r, prqlc %r" % (n, d, mv, got),
                                 {"kind": "emit-model", "name": n, "dialect": d, "model": mv, "impl": got})

    # what the emitted text denotes for a lower-folding engine (postgres), a case-preserving one (clickhouse, backtick)
    # and sqlite, according to the reading-side model, run on prqlc's OWN output
    den_cases = []
    k = 0
    for ni, n in enumerate(names):
        for d in EM_D[n]:
            a = cans[k]; k += 1
            if d in ("postgres", "clickhouse", "sqlite", "mysql") and "ok" in a:
                sql = a["ok"]
                if sql.startswith("SELECT ") and sql.endswith(" FROM t"):
                    den_cases.append((n, d, unalias(sql[len("SELECT "):-len(" FROM t")])))
    try:
        B = 200
        fk = {"postgres": "FoldLower", "clickhouse": "FoldNone", "sqlite": "FoldNone", "mysql": "FoldNone"}
        qk = {"postgres": 34, "clickhouse": 96, "sqlite": 34, "mysql": 96}
        exprs = ["[" + "; ".join("ident_denotes %s %d %s" % (fk[d], qk[d], coq_codes(txt)) for n, d, txt in den_cases[i:i + B]) + "]" for i in range(0, len(den_cases), B)]
        dvals = [x for v in coq_eval(HEADER, exprs) for x in v]
        for (n, d, txt), m in zip(den_cases, dvals):
            ck.count("denotes", d + "|" + n)
            mv = s_of(m[1]) if isinstance(m, tuple) and m[0] == "Some" else None
            if mv != n:
                ck.disagreement("on %s the text %r emitted for the name %r denotes %r" % (d, txt, n, mv), {"kind": "denotes", "names": [n], "dialect": d, "text": txt, "denotes": mv}, cl_names)
    except RuntimeError as ex:
        ck.coverage["model_eval_error_den"] = str(ex)[-400:]

    # REGRESSION GUARD for C09-N1 / C09-N2 (fixed): the default of prqlc (Options::format = true, `prqlc compile` without
    # --no-format) runs the SQL text through the sqlformat crate, and since fdf832c keeps its output only if it has the same
    # tokens.  Every name family x format=true: the formatted text must have the same tokens (Model/SqlLex.v) as the unformatted
    # one -- single names (names with a character outside [a-z0-9_] on all 12 dialects, the others on 3), keywords, paths (below),
    # and the programs of the end-to-end stream (section 3: the formatted SQL is executed too).
    def fmt_dialects(n):
        risky = any(ch in n for ch in "\\\"'`$.;-/* \t")       # the characters SQL formatters have opinions about
        if ck.thorough:
            return DIALECTS
        h = sum(map(ord, n))
        return ["sqlite", DIALECTS[h % 12], DIALECTS[(h // 12 + 5) % 12]] if risky else ["sqlite"]     # quick: sqlite + two rotating
    fcases = [(n, d) for n in names for d in fmt_dialects(n)]
    freqs = [{"src": "from t | select {this.%s, y = 1}" % bt(n), "target": "sql." + d, "format": f} for n, d in fcases for f in (False, True)]
    fans = harness("compile", freqs)
    HL = "From Coq Require Import List NArith.\nFrom PV Require Import Lib.ListX Model.SqlLex.\nImport ListNotations.\nLocal Open Scope N_scope.\n"   # no Gen file needed

    def same_tokens_stream(stream, pairs, what):
        """pairs: (key, dialect, unformatted, formatted)"""
        try:
            B = 40
            fv = [x for v in coq_eval(HL, ["[" + "; ".join("(map tok_view (sql_lex std_sql %s), map tok_view (sql_lex std_sql %s))" % (coq_codes(u), coq_codes(f)) for _, _, u, f in pairs[i:i + B]) + "]"
                                           for i in range(0, len(pairs), B)]) for x in v]
            for (key, d, u, f), (tu, tf) in zip(pairs, fv):
                ck.count(stream, d + "|" + str(key), nontrivial=(u.strip() != f.strip()))
                ck.stat(stream, "formatted" if u.strip() != f.strip() else "kept unformatted (tokens would change)")
                if tu != tf:
                    ck.disagreement("formatting changes the tokens of the SQL for the %s %r on %s: %r -> %r" % (what, key, d, u, f),
                                    {"kind": stream, "names": key if isinstance(key, list) else [key], "dialect": d, "unformatted": u, "formatted": f}, cl_names)
        except RuntimeError as ex:
            ck.coverage["model_eval_error_" + stream] = str(ex)[-400:]

    pairs = []
    for k, (n, d) in enumerate(fcases):
        a0, a1 = fans[2 * k], fans[2 * k + 1]
        if "ok" in a0 and "ok" in a1:
            pairs.append((n, d, a0["ok"], a1["ok"]))
        else:
            ck.violation("select of %r with / without formatting does not compile for %s" % (n, d), {"kind": "format-tokens", "name": n, "dialect": d, "answers": [a0, a1]})
    same_tokens_stream("format-tokens", pairs, "name")

    # multi-part names (translate_ident): model emit_path vs prqlc for `from P1.P2[.P3] | select {this.C}`, all dialects;
    # the reading-side model must read prqlc's own text back as exactly the parts
    pnames = ["a", "A", "a.b", ".", "a b", 'a"b', "a`b".replace("`", "'"), "select", "é", "table_0", "$a", "a$", "x.y.z", "1a", "_", "user", "..", "a.", ".a"]
    paths = [[x, y] for x in pnames for y in pnames]
    paths += [[x, y, z] for x, y, z in (ck.rng.sample(pnames, 3) for _ in range(ck.n(120, 1500)))]
    pdial = DIALECTS if ck.thorough else ["sqlite", "postgres", "mysql", "snowflake"]
    preqs = [{"src": "from %s | select {this.`c`}" % ".".join(bt(x) for x in pt), "target": "sql." + d} for pt in paths for d in pdial]
    pans = harness("compile", preqs)
    fpaths = [(pt, d) for pt in paths for d in ("sqlite", "postgres", "mysql")]
    if not ck.thorough:
        fpaths = ck.rng.sample(fpaths, 400)
    fpans = harness("compile", [{"src": "from %s | select {this.`c`}" % ".".join(bt(x) for x in pt), "target": "sql." + d, "format": f} for pt, d in fpaths for f in (False, True)])
    same_tokens_stream("format-tokens-path", [(pt, d, fpans[2 * k]["ok"], fpans[2 * k + 1]["ok"]) for k, (pt, d) in enumerate(fpaths) if "ok" in fpans[2 * k] and "ok" in fpans[2 * k + 1]], "path")
    try:
        B = 60
        HP = HEADER + "Definition emp (d : str) (p : list str) := emit_path_row ident_start ident_rest common_keywords dialect_keywords ident_dialects d p.\n"
        pex = ["map (emp %s) [%s]" % (coq_codes(d), "; ".join("[" + "; ".join(coq_codes(x) for x in pt) + "]" for pt in paths[i:i + B])) for d in pdial for i in range(0, len(paths), B)]
        pv = coq_eval(HP, pex)
        pmodel = {}
        k = 0
        for d in pdial:
            out = []
            for i in range(0, len(paths), B):
                out += pv[k]; k += 1
            pmodel[d] = out
        k = 0
        back = []
        for pi, pt in enumerate(paths):
            for d in pdial:
                a = pans[k]; k += 1
                ck.count("path-model", d + "|" + "\x00".join(pt))
                m = pmodel[d][pi]
                mv = s_of(m[1]) if isinstance(m, tuple) and m[0] == "Some" else None
                csel = '"c"' if d == "snowflake" else "c"
                got = a["ok"][len("SELECT %s FROM " % csel):] if "ok" in a and a["ok"].startswith("SELECT %s FROM " % csel) else None
                if got is None or mv != got:
                    ck.violation("emit_path model differs from prqlc for %r on %s: model %r, prqlc %r" % (pt, d, mv, got if got is not None else a),
                                 {"kind": "path-model", "parts": pt, "dialect": d, "model": mv, "impl": got, "answer": None if got is not None else a})
                elif d in ("sqlite", "postgres", "mysql") and (ck.thorough or (pi + len(d)) % 2 == 0):
                    back.append((pt, d, got))
        fk = {"postgres": "FoldLower", "sqlite": "FoldNone", "mysql": "FoldNone"}
        qk = {"postgres": 34, "sqlite": 34, "mysql": 96}
        B = 150
        bv = [x for v in coq_eval(HEADER, ["[" + "; ".join("path_denotes %s %d %s" % (fk[d], qk[d], coq_codes(txt)) for _, d, txt in back[i:i + B]) + "]" for i in range(0, len(back), B)]) for x in v]
        for (pt, d, txt), m in zip(back, bv):
            ck.count("path-denotes", d + "|" + txt)
            mv = [s_of(x) for x in m[1]] if isinstance(m, tuple) and m[0] == "Some" else None
            if mv != pt:
                ck.violation("on %s the text %r emitted for the path %r reads back as %r" % (d, txt, pt, mv), {"kind": "path-denotes", "parts": pt, "dialect": d, "text": txt, "denotes": mv})
    except RuntimeError as ex:
        ck.coverage["model_eval_error_path"] = str(ex)[-400:]

    # the qualified wildcard `alias.*` (gen_projection.rs): model emit_qualified_star vs prqlc, the alias being every name
    sdial = DIALECTS if ck.thorough else ["sqlite", "mysql", "snowflake"]
    sreqs = [{"src": "from %s = t | join u (==k) | select {%s.*, u.k}" % (bt(n), bt(n)), "target": "sql." + d} for n in names for d in sdial]
    sans = harness("compile", sreqs)
    try:
        B = 100
        HS = HEADER + "Definition ems (d : str) (p : list str) := emit_qualified_star_row ident_start ident_rest common_keywords dialect_keywords ident_dialects d p.\n"
        sv = coq_eval(HS, ["map (fun s => ems %s [s]) [%s]" % (coq_codes(d), "; ".join(coq_codes(n) for n in names[i:i + B])) for d in sdial for i in range(0, len(names), B)])
        smodel = {}
        k = 0
        for d in sdial:
            out = []
            for i in range(0, len(names), B):
                out += sv[k]; k += 1
            smodel[d] = out
        k = 0
        star_back = []
        for ni, n in enumerate(names):
            for d in sdial:
                a = sans[k]; k += 1
                if "ok" not in a:
                    ck.stat("star-model", "rejected (alias spelled like a name in scope)" if "err" in a else "no answer")
                    if "err" not in a:
                        ck.violation("qualified wildcard of alias %r does not compile for %s" % (n, d), {"kind": "star-model", "name": n, "dialect": d, "answer": a})
                    continue
                ck.count("star-model", d + "|" + n)
                m = smodel[d][ni]
                mv = s_of(m[1]) if isinstance(m, tuple) and m[0] == "Some" else None
                if mv is None or not a["ok"].startswith("SELECT " + mv + ", "):
                    ck.violation("emit_qualified_star model differs from prqlc for alias %r on %s: model %r, prqlc %r" % (n, d, mv, a["ok"][:120]),
                                 {"kind": "star-model", "name": n, "dialect": d, "model": mv, "impl": a["ok"]})
                elif d in ("sqlite", "postgres", "mysql"):
                    star_back.append((n, d, mv))
        fk = {"postgres": "FoldLower", "sqlite": "FoldNone", "mysql": "FoldNone"}
        qk = {"postgres": 34, "sqlite": 34, "mysql": 96}
        B = 150
        bv = [x for v in coq_eval(HEADER, ["[" + "; ".join("qualified_star_denotes %s %d %s" % (fk[d], qk[d], coq_codes(txt)) for _, d, txt in star_back[i:i + B]) + "]" for i in range(0, len(star_back), B)]) for x in v]
        for (n, d, txt), m in zip(star_back, bv):
            ck.count("star-denotes", d + "|" + txt)
            mv = [s_of(x) for x in m[1]] if isinstance(m, tuple) and m[0] == "Some" else None
            if mv != [n]:
                ck.violation("on %s the text %r emitted for the wildcard of %r reads back as %r" % (d, txt, n, mv), {"kind": "star-denotes", "name": n, "dialect": d, "text": txt, "denotes": mv})
    except RuntimeError as ex:
        ck.coverage["model_eval_error_star"] = str(ex)[-400:]

    # keywords must come out quoted, in every letter case, for every dialect (redshift's own list: for redshift):
    # judged on prqlc's output alone (no model needed)
    qchar = {d: ("`" if d in ("bigquery", "clickhouse", "mysql") else '"') for d in DIALECTS}
    if "dialects" in dinfo:
        qchar = {n: chr(q) for n, q, _ in dinfo["dialects"]}
    kreqs, kmeta = [], []
    for w in sorted(kw_common | kw_redshift):
        for form in (w.lower(), w.capitalize()) if not ck.thorough else (w.lower(), w, w.capitalize()):
            for d in DIALECTS:
                if w in kw_common or d == "redshift":
                    kreqs.append({"src": "from t | select {this.%s}" % bt(form), "target": "sql." + d}); kmeta.append((form, d))
    for (form, d), a in zip(kmeta, harness("compile", kreqs)):
        ck.count("keyword-quoted", d + "|" + form)
        sql = a.get("ok", "")
        body = unalias(sql[len("SELECT "):sql.rfind(" FROM ")]) if sql.startswith("SELECT ") else None
        if body is None or not (body.startswith(qchar.get(d, '"')) and body.endswith(qchar.get(d, '"'))):
            ck.disagreement("the keyword %r is not quoted for %s: %r" % (form, d, sql or a), {"kind": "keyword-quoted", "names": [form], "dialect": d, "sql": sql or str(a)[:200]}, cl_names)

    # quote doubling: model emit_quoted vs sqlparser Ident Display, exhaustive short strings
    qalpha = ['"', "`", "\\", "a", "'", " "]
    qstrings = ["".join(t) for n in range(0, ck.n(4, 5) + 1) for t in itertools.product(qalpha, repeat=n)]
    for q, qc in (('"', 34), ("`", 96)):
        impl = harness("escape", [{"s": s, "quote": q} for s in qstrings])                          # sqlparser alone (dependency)
        impl2 = harness("escape", [{"s": s.replace(q, q + q), "quote": q} for s in qstrings])       # what prqlc does now: pre-doubled
        try:
            B = 200
            vals = coq_eval(HEADER, ["map (fun s => (emit_quoted %d s, emit_ident_quoted %d s)) [%s]" % (qc, qc, "; ".join(coq_codes(s) for s in qstrings[i:i + B])) for i in range(0, len(qstrings), B)])
            mq = [(s_of(x[0]), s_of(x[1])) for v in vals for x in v]
            for s, m, a, a2 in zip(qstrings, mq, impl, impl2):
                ck.count("quote-model", q + "|" + s, nontrivial=(q in s))
                if m[0] != a["ident"]:
                    ck.violation("model of Ident Display differs from sqlparser for %r" % s, {"kind": "quote-model", "s": s, "quote": q, "model": m[0], "impl": a["ident"]})
                if m[1] != a2["ident"]:
                    ck.violation("model emit_ident_quoted differs from pre-doubling + sqlparser for %r" % s, {"kind": "quote-model2", "s": s, "quote": q, "model": m[1], "impl": a2["ident"]})
        except RuntimeError as ex:
            ck.coverage["model_eval_error_q"] = str(ex)[-400:]

    # ------------------------------------------------------------ 2. keywords of the executing engine are usable when written in PRQL
    # (every SQLite keyword as a column name; executed in section 3 through the generic machinery)
    eng = [w.lower() for w in (kinfo.get("sqlite_engine") or sorted(kw_common))]
    kw_names = list(dict.fromkeys([w for w in eng if not w.isalpha()] + eng[:: ck.n(5, 1)]))

    # ------------------------------------------------------------ 3. end to end on SQLite
    PERM = [lambda r: r, lambda r: 5 - r, lambda r: (r * 2) % 5, lambda r: (r * 3) % 5, lambda r: (r * 4) % 5]

    def table_rows(cols, offset):
        """rows 1..4; value of column j in row r = offset + 1000*(j+1) + PERM[j](r); column 0 is the join key r"""
        out = []
        for r in range(1, 5):
            row = {}
            for j, c in enumerate(cols):
                row[c] = r if j == 0 else offset + 1000 * (j + 1) + PERM[j % 5](r)
            out.append(row)
        return out

    def ddl(tname, cols, rows):
        st = ["CREATE TABLE %s (%s)" % (dq(tname), ", ".join(dq(c) + " INTEGER" for c in cols))]
        for row in rows:
            st.append("INSERT INTO %s VALUES (%s)" % (dq(tname), ", ".join(str(row[c]) for c in cols)))
        return st

    def distinct_names(base, avoid):
        out = []
        for b in base:
            c = b
            i = 0
            while fold(c) in avoid:
                i += 1
                c = b + str(i)
            avoid.add(fold(c)); out.append(c)
        return out

    DECOYS = [dinfo.get("table_prefix", "table_") + str(i) for i in range(4)]
    tests = []      # dict(src, setup, expected(multiset of tuples), names, skeleton, position)

    def add_test(skeleton, position, T, U, alias_t, alias_u, K, C1, C2, C3, extra_cols=(), perm=None, ucols=(), dup=None):
        cols_t = [K, C1, C2, C3] + [c for c in extra_cols]
        cols_u = [K, C1, C2, C3]
        rt, ru = table_rows(cols_t, 0), table_rows(cols_u, 100000)
        setup = ddl(T, cols_t, rt) + ddl(U, cols_u, ru)
        # decoys: tables named like generated CTE names, with the same columns and different values
        for dn in DECOYS:
            if fold(dn) not in (fold(T), fold(U)):
                setup += ddl(dn, cols_t, table_rows(cols_t, 500000))
        tT, tU = bt(T), bt(U)
        refT = bt(alias_t) if alias_t else tT
        refU = bt(alias_u) if alias_u else tU
        fromT = ("%s = %s" % (bt(alias_t), tT)) if alias_t else tT
        joinU = ("%s = %s" % (bt(alias_u), tU)) if alias_u else tU
        c = lambda n: "this." + bt(n)
        srt = lambda rows, col: sorted(rows, key=lambda r: r[col])
        if skeleton == "select":
            src = "from %s | select {%s, %s}" % (fromT, c(C1), c(C2))
            exp = [(r[C1], r[C2]) for r in rt]
        elif skeleton == "split1":
            src = "from %s | sort %s | take 3 | filter %s != null | derive {z = %s} | select {%s, %s, z}" % (fromT, c(C1), c(C2), c(C1), c(C1), c(C2))
            exp = [(r[C1], r[C2], r[C1]) for r in srt(rt, C1)[:3]]
        elif skeleton == "split1-declared":
            src = "from %s | select {%s, %s, %s} | sort %s | take 3 | filter %s != null | select {%s, %s}" % (fromT, c(C1), c(C2), c(C3), c(C2), c(C3), c(C1), c(C3))
            exp = [(r[C1], r[C3]) for r in srt(rt, C2)[:3]]
        elif skeleton == "split2":
            src = ("from %s | select {%s, %s, %s} | sort %s | take 3 | filter %s != null | sort %s | take 2 | filter %s != null | select {%s, %s}"
                   % (fromT, c(C1), c(C2), c(C3), c(C1), c(C2), c(C3), c(C1), c(C1), c(C3)))
            exp = [(r[C1], r[C3]) for r in srt(srt(rt, C1)[:3], C3)[:2]]
        elif skeleton == "split3":
            src = ("from %s | select {%s, %s, %s} | sort %s | take 3 | filter %s != null | sort %s | take 2 | filter %s != null | sort %s | take 1 | filter %s != null | select {%s, %s, %s}"
                   % (fromT, c(C1), c(C2), c(C3), c(C1), c(C2), c(C3), c(C1), c(C2), c(C3), c(C1), c(C2), c(C3)))
            exp = [(r[C1], r[C2], r[C3]) for r in srt(srt(srt(rt, C1)[:3], C3)[:2], C2)[:1]]
        elif skeleton == "sortexpr":
            src = "from %s | select {%s, %s} | sort (%s + %s) | take 2 | filter %s != null | select {%s, %s}" % (fromT, c(C1), c(C2), c(C1), c(C2), c(C1), c(C1), c(C2))
            exp = [(r[C1], r[C2]) for r in sorted(rt, key=lambda r: r[C1] + r[C2])[:2]]
        elif skeleton == "join":
            src = "from %s | join %s (==%s) | select {%s.%s, %s.%s}" % (fromT, joinU, bt(K), refT, bt(C1), refU, bt(C2))
            exp = [(a[C1], b[C2]) for a in rt for b in ru if a[K] == b[K]]
        elif skeleton == "join-split":
            src = ("from %s | join %s (==%s) | select {x1 = %s.%s, x2 = %s.%s} | sort x1 | take 3 | filter x2 != null | select {x1, x2}"
                   % (fromT, joinU, bt(K), refT, bt(C1), refU, bt(C2)))
            j = [(a[C1], b[C2]) for a in rt for b in ru if a[K] == b[K]]
            exp = sorted(j)[:3]
        elif skeleton == "selfjoin":
            # two instances of one table in one SELECT: the second needs a generated alias (RelVarNameAssigner)
            src = "from %s | join %s (==%s) | select {%s.%s, %s.%s}" % (fromT, tT, bt(K), refT, bt(C1), refT, bt(C2))
            exp = [(r[C1], r[C2]) for r in rt]
        elif skeleton == "join-selfjoin":
            # a second table first, then a second instance of the first table: the generated alias must avoid BOTH
            src = "from %s | join %s (==%s) | join side:left %s (this.%s.%s == that.%s.%s)" % (fromT, joinU, bt(K), tT, refT, bt(K), tT, bt(K))
            exp = [tuple(a[x] for x in cols_t) + tuple(b[x] for x in cols_u) + tuple(a[x] for x in cols_t) for a in rt for b in ru if a[K] == b[K]]
        elif skeleton == "join-sub":
            # an unnamed sub-pipeline as join operand: needs a generated CTE name (assign_names)
            src = "from %s | join (from %s | select {%s, %s} | take 4) (==%s) | select {%s.%s, %s}" % (fromT, tU, c(K), c(C2), bt(K), refT, bt(C1), c(C2))
            exp = [(a[C1], b[C2]) for a in rt for b in ru if a[K] == b[K]]
        elif skeleton == "append-sub":
            # both operands need ORDER BY / LIMIT, so each is wrapped: SELECT * FROM (...) AS <AnchorContext::gen_table_name>
            src = "from %s | select {%s, %s} | sort %s | take 3 | append (from %s | select {%s, %s} | sort %s | take 2)" % (fromT, c(C1), c(C2), c(C1), tU, c(C1), c(C2), c(C1))
            exp = [(r[C1], r[C2]) for r in srt(rt, C1)[:3]] + [(r[C1], r[C2]) for r in srt(ru, C1)[:2]]
        elif skeleton == "append-sub-split":
            src = ("from %s | select {%s, %s} | sort %s | take 3 | append (from %s | select {%s, %s} | sort %s | take 2) | sort %s | take 4 | filter %s != null"
                   % (fromT, c(C1), c(C2), c(C1), tU, c(C1), c(C2), c(C1), c(C2), c(C1)))
            exp = sorted([(r[C1], r[C2]) for r in srt(rt, C1)[:3]] + [(r[C1], r[C2]) for r in srt(ru, C1)[:2]], key=lambda x: x[1])[:4]
        elif skeleton == "schema-path":
            # a two-part table name: SQLite's schema `main` + the table (translate_ident joins the parts with a dot)
            src = "from main.%s | select {%s, %s}" % (tT, c(C1), c(C2))
            exp = [(r[C1], r[C2]) for r in rt]
        elif skeleton == "group":
            src = "from %s | group {%s} (aggregate {n = sum %s}) | select {%s, n}" % (fromT, c(C1), c(C2), c(C1))
            exp = [(r[C1], r[C2]) for r in rt]
        elif skeleton == "split-dup-perm":
            # directed family: at a sub-query split the select list holds two equally named columns (column `dup` of both join
            # sides) and user columns spelled like the names the generator hands out next, in the relative order `perm`
            items = ["%s.%s" % (refT, bt(dup)), "%s.%s" % (refU, bt(dup))] + ["%s.%s" % (refT, bt(u)) for u in ucols]
            sel = ", ".join(items[i] for i in perm)
            flt = " && ".join("%s > 1000" % c(u) for u in ucols)       # markers are > 1000, join keys are 1..4
            # no trailing select: it would prune the duplicates away before the split.  Values are compared by position
            # (the names of the result columns are C05's business: the renamed duplicate / user column shows up as _expr_N)
            src = "from %s | join %s (==%s) | select {%s} | take 4 | filter %s" % (fromT, joinU, bt(K), sel, flt)
            vals = lambda a, b: [a[dup], b[dup]] + [a[u] for u in ucols]
            exp = [tuple(vals(a, b)[i] for i in perm) for a in rt for b in ru if a[K] == b[K]]
        elif skeleton == "dup-final-perm":
            # the same select list as split-dup-perm WITHOUT a split: translate_select_item invents an alias for the duplicate
            # (fix 755de8e: regenerated until it differs from every column name in use); the user's columns must keep their
            # names in the result and be the only columns of that name
            items = ["%s.%s" % (refT, bt(dup)), "%s.%s" % (refU, bt(dup))] + ["%s.%s" % (refT, bt(u)) for u in ucols]
            sel = ", ".join(items[i] for i in perm)
            src = "from %s | join %s (==%s) | select {%s}" % (fromT, joinU, bt(K), sel)
            vals = lambda a, b: [a[dup], b[dup]] + [a[u] for u in ucols]
            exp = [tuple(vals(a, b)[i] for i in perm) for a in rt for b in ru if a[K] == b[K]]
            name_at = {pos: ucols[i - 2] for pos, i in enumerate(perm) if i >= 2}
        elif skeleton == "split-dup":
            # two columns with the same name at a split (the join key of both sides) next to a column named C1
            src = "from %s | join %s (==%s) | select {%s.%s, %s.%s, %s.%s} | take 4 | filter %s > 0 | select {%s}" % (
                fromT, joinU, bt(K), refT, bt(C1), refT, bt(K), refU, bt(K), c(C1), c(C1))
            exp = [(a[C1],) for a in rt]
        else:
            raise ValueError(skeleton)
        tests.append({"src": src, "setup": setup, "expected": sorted(exp), "name_at": name_at if skeleton == "dup-final-perm" else None, "names": [n for n in (T, U, alias_t, alias_u, K, C1, C2, C3) if n], "skeleton": skeleton, "position": position,
                      "cols": [K, C1, C2, C3], "tables": [T, U, alias_t, alias_u]})

    SKELS = ["select", "split1", "split1-declared", "split2", "split3", "sortexpr", "join", "join-split", "group", "selfjoin", "join-sub", "join-selfjoin", "append-sub", "append-sub-split", "schema-path"]
    for i, n in enumerate(names + kw_names):
        av = {fold(n)}
        T, U, K, C1, C2, C3 = distinct_names(["tt", "uu", "kk", "p", "q", "r"], av)
        # the name as a column, in every column position of two skeletons
        for sk in (SKELS[i % len(SKELS)], SKELS[(i // len(SKELS) + 3) % len(SKELS)]):
            rot = i % 3
            cols = [n, C2, C3] if rot == 0 else ([C1, n, C3] if rot == 1 else [C1, C2, n])
            add_test(sk, "column", T, U, None, None, K, cols[0], cols[1], cols[2])
        if n in kw_names and n not in names:
            continue
        # as the join key
        if i % 4 == 0:
            add_test("join", "key", T, U, None, None, n, C1, C2, C3)
        # as a table name
        add_test(SKELS[(i + 1) % len(SKELS)], "table", n, U, None, None, K, C1, C2, C3)
        if i % 2 == 0:
            add_test("join" if i % 4 == 0 else "join-split", "table2", T, n, None, None, K, C1, C2, C3)
        # as an alias
        add_test(["select", "split1", "join", "join-split", "split2"][i % 5], "alias", T, U, n, None, K, C1, C2, C3)
        if i % 3 == 0:
            add_test("join", "alias2", T, U, None, n, K, C1, C2, C3)
    # user objects literally named like generated ones, together, in every skeleton, with and without declaring the columns
    tp, cp = dinfo.get("table_prefix", "table_"), dinfo.get("col_prefix", "_expr_")      # what the generators produce NOW
    for sk in SKELS:
        add_test(sk, "generated-like", tp + "0", tp + "1", None, None, cp + "2", cp + "0", cp + "1", "c")
        add_test(sk, "generated-like", tp + "1", tp + "0", None, None, "k", cp + "1", cp + "0", cp + "2")
        add_test(sk, "generated-like", "t", "u", tp + "0", tp + "1", "k", cp + "0", "b", cp + "1")
        add_test(sk, "generated-like", tp + "0", "u", tp + "1", tp + "0", "k", "a", cp + "0", "c")
        add_test(sk, "generated-like", tp + "2", tp + "1", None, None, "k", cp + "0", cp + "2", cp + "1")
        add_test(sk, "generated-like", "t", tp + "0", None, None, "k", "a", "b", "c")
        add_test(sk, "generated-like", "t", tp + "1", None, tp + "0", "k", "a", cp + "0", "c")
    # F33 (fixed by 99a89d3): user tables / aliases that are case variants of generated table names, in the skeletons that
    # generate CTE names (split*, join-sub), FROM aliases (selfjoin, join-selfjoin) and both (join-split)
    variants = [tp[:-2].lower() + tp[-2:].upper() + "0", tp.capitalize() + "1", tp.upper() + "0", tp.upper() + "2"]
    for vi, vn in enumerate(variants):
        other = variants[(vi + 1) % len(variants)]
        for sk in ("split3", "split2", "selfjoin", "join-selfjoin", "join-sub", "join-split", "append-sub", "append-sub-split"):
            add_test(sk, "table", vn, "u", None, None, "k", "a", "b", "c")
            add_test(sk, "table", vn, other, None, None, "k", "a", "b", "c")
            add_test(sk, "alias", "t", "u", vn, None, "k", "a", "b", "c")
            add_test(sk, "alias", "t", "u", vn, other, "k", "a", "b", "c")
            add_test(sk, "table2", "t", vn, None, None, "k", "a", "b", "c")
            # the case variant is a TABLE that the program refers to through plain aliases only
            add_test(sk, "table", vn, "u", "x", None, "k", "a", "b", "c")
            add_test(sk, "table2", "t", vn, "x", "y", "k", "a", "b", "c")
    # F33b (open): a user COLUMN that is a case variant of a generated column name, next to a duplicate that the split
    # renames to that generated name: every relative order (the reference binds to the first of the two on SQLite)
    for uc in (cp.upper() + "0", cp.capitalize() + "0"):
        for pm in itertools.permutations(range(3)):
            add_test("split-dup-perm", "generated-like", "t", "u", None, None, "k", uc, "b", "c", perm=pm, ucols=[uc], dup="k")
    # duplicate names at a split together with user columns named like the next generated names, every relative order,
    # the duplicate being the join key or an ordinary column, with 1..3 such user columns (also starting at _expr_1)
    for ucols in ([cp + "0"], [cp + "0", cp + "1"], [cp + "1", cp + "0"], [cp + "1"], [cp + "0", cp + "1", cp + "2"]):
        n_items = 2 + len(ucols)
        perms = list(itertools.permutations(range(n_items)))
        if n_items > 4:
            perms = ck.rng.sample(perms, ck.n(16, 60))
        for dupcol in ("k", "b"):
            for pm in perms:
                if dupcol == "k":
                    add_test("split-dup-perm", "generated-like", "t", "u", None, None, "k", ucols[0], "b" if len(ucols) < 2 else ucols[1], "c" if len(ucols) < 3 else ucols[2], perm=pm, ucols=ucols, dup="k")
                    add_test("dup-final-perm", "generated-like", "t", "u", None, None, "k", ucols[0], "b" if len(ucols) < 2 else ucols[1], "c" if len(ucols) < 3 else ucols[2], perm=pm, ucols=ucols, dup="k")
                elif len(ucols) <= 2:
                    add_test("split-dup-perm", "generated-like", "t", "u", None, None, "k", ucols[0], "b", "c" if len(ucols) < 2 else ucols[1], perm=pm, ucols=ucols, dup="b")
    for c1 in (cp + "0", cp + "1", "a", cp + "2"):
        add_test("split-dup", "generated-like", "t", "u", None, None, "k", c1, "b", "c")

    comp = harness("compile", [{"src": t["src"], "target": "sql.sqlite"} for t in tests])
    ex_reqs, ex_idx = [], []
    for i, (t, a) in enumerate(zip(tests, comp)):
        if "ok" in a:
            ex_reqs.append({"setup": t["setup"], "sql": a["ok"]}); ex_idx.append(i)
    ex_ans = dict(zip(ex_idx, harness("exec", ex_reqs)))
    rejected = 0
    for i, (t, a) in enumerate(zip(tests, comp)):
        ck.count("e2e-sqlite", t["src"])
        ck.stat("e2e-sqlite", t["skeleton"] + "/" + t["position"])
        case = {"kind": "e2e", "src": t["src"], "names": t["names"], "skeleton": t["skeleton"], "position": t["position"], "cols": t["cols"]}
        if "ok" not in a:
            reasons = " ".join(e.get("reason", "") for e in a.get("err", [])) if "err" in a else json.dumps(a)[:300]
            # a table / alias spelled like a PRQL function or module in scope (select, from, ...) is rejected by the resolver
            # before any SQL exists: not an identifier-translation question
            if "err" in a and t["position"] in ("table", "table2", "alias", "alias2") \
               and ("expected type `relation`" in reasons or "expected a value, but found a type" in reasons or "unexpected `func" in reasons):
                rejected += 1
                ck.stat("e2e-sqlite", "rejected-by-resolver(std name as table)")
                continue
            case["compile"] = reasons[:400]
            ck.disagreement("program with names %s does not compile: %s" % (t["names"], reasons[:200]), case, cl_names)
            continue
        case["sql"] = a["ok"]
        r = ex_ans[i]
        if "rows" not in r and any(fold(n) in ("true", "false") for n in t["cols"]) and "WITH" in a["ok"]:
            ck.stat("e2e-sqlite", "sqlite-quirk(column named true/false through a sub-query)")
            continue
        if "rows" not in r:
            case["exec"] = r
            ck.disagreement("SQL for names %s does not run on SQLite: %s" % (t["names"], json.dumps(r)[:200]), case, cl_names)
            continue
        got = sorted(tuple(x) for x in r["rows"])
        if got != [tuple(x) for x in t["expected"]] and any(fold(n) in ("true", "false") for n in t["cols"]) and "WITH" in a["ok"]:
            # oracle-engine quirk, not prqlc: SQLite names the sub-query result column of "true" / "false" column<N>, so the
            # (correctly quoted) outer reference "true" falls back to a string literal.  Same SQL is right on the standard.
            ck.stat("e2e-sqlite", "sqlite-quirk(column named true/false through a sub-query)")
            continue
        if t["name_at"] and got == [tuple(x) for x in t["expected"]]:
            rc = r.get("cols", [])
            bad = [(pos, nm) for pos, nm in t["name_at"].items() if pos >= len(rc) or rc[pos] != nm or rc.count(nm) != 1]
            if bad:
                case["result_columns"] = rc
                ck.disagreement("names %s: the result columns are %s; the user's column(s) %s must keep their name and be the only ones called so" % (t["names"], rc, [nm for _, nm in bad]), case, cl_names)
                continue
        if got != [tuple(x) for x in t["expected"]]:
            case["got"] = got[:6]; case["expected"] = t["expected"][:6]
            ck.disagreement("names %s: the query returns %s, the named objects hold %s" % (t["names"], got[:3], t["expected"][:3]), case, cl_names)
        elif len(ck.coverage["samples"]) < 10 and i % 397 == 0:
            ck.sample({"prql": t["src"], "sql": a["ok"], "rows": got[:2]})
    # ------------------------------------------------------------ 3b. the same programs with formatting on (the default)
    # every program with a name containing a character SQL formatters have opinions about, every directed generated-name program
    # and every 6th (quick) / every one (thorough) of the rest:
    # the formatted SQL must run and return what the unformatted SQL returns (columns and rows)
    def plain_name(n):
        return all(("a" <= ch <= "z") or ("0" <= ch <= "9") or ch == "_" for ch in n)
    fidx = [i for i, t_ in enumerate(tests) if "ok" in comp[i] and "rows" in ex_ans.get(i, {}) and
            (t_["position"] == "generated-like" or (any(ch in n for n in t_["names"] for ch in "\\\"'$.;-/*") and i % ck.n(2, 1) == 0) or i % ck.n(6, 1) == 0)]
    fcomp = harness("compile", [{"src": tests[i]["src"], "target": "sql.sqlite", "format": True} for i in fidx])
    fex_i = [k for k, a in enumerate(fcomp) if "ok" in a]
    fex = dict(zip(fex_i, harness("exec", [{"setup": tests[fidx[k]]["setup"], "sql": fcomp[k]["ok"]} for k in fex_i])))
    for k, i in enumerate(fidx):
        ck.count("e2e-formatted", tests[i]["src"], nontrivial=("ok" in fcomp[k] and fcomp[k]["ok"].strip() != comp[i]["ok"].strip()))
        case = {"kind": "e2e-formatted", "src": tests[i]["src"], "names": tests[i]["names"], "cols": tests[i]["cols"], "sql": comp[i]["ok"], "formatted": fcomp[k].get("ok")}
        r0, r1 = ex_ans[i], fex.get(k)
        if r1 is None or "rows" not in r1:
            ck.disagreement("with formatting on the program with names %s does not compile / run: %s" % (tests[i]["names"], json.dumps(r1 if r1 is not None else fcomp[k])[:200]), case, cl_names)
        elif r1.get("cols") != r0.get("cols") or sorted(map(tuple, r1["rows"])) != sorted(map(tuple, r0["rows"])):
            ck.disagreement("with formatting on the program with names %s returns %s %s, without %s %s" % (tests[i]["names"], r1.get("cols"), r1["rows"][:2], r0.get("cols"), r0["rows"][:2]), case, cl_names)

    # ------------------------------------------------------------ 4. Model/NameGen.v vs every real call of the modelled sites
    # Verification hooks of /repo, read through the harness command `log`:
    #   verif:namegen {site, old, used, new, gen_before, gen_after}   anchor_split / assign_names / relvar steps
    #   verif:namegen-draw {site, name, accepted}                     EVERY name drawn from the table-name generator
    #   verif:namegen-state {site, at, table_gen, reserved}           generator state around assign_names
    #   verif:pq-names {.., reserved, reserved_columns?}              the reserved sets
    #   verif:ensure_column_name / _result, verif:select_item(s), verif:anchor_split {in, mid}
    # Step level: each call against its model function with the generator state the hook logged (nothing is chained).
    # List level: the whole assign_names loop, every RelVarNameAssigner scope, every anchor_split call as ONE model run.
    directed = [i for i, t_ in enumerate(tests) if t_["position"] == "generated-like" or any(case_variant_of_generated(n, tp) or case_variant_of_generated(n, cp) for n in t_["names"])]
    rest = [i for i in range(len(tests)) if i not in set(directed)]
    hook_idx = directed + ck.rng.sample(rest, min(len(rest), ck.n(250, 4000)))
    hook_ans = harness("log", [{"src": tests[i]["src"], "target": "sql.sqlite", "want": [], "msg_prefix": "verif:"} for i in hook_idx])
    repaired = bool(dinfo.get("col_names_reserved")) if "error" not in dinfo else None     # None: ask the hook

    def opt(x):
        return "None" if x is None else "(Some %s)" % coq_codes(x)

    def lst(xs):
        return "[" + "; ".join(coq_codes(x) for x in xs) + "]"

    def optlst(xs):
        return "[" + "; ".join(opt(x) for x in xs) + "]"

    def idx_of(name, prefix):
        return int(name[len(prefix):]) if isinstance(name, str) and name.startswith(prefix) and name[len(prefix):].isdigit() else None

    def decl_term(d):
        if d == "wildcard":
            return "DWild"
        if d == "compute":
            return "DCompute"
        if d == "unnamed":
            return "(DSingle None)"
        if isinstance(d, dict) and "single" in d:
            return "(DSingle %s)" % opt(d["single"])
        if isinstance(d, dict) and "named" in d:
            return "(DSingle %s)" % opt(d["named"])
        return None

    ev_cases = {}      # coq expression -> (group, expected python value, site, program)   (deduplicated: most events repeat)
    n_events = 0
    WANT = ("load_names", "namegen", "namegen-draw", "namegen-state", "pq-names", "ensure_column_name", "ensure_column_name_result", "select_item", "select_items", "anchor_split")
    for i, a in zip(hook_idx, hook_ans):
        src_i = tests[i]["src"]
        bad = lambda what, **kw: ck.violation(what, dict({"kind": "namegen-hook", "src": src_i}, **kw))
        evs = []
        for e_ in a.get("entries", []):
            m = e_.get("Message", "")
            head, _, body = m.partition(" ")
            if head.startswith("verif:") and head[len("verif:"):] in WANT:
                try:
                    evs.append((head[len("verif:"):], json.loads(body)))
                except ValueError:
                    bad("hook message is not JSON: %r" % m[:200])
        pqn = [e for h, e in evs if h == "pq-names"]
        if "ok" not in a:
            continue                                   # rejected programs: nothing to compare
        if len(pqn) != 1:
            bad("expected exactly one verif:pq-names event, got %d" % len(pqn)); continue
        states = [e for h, e in evs if h == "namegen-state"]
        if [(s_["site"], s_["at"]) for s_ in states] != [("assign_names", "start"), ("assign_names", "end")]:
            # fail closed: the hook patch hooks/namegen-state.diff is not in this tree (or assign_names ran twice)
            bad("verif:namegen-state events missing or unexpected (hooks/namegen-state.diff not applied?): %s" % [(s_.get("site"), s_.get("at")) for s_ in states]); continue
        reserved = pqn[0]["reserved"]
        if states[0].get("reserved") != reserved:
            bad("the reserved set assign_names starts with differs from the final one", start=states[0].get("reserved"), final=reserved)
        if repaired is None:
            repaired = "reserved_columns" in pqn[0]
        if repaired and "reserved_columns" not in pqn[0]:
            bad("the source reserves column names but verif:pq-names does not report them"); continue
        creserved = pqn[0]["reserved_columns"] if repaired else []
        t_ = tests[i]
        written = {n.lower() for n in t_["tables"] if n}
        if not (set(reserved) <= written and t_["tables"][0].lower() in reserved):
            bad("reserved table names %s are not the lower-cased user names %s" % (reserved, sorted(written)), reserved=reserved)
        if repaired:
            need = {n.lower() for n in t_["cols"] if n.lower() in src_i.lower()}
            if not (need & set(creserved)) and need:
                bad("no column name of the program is among the reserved column names %s" % creserved)

        # ---- the table-name generator: every draw is logged, so its state is known exactly at every point
        draws = 0
        pos_draws = []                      # number of draws before event k
        for h, e in evs:
            pos_draws.append(draws)
            if h == "namegen-draw":
                if e["name"] != tp + str(draws):
                    bad("draw %d of the table-name generator is %r" % (draws, e["name"]), event=e)
                if e["accepted"] != (e["name"].lower() not in reserved):
                    bad("draw %r: accepted=%s but reserved=%s" % (e["name"], e["accepted"], reserved), event=e)
                draws += 1
        for k, (h, e) in enumerate(evs):
            if h == "namegen-state" and idx_of(e["table_gen"], tp) != pos_draws[k]:
                bad("table-name generator stands at %s after %d draws" % (e["table_gen"], pos_draws[k]), event=e)
            if h == "namegen" and e["site"] == "relvar" and "gen_before" not in e:
                bad("verif:namegen events carry no generator state (hooks/namegen-state.diff not applied?)"); break
            if h == "namegen" and e["site"] == "relvar" and idx_of(e["gen_after"], tp) != pos_draws[k]:
                bad("relvar: gen_after %s after %d draws" % (e["gen_after"], pos_draws[k]), event=e)
        # a direct call of AnchorContext::gen_table_name (alias of a wrapped sub-query): rejected draws, then an accepted one
        run_start = None
        for k, (h, e) in enumerate(evs):
            if h == "namegen-draw" and e["site"] == "gen_table_name":
                run_start = pos_draws[k] if run_start is None else run_start
                if e["accepted"]:
                    expr = "gen_table_name lower_ascii @TP@ %s %d" % (lst(reserved), run_start)
                    ev_cases.setdefault(expr, ("pair", (e["name"], pos_draws[k] + 1), "gen_table_name", src_i))
                    ck.stat("namegen-model", "gen_table_name/" + ("first" if run_start == pos_draws[k] else "skipped-reserved"))
                    run_start = None
                # the call has no event of its own: its result is the alias of a derived table in the emitted SQL
                import re as _re
                in_sql = _re.search(r"\) AS " + _re.escape(e["name"]) + r"(?![\w])", a["ok"]) is not None
                if in_sql != e["accepted"]:
                    bad("gen_table_name drew %r (accepted=%s) but the SQL %s it as the alias of a sub-query" % (e["name"], e["accepted"], "uses" if in_sql else "does not use"), event=e, sql=a["ok"])
        # ---- assign_names: the whole loop as one model run (list level), state from the start / end events
        an = [(k, e) for k, (h, e) in enumerate(evs) if h == "namegen" and e["site"] == "assign_names"]
        if an:
            olds, news = [e["old"] for _, e in an], [e["new"] for _, e in an]
            for j, (_, e) in enumerate(an):
                if e["used"] != sorted(news[:j]):
                    bad("assign_names step %d: used %s is not the set of names assigned before %s" % (j, e["used"], sorted(news[:j])), event=e)
            expr = "assign_names lower_ascii @TP@ %s %s [] %d" % (lst(reserved), optlst(olds), idx_of(states[0]["table_gen"], tp))
            ev_cases.setdefault(expr, ("listpair", (news, idx_of(states[1]["table_gen"], tp)), "assign_names(list)", src_i))
            ck.stat("namegen-model", "assign_names(list)/%d decls" % min(len(an), 6))
        # ---- RelVarNameAssigner: each step with its logged state; each scope (one atomic pipeline) as one model run
        scopes = []                                     # open scopes: list of events
        for k, (h, e) in enumerate(evs):
            if not (h == "namegen" and e["site"] == "relvar"):
                continue
            n_events += 1
            expr = "regen_r %d lower_ascii @TP@ %s %s %s %d" % (len(e["used"]) + 2, lst(reserved), lst(e["used"]), opt(e["old"]), idx_of(e["gen_before"], tp))
            ev_cases.setdefault(expr, ("pair", (e["new"], idx_of(e["gen_after"], tp)), "relvar", src_i))
            ck.stat("namegen-model", "relvar/" + ("kept" if e["new"] == e["old"] else "generated"))
            if e["new"] != e["old"] and (e["new"].lower() in reserved or e["new"] in e["used"]):
                bad("generated table name %r is reserved or in use" % e["new"], event=e)
            home = None
            if e["used"]:
                for sc in reversed(scopes):
                    if sorted(x["new"] for x in sc) == e["used"]:
                        home = sc; break
            if home is None:
                if e["used"]:
                    bad("relvar step whose used set %s belongs to no scope seen before" % e["used"], event=e); continue
                home = []; scopes.append(home)
            home.append(e)
        for sc in scopes:
            chained = all(sc[j]["gen_before"] == sc[j - 1]["gen_after"] for j in range(1, len(sc)))
            ck.stat("namegen-model", "relvar(scope)/" + ("contiguous" if chained else "interleaved with an inner pipeline"))
            if chained:
                expr = "assign_names lower_ascii @TP@ %s %s [] %d" % (lst(reserved), optlst([x["old"] for x in sc]), idx_of(sc[0]["gen_before"], tp))
                ev_cases.setdefault(expr, ("listpair", ([x["new"] for x in sc], idx_of(sc[-1]["gen_after"], tp)), "relvar(scope)", src_i))
        # ---- columns: ensure_column_name and the anchor_split step with the logged state; anchor_split as one model run
        pending = None
        for h, e in evs:
            if h == "ensure_column_name":
                pending = e
            elif h == "ensure_column_name_result":
                n_events += 1
                if pending is None or pending["cid"] != e["cid"]:
                    bad("ensure_column_name_result without its call"); continue
                res = None if pending["decl"] == "wildcard" else e["name_after"]
                expr = "ensure_column_name lower_ascii @CP@ %s %s %s %d" % (lst(creserved), decl_term(pending["decl"]), opt(pending["name_before"]), idx_of(pending["gen_before"], cp))
                ev_cases.setdefault(expr, ("optpair", (res, idx_of(e["gen_after"], cp)), "ensure_column_name", src_i))
                pending = None
            elif h == "namegen" and e["site"] == "anchor_split":
                n_events += 1
                if "gen_before" not in e:
                    bad("verif:namegen events carry no generator state (hooks/namegen-state.diff not applied?)"); break
                expr = "split_step lower_ascii @CP@ %s %s %s %d" % (lst(creserved), lst(e["used"]), opt(e["old"]), idx_of(e["gen_before"], cp))
                ev_cases.setdefault(expr, ("optpair", (e["new"], idx_of(e["gen_after"], cp)), "anchor_split", src_i))
                ck.stat("namegen-model", "anchor_split/" + ("kept" if e["new"] == e["old"] else "regenerated"))
            elif h == "anchor_split":
                n_events += 1
                decls = [decl_term(d) for d in e["in"]["decls"]]
                if any(d is None for d in decls) or len(decls) != len(e["in"]["names"]):
                    bad("anchor_split: a column at the split has no declaration", event=e["in"]); continue
                if len(set(e["in"]["cols_at_split"])) != len(decls):
                    ck.stat("namegen-model", "anchor_split(list)/same cid twice: step level only"); continue
                cols = "[" + "; ".join("(%s, %s)" % (d, opt(b)) for d, b in zip(decls, e["in"]["names"])) + "]"
                expr = "split_names lower_ascii @CP@ %s %s [] %d" % (lst(creserved), cols, idx_of(e["in"]["next_name"], cp))
                ev_cases.setdefault(expr, ("optlistpair", ([c_["name"] for c_ in e["mid"]["new_columns"]], idx_of(e["mid"]["next_name"], cp)), "anchor_split(list)", src_i))
                ck.stat("namegen-model", "anchor_split(list)/%d cols" % min(len(decls), 8))
        # ---- which names reach the column-name places (Model/NameGen.v run_ops; theorem column_names_context_invariant)
        # (a) the decidable hypothesis of the case-insensitive theorem on every real anchor_split call
        # (b) every name the real context ends with (pq-names: column_names, columns of the relation instances) is a name of the
        #     RQ (lower-cased form reserved) or a generated name
        # (c) the whole compilation as ONE trace of operations: RQ names loaded, then every standalone ensure_column_name, every
        #     anchor_split, every invented alias in the order of the events; the model must end in the same generator state,
        #     produce the same names at every split, and hold every name the real context holds
        final_names = [c_["name"] for c_ in pqn[0]["columns"] if c_["name"] is not None]
        final_names += [c_["name"] for ins in pqn[0]["instances"] for c_ in ins["columns"] if c_["name"] not in (None, "*")]
        final_names = sorted(set(final_names))
        expr = "forallb (name_class_ok lower_ascii @CP@ %s) %s" % (lst(creserved), lst(final_names))
        ev_cases.setdefault(expr, ("bool", True, "final context (pq-names)", src_i))
        for h, e in evs:
            if h == "anchor_split":
                decls = [decl_term(d) for d in e["in"]["decls"]]
                if all(d is not None for d in decls):
                    cols = "[" + "; ".join("(%s, %s)" % (d, opt(b)) for d, b in zip(decls, e["in"]["names"])) + "]"
                    ev_cases.setdefault("incoming_ok lower_ascii @CP@ %s %s" % (lst(creserved), cols), ("bool", True, "anchor_split(incoming)", src_i))
            elif h == "load_names":
                for oc in e["output_cols"]:
                    nm = oc.get("single") if isinstance(oc, dict) else None
                    if nm is not None and repaired and nm.lower() not in creserved:
                        bad("load_names brings the name %r into the context, which is not among the reserved column names" % nm, reserved_columns=creserved)
        if repaired:
            rq_names = [n for n in final_names if n.lower() in creserved]
            ops = ["OpLoad %s" % lst(rq_names)]
            exp_splits, last_gen = [], 0
            kinds = [h for h, _ in evs]
            for k, (h, e) in enumerate(evs):
                if h in ("ensure_column_name_result", "select_item") or (h == "namegen" and e["site"] == "anchor_split"):
                    g = idx_of(e.get("gen_after"), cp)
                    last_gen = g if g is not None else last_gen
                if h == "ensure_column_name":
                    nxt = next((evs[j] for j in range(k + 2, len(evs)) if evs[j][0] in ("namegen", "ensure_column_name", "anchor_split", "select_item")), None)
                    if not (nxt and nxt[0] == "namegen" and nxt[1]["site"] == "anchor_split"):
                        ops.append("OpEnsure %s %s" % (decl_term(e["decl"]), opt(e["name_before"])))
                elif h == "anchor_split":
                    decls = [decl_term(d) for d in e["in"]["decls"]]
                    if any(d is None for d in decls) or len(set(e["in"]["cols_at_split"])) != len(decls):
                        ops = None; break
                    ops.append("OpSplit [%s]" % "; ".join("(%s, %s)" % (d, opt(b)) for d, b in zip(decls, e["in"]["names"])))
                    exp_splits.append([c_["name"] for c_ in e["mid"]["new_columns"]])
                elif h == "select_item" and e["expected"] is None and e["item"] != "unnamed":
                    ops.append("OpAlias")
            if ops is not None and len(ops) <= 60:
                expr = "run_ops lower_ascii @CP@ %s [] 0 [%s]" % (lst(creserved), "; ".join(ops))
                ev_cases.setdefault(expr, ("trace", (exp_splits, last_gen, final_names), "column trace", src_i))
                ck.stat("namegen-model", "column trace/%d ops" % min(len(ops), 12))
        # ---- translate_select_item's invented aliases: `used` = column_names.values() at that moment = what the enclosing
        # translate_select_items call saw at its start (its event follows those of its items) + the items named before
        group = []
        for h, e in evs:
            if h == "select_item":
                group.append(e)
            elif h == "select_items":
                names_now = {c: nm for c, nm in e["in"]["column_names"]}
                for it in group:
                    if it["expected"] is None and it["item"] != "unnamed":
                        n_events += 1
                        expr = "select_item_alias lower_ascii @CP@ %s %s %d" % (lst(creserved), lst(sorted(names_now.values())), idx_of(it["gen_before"], cp))
                        ev_cases.setdefault(expr, ("pair", (it["item"]["alias"], idx_of(it["gen_after"], cp)), "select_item", src_i))
                        ck.stat("namegen-model", "select_item/alias" + ("" if it["item"]["alias"] == it["gen_before"] else "-regenerated"))
                    if it["name_after"] is not None:
                        names_now[it["cid"]] = it["name_after"]
                group = []
    try:
        # prefixes as literals, no Gen import: the stream must keep searching when the translator failed closed
        HN = ("From Coq Require Import List NArith.\nFrom PV Require Import Lib.ListX Model.Ident Model.NameGen.\n"
              "Import ListNotations.\nLocal Open Scope N_scope.\n"
              "Definition cpfx : list N := %s.\nDefinition tpfx : list N := %s.\n" % (coq_codes(cp), coq_codes(tp)))
        items = [(expr,) + v for expr, v in ev_cases.items()]
        B = 40
        batches = {}
        for it in items:
            batches.setdefault(it[1], []).append(it)
        blist = [(g, its[k:k + B]) for g, its in batches.items() for k in range(0, len(its), B)]
        vals = coq_eval(HN, ["[" + "; ".join(x[0].replace("@CP@", "cpfx").replace("@TP@", "tpfx") for x in its) + "]" for _, its in blist])

        def name_of(v):
            return s_of(v[1]) if isinstance(v, tuple) and v[0] == "Some" else None

        def view(g, v):
            if not (isinstance(v, tuple) and v[0] == "Some"):
                return "<loop did not end>"
            x, n1 = v[1]
            if g == "pair":
                return (s_of(x), n1)
            if g == "optpair":
                return (name_of(x), n1)
            if g == "listpair":
                return ([s_of(y) for y in x], n1)
            return ([name_of(y) for y in x], n1)            # optlistpair

        for (g, its), vs in zip(blist, vals):
            for (expr, _, exp, site, src), v in zip(its, vs):
                ck.count("namegen-model", expr)
                if g == "bool":
                    if v is not True:
                        ck.violation("%s: a name that reaches the column-name places is neither a reserved (RQ) name nor a generated one" % site,
                                     {"kind": "namegen-model", "site": site, "expr": expr, "src": src})
                    continue
                if g == "trace":
                    if not (isinstance(v, tuple) and v[0] == "Some"):
                        ck.violation("column trace: the model run fails (an operation mentions a name the context does not hold)", {"kind": "namegen-model", "site": site, "expr": expr, "src": src})
                        continue
                    if len(v[1]) == 3:
                        known, n1, splits = v[1]
                    else:
                        (known, n1), splits = v[1]
                    got_splits = [[name_of(y) for y in sp] for sp in splits]
                    known = {s_of(x) for x in known}
                    if got_splits != exp[0] or n1 != exp[1] or not set(exp[2]) <= known:
                        ck.violation("column trace: model %r / state %r, prqlc %r / state %r; names of the real context missing in the model: %s" % (got_splits, n1, exp[0], exp[1], sorted(set(exp[2]) - known)),
                                     {"kind": "namegen-model", "site": site, "expr": expr, "src": src})
                    continue
                got = view(g, v)
                want = (exp[0], exp[1]) if g in ("pair", "optpair") else (list(exp[0]), exp[1])
                if got != want:
                    ck.violation("Model/NameGen.v differs from prqlc at %s: model %r, prqlc %r" % (site, got, want),
                                 {"kind": "namegen-model", "site": site, "expr": expr, "model": repr(got), "impl": repr(want), "src": src})
    except RuntimeError as ex:
        ck.coverage["model_eval_error_namegen"] = str(ex)[-400:]
    ck.coverage["namegen_events"] = n_events
    ck.coverage["namegen_programs"] = len(hook_idx)
    ck.coverage["col_names_reserved"] = repaired

    ck.coverage["names"] = len(names)
    ck.coverage["e2e_rejected_by_resolver"] = rejected

    ck.coverage["phase_seconds"] = dict(PHASE)
    ck.proof_broken_violation(found_input=bool(ck.violations))
    ck.assumptions += ["SQLite quirk excluded: a column literally named true/false loses its name through a sub-query (SELECT \"true\" FROM (SELECT \"true\" FROM t) yields the string 'true'); such cases are counted, not judged",
                       "SQLite matches identifiers ASCII-case-insensitively: names used together in one schema are kept distinct under case folding",
                       "names contain no backtick (PRQL cannot spell one) and are non-empty; the wildcard * is excluded (it is not a name)",
                       "tables spelled like PRQL functions in scope (select, from) cannot be referenced at all (resolver rejects): counted, not judged here"]
    ck.finish(TRUSTED, "names: all strings of length <= %d over {a, A, space, \", ', ., -, select, e-acute, _expr_0, table_0} (+%s of length 3, + keywords and special spellings), each as column (every column position), join key, table, second table, alias, in skeletons with 0-3 sub-query splits, joins, grouping, computed sort keys; every column of every table holds distinct marker values and decoy tables named table_0..table_3 exist, so a reference to the wrong object changes the result; emit_ident model vs prqlc for every name x 6 (quick: sqlite, postgres, mysql, snowflake + two rotating) / 12 (thorough) dialects; NameGen model vs every logged call of gen/regenerate sites (assign_names, RelVarNameAssigner, ensure_column_name, anchor_split, translate_select_item) in the directed generated-name families and a sample of %s other programs" % (n_ex, "all" if ck.thorough else "400", ck.n(250, 4000)))

"""C13 -- errors are located inside the source and point at the offending text."""
import json
import re

from ..common import Check, coq_eval, coq_codes, harness
from ..translate import gen_c13_span, gen_lex_tables
from .c13_templates import TEMPLATES, TREE_CASES, parse_template, interp_templates

TRUSTED = [
    "Coq 8.16.1 kernel (coqc, vm_compute); no axioms: every theorem is 'Closed under the global context'",
    "translator vplib/translate/gen_c13_span.py (text pins of composed/compose_location/From<Error> for ErrorMessage/SourceTree::single,new,From<S>/prql_to_tokens/lex_source_recovery/parse_source/lexer_errors_to_byte_spans/load_std_lib/convert_lexer_error/parse_lr_to_pr/Add<usize> for Span/interpolation()/interpolation rebasing/Display for Reason/WithErrorInfo for Error/Resolver::fold_function; fail closed)",
    "Model/Span.v is a hand restatement of those functions and of ariadne-0.5.1 Source::from/get_offset_line/Label::new's assert; it is run against the implementation (harness linecol, compile, c13lex, c13tree, c13compose) on every run",
    "Resolver::fold_function re-spanning (respan_std): hook verif:respan (hooks/respan.diff) logs inputs and output of every error leaving fold_function; in the moving branch the hook evaluates the same setter on a clone, the real value is tied by the chain check (reported span = composed of the outermost out) and the text pin",
    "Model/Lexer.v, Model/LexerGen.v and gen_lex_tables.py (C17: lexer model and regenerated tables, run against the implementation by C17) are reused read-only; Model/InterpSpan.v is proved to erase to Lexer.mq_body",
    "chumsky's byte spans for &str input and token-index spans for &[Token] input (hypotheses `boundary`, `toks_okb` of the theorems; observed through the lexer's token spans, not proved)",
    "ariadne's report rendering is not modelled: `display quotes the line` is checked as text containment by the oracle only",
    "python oracle: UAX#14 mandatory breaks (CR LF CRLF VT FF NEL LS PS) define lines; written from the standard, independent of the model",
]

# --------------------------------------------------------------------------- independent position oracle
SEPS = "\r\n\x0b\x0c\x85\u2028\u2029"


def line_starts(s):
    """character offsets at which a line starts (Unicode mandatory breaks; CRLF is one break; a final
    terminator does not open another line)"""
    st = [0]
    i, n = 0, len(s)
    while i < n:
        c = s[i]
        if c in SEPS:
            if c == "\r" and i + 1 < n and s[i + 1] == "\n":
                i += 1
            if i + 1 < n:
                st.append(i + 1)
        i += 1
    return st


def position(s, off):
    """(line, col) of character offset off (0 <= off <= len(s)); None when outside"""
    if off < 0 or off > len(s):
        return None
    st = line_starts(s)
    l = 0
    for k, a in enumerate(st):
        if a <= off:
            l = k
    return (l, off - st[l])


def line_text(s, off):
    st = line_starts(s) + [len(s)]
    l = position(s, off)[0]
    return s[st[l]:st[l + 1]].rstrip(SEPS)


def byte_to_char(s, b):
    """character offset of byte offset b of s's UTF-8 encoding; None when not on a boundary / outside"""
    acc = 0
    if b == 0:
        return 0
    for i, c in enumerate(s):
        acc += len(c.encode("utf-8"))
        if acc == b:
            return i + 1
        if acc > b:
            return None
    return None


# --------------------------------------------------------------------------- prefixes
ALPHA = {
    1: ["a", "Z", "7", " ", "_", "-"],
    2: ["é", "ß", "Ж", "́"],
    3: ["€", "漢", "→", "ก"],
    4: ["\U0001F600", "\U0001D4B3", "\U0001F701"],
}
EXOTIC = ["\x0b", "\x0c", "\x85", "\u2028", "\u2029"]


def gen_prefix_text(rng, cls):
    """a list of line segments (no newlines inside) and the newline kind"""
    def seg(kinds, n):
        return "".join(rng.choice(ALPHA[rng.choice(kinds)]) for _ in range(n))
    if cls == "none":
        return [], "\n"
    if cls == "ascii":
        return [seg([1], rng.randint(1, 8))], "\n"
    if cls in ("b2", "b3", "b4"):
        k = int(cls[1])
        return [seg([1, k], rng.randint(1, 6)) + rng.choice(ALPHA[k])], "\n"
    if cls == "mixed":
        return [seg([1, 2, 3, 4], rng.randint(2, 10)) + rng.choice(ALPHA[rng.choice([2, 3, 4])])], "\n"
    if cls == "lines":
        return [seg([1, 2, 3, 4], rng.randint(0, 5)) for _ in range(rng.randint(2, 4))], "\n"
    if cls == "crlf":
        return [seg([1, 2, 3], rng.randint(0, 5)) + "é" for _ in range(rng.randint(1, 3))], "\r\n"
    if cls == "crlfa":
        # ASCII only: a shift of spans behind CRLF line ends cannot be mistaken for the byte/character confusion (F9)
        return [seg([1], rng.randint(0, 6)) for _ in range(rng.randint(1, 4))], "\r\n"
    if cls == "cr":
        return [seg([1, 2], rng.randint(0, 4)) for _ in range(rng.randint(1, 3))], "\r"
    if cls == "exotic":
        return [seg([1, 2], rng.randint(1, 3)) + rng.choice(EXOTIC) + seg([1, 3], rng.randint(0, 3))], "\n"
    if cls == "long":
        return [seg([2, 3, 4], rng.randint(24, 60))], "\n"
    if cls == "huge":
        # a long file: thousands of characters of commentary before the statement in error
        kinds = rng.choice([[1], [1], [1, 2, 3, 4]])
        return [seg(kinds, rng.randint(30, 70)) for _ in range(rng.randint(60, 160))], "\n"
    raise ValueError(cls)


PREFIX_CLASSES = ["none", "ascii", "b2", "b3", "b4", "mixed", "lines", "crlf", "crlfa", "cr", "exotic", "long", "huge"]


def place(rng, tpl, segs, nl, how):
    """returns (source text, char offset of the marked token, token text) or None when the placement does not apply"""
    body, tok_off, tok = tpl["text"], tpl["off"], tpl["tok"]
    if not segs:
        return body, tok_off, tok
    if how == "comment":
        pre = "".join("# " + s + nl for s in segs)
        return pre + body, len(pre) + tok_off, tok
    if how == "let":
        if any(c in EXOTIC or c in "\r\n" for s in segs for c in s):
            return None
        pre = "".join("let p%d_ = \"%s\"%s" % (i, s, nl) for i, s in enumerate(segs))
        if tpl.get("header"):
            return None
        return pre + body, len(pre) + tok_off, tok
    if how == "inline":
        if not tpl["inline"] or len(segs) != 1 or any(c in EXOTIC for c in segs[0]):
            return None
        ins = "derive {p_ = \"%s\"} | " % segs[0]
        k = len("from t | ")
        return body[:k] + ins + body[k:], tok_off + len(ins), tok
    raise ValueError(how)


# --------------------------------------------------------------------------- checking one error message
FOUND_RE = [
    (re.compile(r"^unexpected '(.*)'$", re.S), "lex"),
    (re.compile(r"^[a-z ]*expected .*but found \"(.*)\"$", re.S), "interp"),
    (re.compile(r"^unexpected (\S+)$"), "tok"),
    (re.compile(r"^expected .*but found (\S+)$", re.S), "tok"),
]
NOT_TEXT = {"end", "input", "new", "line", "of", "anything"}


def found_text(reason):
    for rx, kind in FOUND_RE:
        m = rx.search(reason)
        if m:
            x = m.group(1)
            if kind == "tok" and (x in NOT_TEXT or x.startswith("`") or x.startswith("type") or not x):
                return None
            if "end of input" in reason or "new line" in reason.split("found")[-1]:
                return None
            return x
    return None


def check_message(e, files_by_id, want_tok=None, want_off=None):
    """returns list of (clause, detail) that fail under the CHARACTER unit (the documented one), and a dict
    describing what holds under the BYTE unit (for classification)."""
    bad = []
    info = {}
    if not (e.get("reason") or "").strip():
        bad.append(("reason-empty", ""))
    sp = e.get("span")
    if sp is None:
        if e.get("location") is not None:
            bad.append(("location-without-span", ""))
        return bad, info
    sid = str(sp["source_id"])
    if sid not in files_by_id:
        bad.append(("span-names-no-file", "source_id %s" % sid))
        # a span that belongs to no file of the tree must not be given a position or an excerpt of some other file
        if e.get("location") is not None or e.get("display") is not None:
            bad.append(("location-for-foreign-span", "location %s for a span of source %s, which is not in the tree" % (e.get("location"), sid)))
        return bad, info
    s = files_by_id[sid]
    a, b = sp["start"], sp["end"]
    if a > b:
        bad.append(("start-after-end", "%d > %d" % (a, b)))
    if b > len(s) or a > len(s):
        bad.append(("out-of-bounds", "span %d..%d, %d characters" % (a, b, len(s))))
    loc = e.get("location")
    if loc is None:
        bad.append(("no-location", ""))
    else:
        pa, pb = position(s, a), position(s, b)
        if pa is None or pb is None or [list(pa), list(pb)] != [loc["start"], loc["end"]]:
            bad.append(("location-not-position", "location %s, position of span %s" % (loc, (pa, pb))))
    disp = e.get("display")
    if disp is None:
        bad.append(("no-display", ""))
    elif a <= len(s):
        lt = line_text(s, a).rstrip()      # ariadne prints a line without its trailing white space
        if lt.strip() and lt not in disp:
            bad.append(("display-misses-line", repr(lt)[:80]))
    ft = found_text(e.get("reason") or "")
    if a <= b <= len(s):
        sl = s[a:b]
        if ft is not None and sl != ft:
            bad.append(("slice-not-found-token", "slice %r, reason names %r" % (sl, ft)))
        if want_tok is not None and (sl != want_tok or a != want_off):
            bad.append(("span-not-offending-token", "span %d..%d %r, offending text %r at %d" % (a, b, sl, want_tok, want_off)))
    # byte reading
    ca, cb = byte_to_char(s, a), byte_to_char(s, b)
    info["byte_boundaries"] = ca is not None and cb is not None
    if info["byte_boundaries"]:
        info["byte_slice"] = s[ca:cb]
        info["byte_off"] = ca
        info["byte_ok"] = (ft is None or s[ca:cb] == ft) and (want_tok is None or (s[ca:cb] == want_tok and ca == want_off))
        info["nonascii_before"] = any(ord(c) > 127 for c in s[:cb])
    return bad, info


def py_span_to_chars(s, a, b):
    """what `composed` does to a byte span (a, b) of text s (0301a92): each end becomes the number of characters that START
    before that byte offset (inside a character = its end, past the text = the end of the text)"""
    def before(x):
        n, pos = 0, 0
        for ch in s:
            if pos >= x:
                break
            n += 1
            pos += len(ch.encode("utf-8"))
        return n
    return (before(a), before(b))


def model_composed(v):
    """parsed value of `flat_composed (composed_one ..)` -> "PANIC" | (span dict | None, location dict | None)"""
    if v == "Panic":
        return "PANIC"
    if not (isinstance(v, tuple) and v[0] == "Ret"):
        return ("?", str(v))
    osp, ol = v[1]
    sp = None if osp == "None" else {"start": osp[1][0], "end": osp[1][1], "source_id": osp[1][2]}
    if ol == "None":
        loc = None
    else:
        x = ol[1]
        loc = {"start": [x[0], x[1]], "end": list(x[2])}
    return (sp, loc)


def run():
    ck = Check("C13", level="proof")
    ginfo = gen_c13_span.generate()
    linfo = gen_lex_tables.generate()      # C17's translator (read-only use): Model/LexerGen.v needs Gen/GenLexTables.v
    pr = ck.prove()
    model_ok = True     # Model/Span.vo does not depend on Gen/: the model stays executable when the translator fails closed
    rng = ck.rng
    tpls = [parse_template(t) for t in TEMPLATES] + [parse_template(t) for t in interp_templates(rng, ck.n(70, 400))]
    ck.coverage["templates"] = {c: sum(1 for t in tpls if t["cls"] == c) for c in ("lexical", "syntactic", "resolution", "type", "sql")}

    # ---------------------------------------------------------------- 1. Span.v: lines / get_offset_line vs ariadne
    header = ("From Coq Require Import List NArith.\nFrom PV Require Import Model.Checked Model.Span.\n"
              "Import ListNotations.\n"
              "Definition flat_sp (o : option span) := match o with Some x => Some (sp_start x, sp_end x, sp_src x) | None => None end.\n"
              "Definition flat_composed (r : out (option span * option location)) := bind r (fun p => Ret (flat_sp (fst p), snd p)).\n"
              "Definition flat_lexerr (r : out (option span * option location * list N)) := bind r (fun p => Ret (flat_sp (fst (fst p)), snd (fst p), snd p)).\n")
    lc_alpha = ["a", "b", " ", "é", "€", "\U0001F600", "\n", "\r", "\r\n", "\n", "\r\n", "\x0b", "\x0c", "\x85", "\u2028", "\u2029"]
    srcs = ["", "\n", "\r\n", "\r", "a", "a\n", "a\r\nb", "\r\r\n\n", "a\u2028b\u2029", "\n\n\n", "\r\n\r\n", "ab\r"]
    for _ in range(ck.n(90, 600)):
        srcs.append("".join(rng.choice(lc_alpha) for _ in range(rng.randint(1, 14))))
    srcs = list(dict.fromkeys(srcs))
    reqs, meta = [], []
    for s in srcs:
        for off in range(len(s) + 3):
            reqs.append({"src": s, "offset": off})
            meta.append((s, off))
    real = harness("linecol", reqs)
    try:
        mod = coq_eval(header, ["map (get_offset_line %s) (seq 0 %d)" % (coq_codes(s), len(s) + 3) for s in srcs])
    except RuntimeError as ex:
        mod = None
        ck.coverage["model_eval_error"] = str(ex)[-400:]
    k = 0
    for si, s in enumerate(srcs):
        for off in range(len(s) + 3):
            r = real[k]; k += 1
            ck.count("linecol", json.dumps([s, off]))
            got = tuple(r["ok"]) if r.get("ok") is not None else None
            py = position(s, off)
            if got != py:
                ck.violation("ariadne get_offset_line differs from the Unicode line oracle at offset %d of %r: %s vs %s" % (off, s, got, py),
                             {"src": s, "offset": off, "ariadne": got, "oracle": py})
            if mod is not None:
                mv = mod[si][off]
                mv = None if mv == "None" else tuple(mv[1])
                if mv != got:
                    ck.violation("Model/Span.v get_offset_line differs from the implementation at offset %d of %r: model %s, impl %s" % (off, s, mv, got),
                                 {"src": s, "offset": off, "model": mv, "impl": got, "kind": "correspondence"})
        ck.stat("linecol", "seps=%d" % min(3, sum(1 for c in s if c in SEPS)))

    # ---------------------------------------------------------------- 2. the oracle: erroneous sources
    cases = []   # dict(src, tpl, cls, pcls, how, off, tok, multi, files, main_path, err_file)
    hows = ["comment", "let", "inline"]
    per = ck.n(1, 3)
    for ti, t in enumerate(tpls):
        for pcls in PREFIX_CLASSES:
            if t.get("gen") and pcls not in ("none", "ascii", "b3", "lines"):
                continue
            if t.get("gen"):
                sh = t["shape"]
                ck.stat("oracle", "interp:quotes=%d,esc-before=%s,esc-after=%s" % (sh["quotes"], min(sh["esc_before"], 1), min(sh["esc_after"], 2)))
            for _ in range((per if pcls not in ("none", "huge") else 1)):
                segs, nl = gen_prefix_text(rng, pcls)
                for how in (hows if segs else ["comment"]):
                    if t.get("header") and how != "comment":
                        continue
                    p = place(rng, t, segs, nl, how)
                    if p is None:
                        continue
                    src, off, tok = p
                    if t.get("header"):
                        # `prql target:...` must stay the first statement: comments may precede it
                        pass
                    cases.append({"src": src, "ti": ti, "cls": t["cls"], "pcls": pcls, "how": how, "off": off, "tok": tok,
                                  "target": t.get("target"), "multi": None})
    # multi-file variants: the erroneous text is the root file or a module file; the other file has non-ASCII text
    multi = []
    for c in cases:
        if rng.random() < (0.35 if not ck.thorough else 0.8):
            other = rng.choice(["let o_ = \"éééééééééééééééééééé\"\n", "let o_ = 1\n", "# \U0001F600\nlet o_ = 2\n"])
            if rng.random() < 0.5:
                files = [["Project.prql", c["src"]], ["m.prql", other]]
                main_path, err = [], "Project.prql"
            else:
                files = [["Project.prql", other], ["m.prql", c["src"]]]
                main_path, err = ["m", "main"], "m.prql"
            if rng.random() < 0.5:
                files.reverse()
            d = dict(c)
            d["multi"] = {"files": files, "main_path": main_path, "err_file": err}
            multi.append(d)
    cases += multi
    single = [c for c in cases if not c["multi"]]
    multis = [c for c in cases if c["multi"]]
    ans_s = harness("compile", [dict(src=c["src"], **({"target": c["target"]} if c["target"] else {})) for c in single])
    ans_m = harness("c13tree", [dict(files=c["multi"]["files"], main_path=c["multi"]["main_path"], **({"target": c["target"]} if c["target"] else {})) for c in multis])
    lex_s = harness("c13lex", [{"src": c["src"]} for c in cases])
    for c, a in zip(single, ans_s):
        c["ans"] = a
        c["files_by_id"] = {"1": c["src"]}
    for c, a in zip(multis, ans_m):
        c["ans"] = a
        byname = dict((f[0], f[1]) for f in c["multi"]["files"])
        c["files_by_id"] = {i: byname[p] for i, p in (a.get("ids") or {}).items() if p in byname}
    for c, l in zip(cases, lex_s):
        c["lex_ok"] = "ok" in l
        c["lex"] = l

    def classify(case):
        t = tpls[case["ti"]]
        k = case.get("kind")
        if k == "panic":
            # F9 (d3106b1) and the assert behind a wrong rebased span inside a multi-byte character (0301a92) are repaired:
            # every panic of error reporting is a violation
            return None
        clauses = set(case.get("clauses", []))
        if "span-names-no-file" in clauses or "location-for-foreign-span" in clauses or "wrong-file" in clauses:
            # C13-N2 (span into std.prql) was repaired by 7cb9d46: a span that names no file of the tree is a violation
            return None
        if t.get("known") == "interp-rebase" and clauses <= {"slice-not-found-token", "span-not-offending-token", "location-not-position", "display-misses-line", "out-of-bounds", "no-location", "no-display"}:
            # the rebasing defect (a wrong byte span can end inside a code point: `composed` rounds it to the end of that character)
            return "C13-N1-interp-span-rebase"
        return None

    # Error::new_simple sites of the regenerated inventory: which were seen, with or without a span
    site_groups = {}
    for st in (ginfo.get("simple_sites") or []):
        g = site_groups.setdefault((st["file"], st["kind"], st["text"]), {"file": st["file"], "kind": st["kind"], "text": st["text"], "lines": [],
                                                                         "rx": gen_c13_span.site_regex(st), "with_span": 0, "without_span": 0, "example": None})
        g["lines"].append(st["line"])

    def note_sites(e, src):
        r = e.get("reason") or ""
        for g in site_groups.values():
            if g["rx"] is not None and g["rx"].match(r):
                g["with_span" if e.get("span") is not None else "without_span"] += 1
                if g["example"] is None:
                    g["example"] = src[:120]

    for c in cases:
        t = tpls[c["ti"]]
        a = c["ans"]
        key = json.dumps([c["src"], c["multi"] and c["multi"]["files"], c["target"]])
        ck.count("oracle", key)
        ck.stat("oracle", "class:" + c["cls"])
        ck.stat("oracle", "prefix:" + c["pcls"])
        ck.stat("oracle", "placement:" + c["how"])
        ck.stat("oracle", "files:" + ("multi" if c["multi"] else "single"))
        base = {"src": c["src"], "template": t["raw"], "class": c["cls"], "prefix": c["pcls"], "placement": c["how"],
                "target": c["target"], "multi": c["multi"], "ti": c["ti"], "lex_ok": c["lex_ok"],
                "nonascii_prefix": any(ord(ch) > 127 for ch in c["src"][:c["off"] + len(c["tok"])])}
        if "panic" in a or "abort" in a:
            p = a.get("panic") or {}
            d = dict(base, kind="panic", msg=p.get("msg", str(a)), loc=p.get("loc", ""))
            ck.stat("oracle", "outcome:panic")
            ck.disagreement("error reporting panicked: %s (%s)" % (d["msg"][:120], d["loc"]), d, classify)
            continue
        if "err" not in a:
            ck.stat("oracle", "outcome:no-error")
            ck.violation("erroneous source of template %r was accepted" % t["raw"], dict(base, kind="accepted", got=str(a)[:300]))
            continue
        ck.stat("oracle", "outcome:errors")
        errs = a["err"]
        for ei, e in enumerate(errs):
            primary = ei == 0
            note_sites(e, c["src"])
            want_tok = c["tok"] if primary and t.get("check_tok", True) else None
            err_file_ok = True
            if c["multi"] and e.get("span") is not None and primary:
                ids = a.get("ids") or {}
                if ids.get(str(e["span"]["source_id"])) != c["multi"]["err_file"]:
                    err_file_ok = False
            bad, bi = check_message(e, c["files_by_id"], want_tok, c["off"] if want_tok is not None else None)
            if primary:
                ck.stat("oracle", "primary-span:" + ("none" if e.get("span") is None else "some") + (",template-nospan" if t.get("nospan") else ""))
                if e.get("span") is None and not t.get("nospan"):
                    # the template was calibrated with a span that points at the marked text: an error that lost its span
                    # is no longer located in the source (and would pass every "if it carries a span" clause vacuously)
                    ck.stat("oracle", "failed:primary-error-lost-its-span")
                    ck.disagreement("error %r carries no span; on the calibrated tree it points at %r" % ((e.get("reason") or "")[:80], c["tok"]),
                                    dict(base, kind="clauses", clauses=["primary-error-lost-its-span"], details=[""], reason=e.get("reason"), span=None, location=e.get("location")), classify)
            if not err_file_ok:
                bad.append(("wrong-file", "span names %s, the error is in %s" % ((a.get("ids") or {}).get(str(e["span"]["source_id"])), c["multi"]["err_file"])))
            if e.get("span") is not None:
                c.setdefault("spans", []).append((e["span"], e.get("location")))
            if bad:
                d = dict(base, kind="clauses", clauses=[b[0] for b in bad], details=[b[1] for b in bad], byte_info=bi,
                         reason=e.get("reason"), span=e.get("span"), location=e.get("location"))
                for b in bad:
                    ck.stat("oracle", "failed:" + b[0])
                ck.disagreement("error %r: %s" % ((e.get("reason") or "")[:80], "; ".join("%s (%s)" % b for b in bad)[:300]), d, classify)
            elif len(ck.coverage["samples"]) < 8 and c["pcls"] not in ("none", "ascii") and e.get("span"):
                ck.sample({"src": c["src"], "reason": e["reason"][:80], "span": e["span"], "location": e["location"], "multi": bool(c["multi"])})

    # ---------------------------------------------------------------- 2a. directed file-tree inputs (errors only a SourceTree provokes)
    tree_ans = harness("c13tree", [{k: v for k, v in tc.items() if k != "want"} for tc in TREE_CASES])
    for tc, a in zip(TREE_CASES, tree_ans):
        ck.count("tree-directed", json.dumps(tc["files"]) + json.dumps(tc.get("database")))
        base = {"files": tc["files"], "database": tc.get("database"), "kind": "tree"}
        if "err" not in a:
            ck.violation("file tree %r: expected the error %r, got %s" % (tc["files"], tc["want"], str(a)[:200]), base)
            continue
        byname = dict((f[0], f[1]) for f in tc["files"] if isinstance(f[0], str))
        fbi = {i: byname[p_] for i, p_ in (a.get("ids") or {}).items() if p_ in byname}
        if not any((e.get("reason") or "").startswith(tc["want"]) for e in a["err"]):
            ck.violation("file tree %r: expected the error %r, got %r" % (tc["files"], tc["want"], [e.get("reason") for e in a["err"]]), base)
        for e in a["err"]:
            note_sites(e, json.dumps(tc["files"])[:120])
            bad, _ = check_message(e, fbi)
            ck.stat("tree-directed", "span:" + ("some" if e.get("span") else "none"))
            if bad:
                ck.disagreement("file tree error %r: %s" % ((e.get("reason") or "")[:80], "; ".join("%s (%s)" % b for b in bad)[:300]),
                                dict(base, clauses=[b[0] for b in bad], reason=e.get("reason"), span=e.get("span")), None)

    # ---------------------------------------------------------------- 2b. the same clauses for `prql_to_tokens` (prqlc lex)
    # d650e1d: its errors are composed against the one-file tree (source id 1): span, location and excerpt like compile's
    seen_lex = set()
    for c in cases:
        if c["lex_ok"] or c["src"] in seen_lex:
            continue
        seen_lex.add(c["src"])
        t = tpls[c["ti"]]
        l = c["lex"]
        ck.count("lex-oracle", c["src"])
        base = {"src": c["src"], "template": t["raw"], "class": c["cls"], "prefix": c["pcls"], "placement": c["how"], "entry": "prql_to_tokens"}
        if "err" not in l:
            ck.disagreement("prql_to_tokens did not return its errors: %s" % str(l)[:200], dict(base, kind="panic", got=str(l)[:300]), None)
            continue
        for ei, e in enumerate(l["err"]):
            want_tok = c["tok"] if ei == 0 and t["cls"] == "lexical" else None
            bad, _ = check_message(e, {"1": c["src"]}, want_tok, c["off"] if want_tok is not None else None)
            if e.get("span") is None:
                bad.append(("lexer-error-without-span", ""))
            if bad:
                for b in bad:
                    ck.stat("lex-oracle", "failed:" + b[0])
                ck.disagreement("prql_to_tokens error %r: %s" % ((e.get("reason") or "")[:80], "; ".join("%s (%s)" % b for b in bad)[:300]),
                                dict(base, kind="clauses", clauses=[b[0] for b in bad], details=[b[1] for b in bad], reason=e.get("reason"),
                                     span=e.get("span"), location=e.get("location")), None)
            else:
                ck.stat("lex-oracle", "ok")

    # ---------------------------------------------------------------- 3. Span.v vs implementation on the real spans
    if model_ok:
        # 3a compose_location on every reported (character) span: the reported location is the model's position of its ends
        seen, exprs, keys = set(), [], []
        for c in cases:
            a = c["ans"]
            items = list(c.get("spans", []))
            for sp, loc in items:
                s = c["files_by_id"].get(str(sp["source_id"]))
                if s is None or len(s) > 400:
                    continue
                kk = (s, sp["start"], sp["end"])
                if kk in seen:
                    continue
                seen.add(kk)
                exprs.append("compose_location %s (Span %d %d %d)" % (coq_codes(s), sp["start"], sp["end"], sp["source_id"]))
                keys.append((s, sp, loc))
        cap = ck.n(700, 4000)
        if len(exprs) > cap:
            idx = sorted(rng.sample(range(len(exprs)), cap))
            exprs = [exprs[i] for i in idx]; keys = [keys[i] for i in idx]
        try:
            vals = coq_eval(header, exprs)
        except RuntimeError as ex:
            vals = []
            ck.coverage["model_eval_error"] = str(ex)[-400:]
        for (s, sp, loc), v in zip(keys, vals):
            ck.count("corr-composed", json.dumps([s, sp["start"], sp["end"]]))
            mv = None if v == "None" else {"start": [v[1][0], v[1][1]], "end": list(v[1][2])}
            if mv != loc:
                ck.violation("Model/Span.v compose_location differs from the reported location for span %s: model %s, impl %s" % (sp, mv, loc),
                             {"src": s, "span": sp, "model": str(mv), "impl": str(loc), "kind": "correspondence"})
        # 3a' composed on arbitrary spans (harness c13compose: Error::new_simple + with_span -> ErrorMessages::from -> composed
        # against SourceTree::new): in and out of bounds, reversed, ids inside and outside the tree (0 = std.prql), 1-3 files
        trees, reqs, exprs, keys = [], [], [], []
        for _ in range(ck.n(70, 500)):
            files = ["".join(rng.choice(lc_alpha) for _ in range(rng.randint(0, 9))) for _ in range(rng.randint(1, 3))]
            # paths: mostly distinct, sometimes the same path twice (SourceTree.sources is keyed by path: the later content wins)
            pkeys = [rng.choice([0, 1]) for _ in files] if (len(files) > 1 and rng.random() < 0.5) else list(range(len(files)))
            spans = []
            for _ in range(8):
                fid = rng.choice([0, 1, 1, 1, 2, 2, 3, 4])
                ln = max(len(f) for f in files) if 1 <= fid <= len(files) else 6
                a, b = rng.randint(0, ln + 2), rng.randint(0, ln + 2)
                if a > b and rng.random() < 0.7:
                    a, b = b, a
                spans.append([a, b, fid])
            reqs.append({"files": [["f%d.prql" % k, f] for k, f in zip(pkeys, files)], "spans": spans})
            ck.stat("corr-composed-any", "paths:" + ("duplicate" if len(set(pkeys)) < len(pkeys) else "distinct"))
            for sp in spans:
                exprs.append("flat_composed (composed_one (tree_of_files [%s]) (Some (Span %d %d %d)))"
                             % ("; ".join("(%d%%N, %s)" % (k, coq_codes(f)) for k, f in zip(pkeys, files)), sp[0], sp[1], sp[2]))
                keys.append(([[k, f] for k, f in zip(pkeys, files)], sp))
        real = [x for r in harness("c13compose", reqs) for x in (r.get("ok") or [])]
        try:
            vals = coq_eval(header, exprs)
        except RuntimeError as ex:
            vals = []
            ck.coverage["model_eval_error"] = str(ex)[-400:]
        if vals and len(real) != len(vals):
            ck.violation("c13compose returned %d answers for %d spans" % (len(real), len(vals)), {"kind": "harness"}, no_input=True)
        for (files, sp), v, r in zip(keys, vals, real):
            ck.count("corr-composed-any", json.dumps([files, sp]))
            mv = model_composed(v)
            if "panic" in r:
                iv = "PANIC"
                ck.stat("corr-composed-any", "panic:" + ("reversed" if "Label start" in r["panic"].get("msg", "") else "out-of-bounds"))
            else:
                iv = (r["span"], r["location"])
                ck.stat("corr-composed-any", "span-removed" if r["span"] is None else "located")
                if r["display"] != (r["location"] is not None):
                    ck.violation("composed: display %s but location %s for span %s" % (r["display"], r["location"], sp), {"files": files, "span": sp, "kind": "correspondence"})
            if mv != iv:
                ck.violation("Model/Span.v composed_one differs from ErrorMessages::composed for span %s of files %r: model %s, impl %s" % (sp, files, mv, iv),
                             {"files": files, "span": sp, "model": str(mv), "impl": str(iv), "kind": "correspondence"})
        # 3a'' the `(index + 1) as u16` wrap: 65537 files; file 65535 gets id 0 (the id of std.prql), file 65536 takes id 1 from file 0
        big = [["g%d.prql" % i, ("a" if i == 0 else "bb" if i == 65536 else "ccc" if i == 65535 else "")] for i in range(65537)]
        wspans = [[0, 1, 1], [2, 2, 1], [0, 3, 0], [0, 1, 2], [0, 0, 65535]]
        wr = (harness("c13compose", [{"files": big, "spans": wspans}], shards=1)[0].get("ok") or [])
        whdr = header + ("Fixpoint mk_files (fuel : nat) (k : N) : list (N * source) := match fuel with O => [] | S f => "
                         "(k, if N.eqb k 0 then [97%N] else if N.eqb k 65536 then [98%N; 98%N] else if N.eqb k 65535 then [99%N; 99%N; 99%N] else []) :: mk_files f (k + 1)%N end.\n"
                         "Definition big_files := mk_files (N.to_nat 65537) 0%N.\n")
        try:
            wv = coq_eval(whdr, ["map (fun id => match tree_source big_files id with Some s => Some (length s) | None => None end) [1%N; 0%N; 2%N; 65535%N]"])[0]
        except RuntimeError as ex:
            wv = None
            ck.coverage["model_eval_error"] = str(ex)[-400:]
        if wv is not None and len(wr) == len(wspans):
            mlen = {1: wv[0], 0: wv[1], 2: wv[2], 65535: wv[3]}
            for sp, r in zip(wspans, wr):
                ck.count("corr-tree-wrap", json.dumps(sp))
                ml = mlen[sp[2]]
                ml = None if ml == "None" else ml[1]
                # model: the span is located iff the id names a file (the conversion clamps both ends to its -- ASCII -- length)
                want_located = ml is not None and sp[0] <= sp[1]
                got_located = "panic" not in r and r.get("location") is not None
                got_removed = "panic" not in r and r.get("span") is None
                clamped_ok = (not got_located) or (r["span"]["start"], r["span"]["end"]) == (min(sp[0], ml), min(sp[1], ml))
                if want_located != got_located or (ml is None) != got_removed or not clamped_ok:
                    ck.violation("SourceTree with 65537 files: span %s: the model says id %d names a text of %s characters, the implementation answers %s" % (sp, sp[2], ml, str(r)[:160]),
                                 {"span": sp, "model_len": ml, "impl": str(r)[:300], "kind": "correspondence"})
        else:
            ck.violation("SourceTree wrap case could not be evaluated (%s answers, model %s)" % (len(wr), wv), {"kind": "harness"}, no_input=True)
        # 3b convert_lexer_error on sources whose first lexer error has a byte span known by construction
        lexc = [c for c in cases if tpls[c["ti"]]["cls"] == "lexical" and not c["lex_ok"] and "err" in c["lex"] and len(c["src"]) < 300]
        lexc = lexc[: ck.n(150, 1200)]
        exprs = []
        for c in lexc:
            s = c["src"]
            bs = len(s[:c["off"]].encode("utf-8"))
            be = bs + len(c["tok"].encode("utf-8"))
            exprs.append("flat_lexerr (prql_to_tokens_error %s %d %d)" % (coq_codes(s), bs, be))
        try:
            vals = coq_eval(header, exprs)
        except RuntimeError as ex:
            vals = []
            ck.coverage["model_eval_error"] = str(ex)[-400:]
        for c, v in zip(lexc, vals):
            e = c["lex"]["err"][0]
            ck.count("corr-lexer-span", c["src"])
            m = re.match(r"^unexpected '(.*)'$", e["reason"], re.S)
            real_found = m.group(1) if m else ("" if "end of input" in e["reason"] else None)
            iv = (e.get("span"), e.get("location"), real_found)
            if isinstance(v, tuple) and v[0] == "Ret":
                x = v[1]
                mc = model_composed(("Ret", (x[0], x[1])))
                mv = (mc[0], mc[1], "".join(chr(o) for o in x[2]))
            else:
                mv = "PANIC" if v == "Panic" else None
            if mv != iv:
                ck.violation("Model/Span.v prql_to_tokens_error (convert_lexer_error + composed) differs from prql_to_tokens on %r: model %s, impl %s" % (c["src"], mv, iv),
                             {"src": c["src"], "model": str(mv), "impl": str(iv), "kind": "correspondence"})
        # 3c map_span: the parser error's span is (start of token i, end of token j-1) of the lexer's byte spans,
        # with i the token that starts at the offending text
        parc = [c for c in cases if c["lex_ok"] and tpls[c["ti"]]["cls"] == "syntactic" and not tpls[c["ti"]].get("interp")
                and "err" in c["ans"] and c["ans"]["err"] and c["ans"]["err"][0].get("span") and not c["multi"] and len(c["src"]) < 300]
        parc = parc[: ck.n(150, 1200)]
        exprs, exp = [], []
        for c in parc:
            toks = [(t["s"], t["e"]) for t in c["lex"]["ok"] if not t["skip"]]
            if not tpls[c["ti"]].get("check_tok", True) or not c["tok"]:
                continue
            bs = len(c["src"][:c["off"]].encode("utf-8"))
            be = bs + len(c["tok"].encode("utf-8"))
            idx = [i for i, t in enumerate(toks) if t[0] == bs and i > 0]
            if not idx:
                continue
            i = idx[0]
            # the marked text is the token range i..j (chumsky's range of token indices): j-1 is the token that ends it
            jdx = [k + 1 for k, t in enumerate(toks) if t[1] == be and k >= i]
            if not jdx:
                continue
            j = jdx[0]
            ck.stat("corr-map-span", "tokens=%d" % min(j - i, 3))
            # parser_error_reported = composed_one over map_span of the lexer's token BYTE spans: character span + location
            exprs.append("flat_composed (parser_error_reported %s [%s] %d %d)" % (coq_codes(c["src"]), "; ".join("(%d, %d)" % t for t in toks), i, j))
            e0 = c["ans"]["err"][0]
            exp.append((c, (e0["span"], e0["location"])))
        try:
            vals = coq_eval(header, exprs)
        except RuntimeError as ex:
            vals = []
            ck.coverage["model_eval_error"] = str(ex)[-400:]
        for (c, want), v in zip(exp, vals):
            ck.count("corr-map-span", c["src"])
            mv = model_composed(v)
            ck.stat("corr-map-span", "nonascii-before" if any(ord(ch) > 127 for ch in c["src"][:c["off"]]) else "ascii-before")
            if mv != want:
                ck.violation("Model/Span.v parser_error_reported (map_span + composed) differs from the parser's reported error on %r: model %s, impl %s" % (c["src"], mv, want),
                             {"src": c["src"], "model": str(mv), "impl": str(want), "kind": "correspondence"})

    # ---------------------------------------------------------------- 3d. interpolation rebasing over the string grammar
    # Model/InterpSpan.v predict_reported: from the text of the s-/f-string token and the true place of the offending text
    # inside it, the span the code reports (right or WRONG: the known-defect templates are predicted exactly, too)
    hdr_i = ("From Coq Require Import List NArith.\nFrom PV Require Import Model.Lexer Model.LexerGen Model.Span Model.InterpSpan.\n"
             "Import ListNotations.\n")
    ic, exprs = [], []
    seen_i = set()
    for c in cases:
        tp = tpls[c["ti"]]
        if not tp.get("interp") or c["multi"] or not c["lex_ok"] or "err" not in c["ans"] or not c["ans"]["err"] or c["src"] in seen_i or len(c["src"]) > 400:
            continue
        e0 = c["ans"]["err"][0]
        if not e0.get("span"):
            continue
        seen_i.add(c["src"])
        sb = c["src"].encode("utf-8")
        bs = len(c["src"][:c["off"]].encode("utf-8"))
        be = bs + len(c["tok"].encode("utf-8"))
        tk = [x for x in c["lex"]["ok"] if x["s"] <= bs and be <= x["e"] and x["e"] > x["s"] and sb[x["s"]:x["s"] + 1] in (b"s", b"f")]
        if len(tk) != 1:
            continue
        tk = tk[0]
        txt = sb[tk["s"]:tk["e"]].decode("utf-8")
        ic.append((c, tk, e0))
        exprs.append("(predict_reported gen_tables %s %d %d, token_len gen_tables %s)" % (coq_codes(txt), bs - tk["s"], be - tk["s"], coq_codes(txt)))
    cap = ck.n(300, 2500)
    if len(ic) > cap:
        idx = sorted(rng.sample(range(len(ic)), cap))
        ic = [ic[i] for i in idx]; exprs = [exprs[i] for i in idx]
    try:
        vals = coq_eval(hdr_i, exprs)
    except RuntimeError as ex:
        vals = []
        ck.coverage["model_eval_error"] = str(ex)[-400:]
    for (c, tk, e0), v in zip(ic, vals):
        ck.count("corr-interp-rebase", c["src"])
        real = (e0["span"]["start"], e0["span"]["end"])
        v, tl = v
        if tl == "None" or tl[1] != tk["e"] - tk["s"]:
            ck.violation("Model/InterpSpan.v token_len (prefix + quotes + source bytes of the items) is %s, the lexer's token span of %r has %d bytes" % (tl, c["src"], tk["e"] - tk["s"]),
                         {"src": c["src"], "model": str(tl), "impl": tk["e"] - tk["s"], "kind": "correspondence"})
        if v == "None":
            ck.violation("Model/InterpSpan.v cannot place the marked text in the string token of %r" % c["src"], {"src": c["src"], "kind": "correspondence"})
            continue
        x = v[1]
        pred = (tk["s"] + x[0], tk["s"] + x[1])
        quotes, esc = x[2][0], bool(x[2][1])
        sb0 = len(c["src"][:c["off"]].encode("utf-8"))
        right = pred == (sb0, sb0 + len(c["tok"].encode("utf-8")))
        ck.stat("corr-interp-rebase", "quotes=%d,escape-before=%s,%s" % (quotes, esc, "right" if right else "wrong"))
        if right != (quotes == 1 and not esc):
            ck.violation("interp_reported is %s for %d quote(s), escape before: %s on %r (contradicts c13_interp_rebase_exact)" % ("right" if right else "wrong", quotes, esc, c["src"]),
                         {"src": c["src"], "kind": "correspondence"})
        # the parser's span counts bytes; `composed` turns it into characters (or leaves it, when the wrong span ends inside a code point)
        pred = py_span_to_chars(c["src"], pred[0], pred[1])
        if pred != real:
            ck.violation("Model/InterpSpan.v interp_reported differs from the span reported for the error inside the string of %r: model %s, impl %s" % (c["src"], pred, real),
                         {"src": c["src"], "model": str(pred), "impl": str(real), "kind": "correspondence"})

    # ---------------------------------------------------------------- 4. respan_std vs Resolver::fold_function (hook verif:respan)
    # every error that leaves fold_function logs (span of the error of the inner fold, span of the call, span of the
    # returned error, branch taken); the model is evaluated on the same two inputs.  Fails closed without the hook.
    rs_cases, seen_rs = [], set()
    directed_rs = ["from t | take 1..2..3", "from t | take \"x\"", "from t | window rows:1..0 (derive {x1 = count a})",
                   "from t | select {a} | filter b > 1", "from t | derive {x = (min a b c)}",
                   "let f = func x<int> -> x\nfrom t | derive z = f \"a\"",
                   "from t | group {a} (window rows:1..0 (derive {x1 = count a}))",
                   "from t | group a (take 1..2..3)", "from t | join (from u | take 1..2..3) (==id)",
                   "let g = func r -> (r | take 1..2..3)\nfrom t | g", "# é\nfrom t | take 1..2..3"]
    for s in directed_rs:
        rs_cases.append({"src": s, "target": None}); seen_rs.add(s)
    for c in cases:
        if c["multi"] or c["cls"] not in ("resolution", "type", "sql") or c["src"] in seen_rs or len(c["src"]) > 600:
            continue
        seen_rs.add(c["src"])
        rs_cases.append({"src": c["src"], "target": c["target"]})
    rs_cases = rs_cases[:len(directed_rs)] + rng.sample(rs_cases[len(directed_rs):], min(len(rs_cases) - len(directed_rs), ck.n(300, 2500)))
    rs_ans = harness("log", [dict(src=c["src"], want=[], msg_prefix="verif:respan", **({"target": c["target"]} if c["target"] else {})) for c in rs_cases])
    lines, lines2 = [], []
    for c, a in zip(rs_cases, rs_ans):
        got = []
        for e in a.get("entries") or []:
            m = e.get("Message") if isinstance(e, dict) else None
            if m and m.startswith("verif:respan "):
                try:
                    got.append(json.loads(m[len("verif:respan "):]))
                except ValueError:
                    ck.violation("unreadable verif:respan line %r" % m[:200], {"src": c["src"], "kind": "hook"})
        ck.stat("corr-respan", "lines-per-compile=%d" % min(len(got), 4))
        for d in got:
            lines.append((c, d, a))
        # v2 of the hook (hooks/respan2.diff, re-entrance guard): `out` is the span of the error that fold_function REALLY returned
        got2 = []
        for e in a.get("entries") or []:
            m = e.get("Message") if isinstance(e, dict) else None
            if m and m.startswith("verif:respan2 "):
                got2.append(json.loads(m[len("verif:respan2 "):]))
        if got2:
            if [(d["err"], d["call"], d["out"]) for d in got2] != [(d["err"], d["call"], d["out"]) for d in got]:
                ck.violation("hook verif:respan2 (value really returned by fold_function) disagrees with verif:respan on %r: %s vs %s" % (c["src"], got2, got),
                             {"src": c["src"], "v2": got2, "v1": got, "kind": "correspondence"})
            for d in got2:
                lines2.append((c, d))
    if not lines:
        ck.violation("the hook `verif:respan` (hooks/respan.diff, Resolver::fold_function) produced no line over %d erroneous compiles: "
                     "the tree lacks the hook, so respan_std has no correspondence" % len(rs_cases), {"kind": "hook-missing", "hook": "verif:respan"}, no_input=True)
    coq_sp = lambda x: "None" if x is None else "(Some (Span (N.to_nat %d) (N.to_nat %d) %d))" % (x[0], x[1], x[2])
    uniq = {}
    for c, d, a in lines:
        uniq.setdefault(json.dumps([d["err"], d["call"]]), []).append((c, d))
    keys = list(uniq)
    try:
        vals = coq_eval(header, ["(flat_sp (respan_std %s %s), respan_moves %s %s)" % (coq_sp(e), coq_sp(cl), coq_sp(e), coq_sp(cl))
                                 for e, cl in (json.loads(k) for k in keys)])
    except RuntimeError as ex:
        vals = []
        ck.coverage["model_eval_error"] = str(ex)[-400:]
    for k, v in zip(keys, vals):
        mo = None if v[0] == "None" else list(v[0][1])
        mm = bool(v[1])
        for c, d in uniq[k]:
            ck.count("corr-respan", json.dumps([c["src"], d["err"], d["call"]]))
            ck.stat("corr-respan", "err:%s,call:%s,%s" % ("none" if d["err"] is None else ("std" if d["err"][2] == 0 else "user"),
                                                             "none" if d["call"] is None else ("std" if d["call"][2] == 0 else "user"),
                                                             "moved" if d["moved"] else "kept"))
            if mo != d["out"] or mm != d["moved"]:
                ck.stat("corr-respan", "DISAGREE")
                ck.violation("Model/Span.v respan_std differs from Resolver::fold_function on error span %s, call span %s: model %s (moves=%s), impl %s (moved=%s)"
                             % (d["err"], d["call"], mo, mm, d["out"], d["moved"]),
                             {"src": c["src"], "err": d["err"], "call": d["call"], "model": mo, "impl": d["out"], "kind": "correspondence"})
    # v2 lines against the model (the real returned value); absent until hooks/respan2.diff is in the tree
    ck.coverage["respan2_hook"] = "present" if lines2 else "absent"
    if lines and not lines2:
        ck.violation("the hook `verif:respan2` (committed in 02d89ec: the span fold_function really returns) produced no line although verif:respan did",
                     {"kind": "hook-missing", "hook": "verif:respan2"}, no_input=True)
    uniq2 = {}
    for c, d in lines2:
        uniq2.setdefault(json.dumps([d["err"], d["call"]]), []).append((c, d))
    keys2 = list(uniq2)
    try:
        vals2 = coq_eval(header, ["flat_sp (respan_std %s %s)" % (coq_sp(e), coq_sp(cl)) for e, cl in (json.loads(k) for k in keys2)])
    except RuntimeError as ex:
        vals2 = []
        ck.coverage["model_eval_error"] = str(ex)[-400:]
    for k, v in zip(keys2, vals2):
        mo = None if v == "None" else list(v[1])
        for c, d in uniq2[k]:
            ck.count("corr-respan2", json.dumps([c["src"], d["err"], d["call"]]))
            if mo != d["out"]:
                ck.stat("corr-respan2", "DISAGREE")
                ck.violation("Model/Span.v respan_std differs from the span of the error fold_function returned (hook v2) on error span %s, call span %s: model %s, impl %s"
                             % (d["err"], d["call"], mo, d["out"]), {"src": c["src"], "err": d["err"], "call": d["call"], "model": mo, "impl": d["out"], "kind": "correspondence"})
    # the chain fold_function -> composed: the span of the (single) reported error is what `composed` makes of the span that
    # the outermost fold_function returned (kept when it names the file, removed when it is a span of std.prql)
    for c, a in zip(rs_cases, rs_ans):
        got = [d for (c2, d, _) in lines if c2 is c]
        if not got or "err" not in a or len(a["err"]) != 1 or got[-1]["out"] is None:
            continue
        out = got[-1]["out"]
        if out[2] == 1:
            ca, cb = py_span_to_chars(c["src"], out[0], out[1])
            want = {"start": ca, "end": cb, "source_id": 1}
        else:
            want = None
        ck.count("chain-respan-composed", c["src"])
        if a["err"][0].get("span") != want:
            ck.violation("the reported span %s is not what `composed` makes of the span %s returned by the outermost fold_function" % (a["err"][0].get("span"), out),
                         {"src": c["src"], "out": out, "reported": a["err"][0].get("span"), "kind": "chain"})

    # evidence: located-ness per Error::new_simple site
    gl = sorted(site_groups.values(), key=lambda g: (g["file"], g["lines"][0]))
    ck.coverage["new_simple_sites"] = {
        "sites": sum(len(g["lines"]) for g in gl), "distinct_messages": len(gl),
        "seen_with_span": [{"site": "%s:%s" % (g["file"], ",".join(map(str, g["lines"]))), "text": g["text"][:90], "cases": g["with_span"], "also_without_span": g["without_span"]}
                           for g in gl if g["with_span"]],
        "seen_only_without_span": [{"site": "%s:%s" % (g["file"], ",".join(map(str, g["lines"]))), "text": g["text"][:90], "cases": g["without_span"], "example": g["example"]}
                                   for g in gl if not g["with_span"] and g["without_span"]],
        "not_reached": [{"site": "%s:%s" % (g["file"], ",".join(map(str, g["lines"]))), "text": g["text"][:90]}
                        for g in gl if g["rx"] is not None and not g["with_span"] and not g["without_span"]],
        "message_not_in_source": [{"site": "%s:%s" % (g["file"], ",".join(map(str, g["lines"]))), "text": g["text"][:90]} for g in gl if g["rx"] is None],
        "note": "a message shared by several sites (same file, same text) is one row; located-ness evidence = an error of that message was "
                "returned with a span and passed every clause of the oracle (or was classified as a known finding)",
    }
    ck.proof_broken_violation(found_input=bool(ck.violations))
    if "error" in ginfo:
        ck.coverage["translator_error"] = ginfo["error"]
    if "error" in linfo:
        ck.coverage["translator_error_lex_tables"] = linfo["error"]
    ck.assumptions += ["lines are delimited by the Unicode mandatory breaks (what ariadne implements); editors that do not treat VT/FF/NEL/LS/PS as line ends number lines differently",
                       "a position at the very end of a text that ends with a terminator is reported on the last line (ariadne's convention), accepted by the oracle",
                       "spans of secondary errors (after the first) are checked for bounds/location/display but not against the template's offending token"]
    ck.finish(TRUSTED, "templates (%d, five classes, each with a marked offending token) x prefix classes %s x placements (comment lines, let statements, inline string) x single/multi-file; a case is one (source tree, target); non-trivial = distinct source text; plus exhaustive offsets of random line-structured texts for the ariadne/model/oracle triple" % (len(tpls), PREFIX_CLASSES))

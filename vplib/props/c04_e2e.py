"""C04 end-to-end oracle: window programs -> prqlc -> SQLite  vs  reference semantics (Model/Window.v on Rel.v).
Judgement: every row of SQLite's result equals the reference result (multisets: order is C03's clause; order
sensitivity enters through `take` after a sort by a windowed value), and the row count is preserved."""
import json
import re

from ..rel import prog as P, run as R, e2e as E, wingen as W

FN_SQL = {"sum": "SUM", "min": "MIN", "max": "MAX", "average": "AVG", "count": "COUNT", "lag": "LAG", "lead": "LEAD", "first": "FIRST_VALUE",
          "last": "LAST_VALUE", "rank": "RANK", "rank_dense": "DENSE_RANK", "row_number": "ROW_NUMBER"}


def judge(rec):
    v = rec["verdict"]
    if v in ("ok", "names"):
        return None                      # column names are C05's clause
    if v == "rows":
        if R.rows_equal(rec["sqlite_rows"], rec["model_rows"], ordered=False):
            return None
        if len(rec["sqlite_rows"]) != len(rec["model_rows"]):
            return "row count differs (%d rows, the pipeline denotes %d)" % (len(rec["sqlite_rows"]), len(rec["model_rows"]))
        return "windowed values differ from the documented segment's"
    if v == "sql-err":
        return "emitted SQL does not execute: %s" % str(rec.get("sqlite"))[:160]
    if v == "panic":
        return "compiler panicked: %s" % str(rec.get("compile"))[:200]
    if v == "compile-err":
        return "well-formed window program rejected: %s" % str([e.get("reason") for e in rec["compile"].get("err", [])])[:300]
    return "model evaluation missing"


def _later_text(pg, name):
    """is the column `name` mentioned by a step after the one that defines it (other than the final projection)?"""
    seen = False
    for s in pg.steps:
        if seen and not s.info.get("final") and re.search(r"\b%s\b" % re.escape(name), s.prql or s.coq):
            return True
        if re.search(r"\b%s\s*=" % re.escape(name), s.prql or ""):
            seen = True
    return False


def over_clauses(sql, fn):
    """texts inside OVER (...) that follow a call of SQL function fn; None entries = call without OVER"""
    out = []
    for m in re.finditer(r"\b%s\(" % re.escape(fn), sql):
        # skip the balanced argument list
        i, d = m.end(), 1
        while i < len(sql) and d:
            d += {"(": 1, ")": -1}.get(sql[i], 0)
            i += 1
        mm = re.match(r"\s*OVER \(", sql[i:])
        if not mm:
            out.append(None)
            continue
        j = i + mm.end()
        k, d = j, 1
        while k < len(sql) and d:
            d += {"(": 1, ")": -1}.get(sql[k], 0)
            k += 1
        out.append(sql[j:k - 1])
    return out


def classify(rec):
    """narrow classes of the known defects of the unchanged tree a window program can run into"""
    fid = E.classify_common(rec)
    if fid is not None:
        return fid
    pg = rec["program"]
    sql = rec.get("sql") or ""
    v = rec["verdict"]
    wcols = pg.meta.get("wcols") or {}
    # F51: a window function written directly as a sort key is lowered without any window (no OVER)
    direct = [m for m in wcols.values() if m.get("sortdirect")]
    if direct and v in ("rows", "sql-err"):
        calls = over_clauses(sql, FN_SQL[direct[0]["fn"]])
        if calls and all(c is None for c in calls):
            return "F51-window-fn-as-sort-key"
    # F54: rows:0..-1 / range:0..-1 written out is taken for "argument not given" (whole partition) instead of the empty
    #      segment (every other empty range is rejected since /repo 7b31f75: F52 is fixed and classifies nothing)
    # F22: first/last never get a frame clause
    for fid, flag in (("F54-explicit-default-range-is-not-given", "f54"), ("F22-first-last-no-frame", "f22")):
        bad = {n: m for n, m in wcols.items() if m.get(flag)}
        if not (bad and v == "rows" and "sqlite_rows" in rec):
            continue
        if flag == "f22":
            # the emitted FIRST_VALUE/LAST_VALUE calls carry no frame clause
            calls = [c for f in ("FIRST_VALUE", "LAST_VALUE") for c in over_clauses(sql, f)]
            if not calls or any(c is not None and re.search(r"\b(ROWS|RANGE|GROUPS) BETWEEN\b", c) for c in calls):
                continue
        else:
            # the frame that reached SQL is the whole partition (explicit or elided), not an empty one
            calls = [c for m in bad.values() for c in over_clauses(sql, FN_SQL[m["fn"]])]
            if not calls or any(c is not None and re.search(r"BETWEEN (?!UNBOUNDED PRECEDING AND UNBOUNDED FOLLOWING)", c) for c in calls):
                continue
        consumed = any(m.get("consumed") or _later_text(pg, n) for n, m in bad.items())
        if consumed:
            return fid          # the wrong value feeds a filter / sort / aggregate / expression
        cols = rec.get("sqlite_cols") or []
        names = rec.get("model_names") or []
        if len(cols) != len(names):
            continue
        allbad = {n for n, m in wcols.items() if m.get("f22") or m.get("f54")}
        keep = [i for i, c in enumerate(cols) if c not in allbad]
        if len(keep) == len(cols):
            continue
        a = [[r[i] for i in keep] for r in rec["sqlite_rows"]]
        b = [[r[i] for i in keep] for r in rec["model_rows"]]
        if R.rows_equal(a, b, ordered=False):
            return fid          # every other column agrees
    return None


def summarize(rec):
    return {"prql": rec["prql"], "target": rec["target"], "verdict": rec["verdict"], "rows": len(rec.get("sqlite_rows") or []), "sql": (rec.get("sql") or "")[:300]}


def run_stream(ck, stream, cases, targets, sample_every=211):
    recs = W.run_cases(cases, targets=targets)
    for i, rec in enumerate(recs):
        pg = rec["program"]
        ck.count(stream, json.dumps([rec["prql"], rec["target"], rec["instance"]], sort_keys=True),
                 nontrivial=bool(rec.get("sqlite_rows")) or rec["verdict"] != "ok")
        ck.stat(stream, "verdict:" + rec["verdict"])
        ck.stat(stream, "rows:%d" % min(len(rec.get("model_rows") or []), 9))
        for s in pg.steps:
            if s.kind in ("win", "group_win"):
                fr = s.info.get("frame") or ("none",)
                ck.stat(stream + "-frames", fr[0] if fr[0] in ("none", "expanding", "rolling") else "%s:%s..%s" % (fr[0], "" if fr[1] is None else fr[1], "" if fr[2] is None else fr[2]))
                for f in s.info.get("fns") or []:
                    ck.stat(stream + "-functions", f)
                ck.stat(stream, "partition:%s sort:%s" % (s.info.get("part", s.info.get("by")), s.info.get("sort", "gen")))
                ck.stat(stream, "placement:%s" % s.info.get("placement", "derive"))
        c = pg.meta.get("case")
        if c is not None:
            ck.stat(stream, "context:%s>%s" % (c.pre, c.post))
        ncte = (rec.get("sql") or "").count(" AS (SELECT")
        ck.stat(stream, "ctes:%d" % min(ncte, 4))
        why = judge(rec)
        if i % sample_every == 0:
            ck.sample(summarize(rec))
        if pg.meta.get("range_invalid") and any(m["fn"] in ("sum", "min", "max", "average", "count") for m in (pg.meta.get("wcols") or {}).values()):
            # a RANGE offset over no sort key or several, used by a function that takes a frame clause: the modelled error
            reasons = [e.get("reason") for e in (rec.get("compile") or {}).get("err", [])] if rec["verdict"] == "compile-err" else None
            if reasons == [W.RANGE_KEYS_MSG]:
                ck.stat(stream, "rejected-as-modelled")
                continue
            dead = rec.get("sql") is not None and not re.search(r"RANGE BETWEEN (?:\d+ (?:PRECEDING|FOLLOWING)|[A-Z ]+ AND \d+ (?:PRECEDING|FOLLOWING))", rec["sql"])
            if dead:
                # the column that would carry the frame is not used downstream and never reaches translate_windowed
                ck.stat(stream, "range-offset-column-dead")
            else:
                ck.stat(stream, "disagreement:UNEXPLAINED")
                ck.disagreement("a range frame with an offset over %s is not rejected as the model of translate_windowed says (%s): %s [%s]" % (
                    "several sort keys / none", rec["verdict"], rec["prql"].replace("\n", " | ")[:300], rec["target"]), R.replay_of(rec), lambda _c: None)
                continue
        rej = pg.meta.get("rejected")
        if rej:
            # an empty rows / range argument: the program must be rejected with exactly the modelled error
            reasons = [e.get("reason") for e in (rec.get("compile") or {}).get("err", [])] if rec["verdict"] == "compile-err" else None
            if reasons == [W.EMPTY_RANGE_MSG % rej]:
                ck.stat(stream, "rejected-as-modelled")
                continue
            ck.stat(stream, "disagreement:UNEXPLAINED")
            ck.disagreement("a `%s` argument that is an empty range is not rejected as the model of the `window` transform says (%s): %s [%s]" % (
                rej, rec["verdict"], rec["prql"].replace("\n", " | ")[:300], rec["target"]), R.replay_of(rec), lambda _c: None)
            continue
        if why is None:
            continue
        fid = classify(rec)
        if fid is not None and fid.startswith("oracle-"):
            ck.stat(stream, "skipped:" + fid)
            continue
        got = ck.disagreement("%s: %s [%s]" % (why, rec["prql"].replace("\n", " | ")[:300], rec["target"]), R.replay_of(rec), lambda _c, f=fid: f)
        ck.stat(stream, "disagreement:" + (got or "UNEXPLAINED"))
    return recs


# ------------------------------------------------------------------ case streams
def directed_cases(ck):
    """partition x sort keys x frame x function, exhaustive in (partition, sort mode, frame): every frame (rows and
    range with bounds {open,-2..2}, rolling 1..3, expanding, none) under every partition/sort mode it is defined
    for; 3 functions per program, 2 programs per point in the quick tier (6 of the 12 functions, rotating with
    the seed), 4 in the thorough tier (all 12 functions x all frames x all modes)."""
    rng = ck.rng
    cases = []
    frames = W.all_frames()
    for part in (None, "g"):
        for sort in W.SORTS:
            fl = [f for f in frames if W.range_frame_ok(sort, f)]
            for fr in fl:
                proto = W.Case(part, sort, fr, ())
                reps = 4 if ck.thorough else (2 if sort in ("id", "c") else 1)
                pool = list(W.FUNCS)
                rng.shuffle(pool)
                for rep in range(reps):
                    fns = []
                    for j in range(3):
                        f = pool[(rep * 3 + j) % 12]
                        fns.append(W.pick_fns(rng, proto, ["id", "a", "b", "c", "g"], 1, pool=[f])[0])
                    cases.append(W.Case(part, sort, fr, tuple(fns), "derive", paren=rng.random() < 0.5))
    return cases


def placement_cases(ck):
    """placement (derive / select / filter / sort by the value) x context before and after a split"""
    rng = ck.rng
    cases = []
    frames = W.all_frames()
    n = ck.n(1200, 8000)
    tries = 0
    while len(cases) < n and tries < n * 30:
        tries += 1
        part = rng.choice([None, None, "g"])
        sort = rng.choice(["id", "id", "-id", "c,id", "-c,id", "a,-id", "c", "a", "none"])
        fr = rng.choice(frames) if rng.random() < 0.8 else ("none",)
        pl = rng.choice(["derive", "derive", "select", "filter", "filter", "sort"])
        pre = rng.choice(["none", "none", "filter", "take", "groupagg", "join"])
        post = rng.choice(["none", "filter", "take", "aggregate", "groupagg", "derive", "window2"])
        proto = W.Case(part, sort, fr, (), pl, pre, post)
        avail = ["g", "c", "b", "id"] if pre == "groupagg" else ["id", "a", "b", "c", "g"]
        # functions whose wrong value (F22) would taint a whole row are kept out of consuming contexts here;
        # they have their own stream (f22_cases)
        pool = [f for f in W.FUNCS if not W.f22_class(f, fr, sort != "none") or (pl in ("derive", "select") and post in ("none", "take"))]
        fns = W.pick_fns(rng, proto, avail, 1 if pl in ("filter", "sort") else rng.randint(1, 2), pool=pool)
        c = W.Case(part, sort, fr, fns, pl, pre, post, thr=rng.choice([0, 1, 2]), paren=rng.random() < 0.5, side=rng.choice(["Inner", "LeftJ"]))
        if W.valid(c):
            cases.append(c)
    return cases


def f22_cases(ck):
    """first / last under every class of frame, incl. values consumed by filter / aggregate"""
    rng = ck.rng
    cases = []
    frames = W.all_frames()
    for part in (None, "g"):
        for sort in ("id", "-id", "c", "none", "c,id"):
            for fr in frames:
                if not W.range_frame_ok(sort, fr):
                    continue
                if not ck.thorough and rng.random() > 0.6:
                    continue
                proto = W.Case(part, sort, fr, ())
                fns = tuple(W.pick_fns(rng, proto, ["id", "a", "b", "c", "g"], 1, pool=[f])[0] for f in ("first", "last"))
                cases.append(W.Case(part, sort, fr, fns, "derive"))
    for _ in range(ck.n(120, 600)):
        sort = rng.choice(["id", "-id", "c,id"])
        fr = rng.choice(frames)
        if not W.range_frame_ok(sort, fr):
            continue
        part = rng.choice([None, "g"])
        pl, post = rng.choice([("filter", "none"), ("derive", "filter"), ("derive", "aggregate"), ("sort", "take")])
        if part is not None and post == "take":
            continue
        proto = W.Case(part, sort, fr, ())
        fns = W.pick_fns(rng, proto, ["id", "a", "b", "c", "g"], 1, pool=["first", "last"])
        c = W.Case(part, sort, fr, fns, pl, "none", post, thr=rng.choice([0, 1]))
        if W.valid(c):
            cases.append(c)
    return cases


def sortdirect_cases(ck):
    rng = ck.rng
    cases = []
    for f in W.FUNCS:
        for sort in ("id", "none", "-id"):
            for fr in (("none",), ("rows", -1, 0)):
                proto = W.Case(None, "id", fr, ())
                fns = W.pick_fns(rng, proto, ["id", "a", "b", "c", "g"], 1, pool=[f])
                c = W.Case(None, sort, fr, fns, "sortdirect")
                if sort == "none":
                    c = W.Case(None, "none", fr, ((fns[0][0], fns[0][1], ("col", None, "c")),), "sortdirect")
                    continue   # unsorted + positional: not deterministic
                cases.append(c)
    return cases


def empty_range_cases(ck):
    """rows / range arguments whose start is after their end: rejected (7b31f75) -- except the spelling 0..-1 of the
    default, which still means the whole partition where the book's inclusive bounds give the empty segment (F54)"""
    rng = ck.rng
    cases = []
    for kind in ("rows", "range"):
        for a, b in ((1, 0), (0, -1), (2, -1), (1, -2), (2, 1), (-1, -2)):
            for part in (None, "g"):
                for sort in (("id", "c") if kind == "range" else ("id", "-id", "c", "c,id")):
                    if not ck.thorough and rng.random() > 0.5:
                        continue
                    proto = W.Case(part, sort, (kind, a, b), ())
                    pool = list(W.FUNCS)
                    rng.shuffle(pool)
                    fns = tuple(W.pick_fns(rng, proto, ["id", "a", "b", "c", "g"], 1, pool=[f])[0] for f in pool[:3])
                    cases.append(W.Case(part, sort, (kind, a, b), fns, "derive"))
    return cases


def range_x_cases(ck):
    """range frames beyond one ascending key: descending single keys with every bound; several keys, NULL keys and no
    sort with every offset-free bound pair (peers); and the combinations no engine accepts (offset x several keys / none)"""
    rng = ck.rng
    cases = []
    rframes = [f for f in W.all_frames(kinds=("range",)) if f[0] == "range"]
    for part in (None, "g"):
        for sort in ("-id", "-c", "c,id", "-c,id", "a,-id", "a", "none"):
            for fr in rframes:
                ok = W.range_frame_ok(sort, fr)
                if not ok and not W.range_invalid(sort, fr):
                    continue
                if not ok and not ck.thorough and rng.random() > 0.25:
                    continue
                proto = W.Case(part, sort, fr, ())
                pool = [f for f in W.FUNCS if not W.f22_class(f, fr, sort != "none")]
                rng.shuffle(pool)
                fns = tuple(W.pick_fns(rng, proto, ["id", "a", "b", "c", "g"], 1, pool=[f])[0] for f in (["sum", "count"] + pool)[:3])
                c = W.Case(part, sort, fr, fns, "derive", paren=rng.random() < 0.5)
                if W.valid(c):
                    cases.append(c)
    return cases


def with_instances(ck, cases, n_inst=1):
    out = []
    for c in cases:
        pg = W.build(c)
        if pg is None:
            continue
        out.append((pg, [W.gen_instance(ck.rng) for _ in range(n_inst)]))
    return out


def random_cases(ck, n):
    g = W.WinGen(ck.rng, max_steps=6, weights={"win": 4.0, "group_win": 3.0, "join": 0.6, "append": 0.0, "distinct": 0.2, "sort": 3.0})
    cases = []
    for _ in range(n):
        force = ck.rng.choice([["sort", "win"], ["group_win"], ["sort", "win", "filter"], ["filter", "sort", "win"], ["sort", "take", "win"], ["sort", "win", "take"],
                               ["group_win", "filter"], ["sort", "win", "aggregate"], ["group_win", "group_agg"], ["sort", "win", "sort", "win"],
                               ["sort", "join", "win"], ["sort", "join", "win", "filter"], []])
        pg = g.program(force=force)
        cases.append((pg, [W.gen_instance(ck.rng)]))
    return cases

"""C12 -- no input makes a public entry point panic, abort or hang."""
import copy
import json
import re

from ..common import Check, coq_eval, harness, load_findings
from ..translate import gen_sites, gen_unpack
from .. import rqcoq
from . import c12_corr as CR
from . import c16_wf
from . import c12_streams as S
from . import c12_strings as ST
from .c12_run import probe

TRUSTED = [
    "Coq 8.16.1 kernel (coqc, vm_compute); no axioms: every theorem is 'Closed under the global context'",
    "translator vplib/translate/gen_unpack.py (arms of resolve_special_func with the N of unpack::<N>; `.. -> internal <name>` declarations of std.prql with their parameter counts; fail closed)",
    "translator vplib/translate/gen_sites.py (regex/brace scanners over every library source file; counts per (file, kind) and text pins of the modelled functions; fail closed) and the recorded baseline coq/Model/SitesBaseline.v",
    "Model/Checked.v restates Rust's debug-build semantics of + - * neg on i64/usize/u16, checked_*/saturating_*/unsigned_abs, slicing, unwrap, assert!; Model/RangeArith.v and Model/Span.v restate range_of_ranges, the LIMIT/OFFSET lines, IdGenerator::skip/gen/load, the constant folding of std.neg, the window frame bounds, convert_lexer_error, composed by hand; they are run against the implementation on every run (take_sql, id_load, frame_bounds, static_neg: streams corr-*)",
    "Model/WidthArith.v (consume_width, reset_line, the widening loop of write_or_expand) and Model/ReviewedSites.v (guards of the sites added since the last baseline) restate private code that no entry point exposes: they are tied by the text pins of Gen/GenSites.v and by the probes (long tokens), not by an input/output comparison",
    "the harness: every entry point under catch_unwind in a thread with a fixed stack; process aborts and hangs observed by the parent with a wall-clock cap (harness/src/main.rs cmd_probe, vplib/props/c12_run.py)",
    "RUNTIME FACTS NOT PROVED: stack depth, wall-clock time (the polynomial bound of the parser and of the formatter after e945e0b / c8b3817 is MEASURED: directed depths 30..1000 under the cap, growth at n, 2n, 4n), allocation failure; chumsky, serde_json, sqlparser, sqlformat internals; that the formatter's layout succeeds at the unlimited width (hypothesis of c12_write_or_expand_terminates); the ~440 unwrap/expect/index sites outside the modelled functions are counted against a baseline, not proved unreachable",
]

LINEAR_FAMILIES = ("paren", "negparen", "call", "case", "fstring-holes", "comments", "newlines", "close-paren", "quotes-open", "dots", "at", "func-curry")
DIALECTS = ["sql.generic", "sql.sqlite", "sql.postgres", "sql.mssql", "sql.mysql", "sql.bigquery", "sql.clickhouse",
            "sql.duckdb", "sql.snowflake", "sql.ansi", "sql.glaredb", "sql.redshift"]
I64MAX = 9223372036854775807


# ----------------------------------------------------------------------------- sites and predicates
def site_of(panic):
    loc = panic.get("loc", "")
    f = loc.rsplit(":", 1)[0]
    if "/library/" in f:
        f = "rust:" + f.split("/library/", 1)[1]
    elif "/prqlc/prqlc" in f:
        f = "prqlc/prqlc" + f.split("/prqlc/prqlc", 1)[1]
    elif "/.cargo/registry/" in f:
        f = "dep:" + re.sub(r"^.*/registry/src/[^/]+/", "", f)
    msg = re.sub(r"\d+", "N", panic.get("msg", ""))
    return f, msg


def nest_metric(src):
    """structural size of a source: the deepest bracket nesting or the longest flat chain"""
    depth = best = 0
    for ch in src:
        if ch in "([{":
            depth += 1
            best = max(best, depth)
        elif ch in ")]}":
            depth = max(0, depth - 1)
    chain = max(src.count("|") + src.count("\n"), len(re.findall(r"[+\-*/%?&<>=!.]", src)), src.count("func"), src.count("@"))
    return max(best, chain)


def bracket_depth(src):
    depth = best = 0
    for ch in src:
        if ch in "([{":
            depth += 1
            best = max(best, depth)
        elif ch in ")]}":
            depth = max(0, depth - 1)
    return best


def rq_doc_wf(text):
    """the staged-API precondition of an RQ document: C16's (strict) rq_wf (Model/RqWf.v) and rq_agg_ok (Model/RqAgg.v), through
    C16's python mirrors: True / False, or None when the document is not in the normal form the mirror reads"""
    try:
        q = rqcoq.norm(json.loads(text))
        from .c16 import agg_overlaps          # mirror of Model/RqAgg.v (C16 cross-validates it against Coq)
        return bool(c16_wf.rq_wf(q)) and not agg_overlaps(q)
    except Exception:
        return None


def relation_namesake(src):
    """some relation argument is a dotted path A.x.. and another one is the bare A"""
    paths = re.findall(r"\b(?:from|join|append|remove|intersect|union)\s+(?:side:\w+\s+)?\(?\s*(?:from\s+)?([A-Za-z_][A-Za-z_0-9]*(?:\.[A-Za-z_][A-Za-z_0-9]*)*)", src)
    heads = {p.split(".")[0] for p in paths if "." in p}
    return any("." not in p and p in heads for p in paths)


OP_ARITIES = {}      # operator name -> numbers of arguments seen in the RQs prqlc emitted in this run (filled by run())


def rq_operator_names(text, with_arity=False):
    """names (or (name, number of arguments)) of the Operator nodes of an RQ document"""
    out = []

    def walk(v):
        if isinstance(v, dict):
            op = v.get("Operator")
            if isinstance(op, dict) and isinstance(op.get("name"), str):
                out.append((op["name"], len(op["args"]) if isinstance(op.get("args"), list) else -1) if with_arity else op["name"])
            for x in v.values():
                walk(x)
        elif isinstance(v, list):
            for x in v:
                walk(x)
    try:
        walk(json.loads(text))
    except ValueError:
        pass
    return out


# input predicates of the OPEN findings only (the predicates of fixed findings were removed with the fix: nothing can
# be classified as F7 F15 F29 N1 N2 N5 N6 N7 N8 N9 N10 N11 N12 N13 N14 N15 N16 N17 N18 F9 H1 H2 any more)
PRED = {
    # C12-N3 as a precondition (c12_rq_staged_precondition): a structurally mutated RQ that does NOT satisfy rq_wf && rq_agg_ok
    "mutated-rq-json": lambda c: (c["entry"] == "json_rq" and c.get("family", "").startswith("json:") and c.get("family") not in ("json:orig", "json:int:lit")
                                  and rq_doc_wf(c["src"]) is not True),
    # C12-N19: a dotted name A.x and the bare A used as a relation
    "qualified-table-and-namesake": lambda c: relation_namesake(c["src"]),
    # C12-N20: the main relation of an RQ document is an ExternRef
    "rq-main-relation-extern-ref": lambda c: c["entry"] == "json_rq" and re.search(r'"relation":\s*\{(?:(?!"kind").)*"kind":\s*\{\s*"ExternRef"', c["src"][:c["src"].find('"tables"')] if '"tables"' in c["src"] and c["src"].find('"relation"') < c["src"].find('"tables"') else c["src"], re.S) is not None,
    "mutated-pl-json": lambda c: c["entry"] == "json_pl" and c.get("family", "").startswith("json:") and c.get("family") not in ("json:orig", "json:int:lit"),
    "deep-or-long": lambda c: True,   # refined by thresholds below
    # C12-H3: at least 10 named arguments whose value opens a parenthesis (`x:(`), nested
    "nested-named-args": lambda c: len(re.findall(r"[A-Za-z_][A-Za-z_0-9]*:\(", c["src"])) >= 10 and bracket_depth(c["src"]) >= 10,
    # C12-H4: at least 10 unclosed `(`, each behind an operator that also has a prefix form (+ - * == .. and the alias `=`)
    "unclosed-after-prefix-operator": lambda c: c["src"].count("(") - c["src"].count(")") >= 10 and len(re.findall(r"(?:\+|-|\*|==|(?<![=!<>~])=|\.\.|:)\s*\(", c["src"])) >= 10,
}


def make_classifier(findings):
    fs = [f for f in findings if f.get("status", "open") == "open"]

    def classify(case):
        a = case["answer"]
        r = a.get("r", a)
        if "panic" in r:
            f, msg = site_of(r["panic"])
            for fd in fs:
                for s in fd.get("sites", []):
                    if re.match(s["file"] + "$", f) and msg.startswith(s["msg"]) and case["entry"] in s["entries"]:
                        if fd.get("pred") in PRED and PRED[fd["pred"]](case):
                            return fd["id"]
            return None
        if "abort" in a:
            if "overflowed its stack" not in a.get("stderr", ""):
                return None
            for fd in fs:
                if fd.get("abort") == "stack-overflow":
                    if fd.get("pred") in ("mutated-rq-json", "mutated-pl-json"):
                        if PRED[fd["pred"]](case):
                            return fd["id"]
                    elif "thresholds" in fd and not case["entry"].startswith("json"):
                        th = fd["thresholds"].get(str(case["stack_mb"]), {}).get(case["entry"])
                        if th is not None and nest_metric(case["src"]) >= th // 2:
                            return fd["id"]
            return None
        if "hang" in a or case.get("slow"):
            for fd in fs:
                if fd.get("hang") and case["entry"] in fd.get("entries", []) and fd.get("pred") in PRED and PRED[fd["pred"]](case):
                    return fd["id"]
            return None
        return None
    return classify


# ----------------------------------------------------------------------------- range arithmetic correspondence
def rng_text(r):
    s, e = r
    if s is None and e is None:
        return None
    return "%s..%s" % ("" if s is None else s, "" if e is None else e)


def coq_range(r):
    f = lambda v: "None" if v is None else "(Some (%d))" % v
    return "IRange %s %s" % (f(r[0]), f(r[1]))


def parse_limit_offset(sql):
    # sqlparser prints numbers above 2^32 with an `L` suffix (expr_of_i64's `long` flag): noted, not C12's business
    m = re.fullmatch(r"SELECT \* FROM t(?: LIMIT (-?\d+)L?)?(?: OFFSET (-?\d+)L?)?", sql.strip())
    if not m:
        return None
    return (int(m.group(2)) if m.group(2) else 0, int(m.group(1)) if m.group(1) is not None else None)


def seq_take(rows, rs):
    for s, e in rs:
        lo = (s - 1) if s is not None else 0
        rows = rows[max(lo, 0):] if e is None else rows[max(lo, 0):max(e, 0)]
    return rows


def range_correspondence(ck, model_ok):
    rng = ck.rng
    small = [None, 1, 2, 3] if not ck.thorough else [None, 1, 2, 3, 4, 5]
    ranges = [(s, e) for s in small for e in small if not (s is None and e is None)]
    seqs = [[a, b] for a in ranges for b in ranges]
    seqs += [[a] for a in ranges]
    for _ in range(ck.n(120, 800)):
        seqs.append([rng.choice(ranges) for _ in range(3)])
    big = [1, 2, 3, 2 ** 31, 2 ** 60 - 1, 2 ** 60, 2 ** 61, 2 ** 62 - 1, 2 ** 62, 2 ** 62 + 1, I64MAX - 2, I64MAX - 1, I64MAX]
    for _ in range(ck.n(200, 1500)):
        k = rng.choice([1, 2, 2, 3])
        sq = []
        for _ in range(k):
            s = rng.choice([None] + big)
            e = rng.choice([None] + big)
            if s is None and e is None:
                e = rng.choice(big)
            sq.append((s, e))
        seqs.append(sq)
    seqs = [list(x) for x in dict.fromkeys(tuple(s) for s in seqs)]
    reqs = [{"src": "from t" + "".join(" | take " + rng_text(r) for r in sq), "target": "sql.generic"} for sq in seqs]
    impl = harness("compile", reqs)
    model = None
    header = ("From Coq Require Import List ZArith.\nFrom PV Require Import Model.Checked Model.RangeArith.\n"
              "Import ListNotations.\nLocal Open Scope Z_scope.\n")
    if model_ok:
        try:
            model = coq_eval(header, ["take_sql (map lit [%s])" % "; ".join(coq_range(r) for r in sq) for sq in seqs])
        except RuntimeError as ex:
            ck.coverage["model_eval_error"] = str(ex)[-400:]
    # SQLite execution of the emitted LIMIT/OFFSET against sequential takes (end-to-end backstop / search)
    rows12 = list(range(1, 13))
    setup = ["CREATE TABLE t(id INTEGER)", "INSERT INTO t VALUES " + ",".join("(%d)" % i for i in rows12)]
    ex_reqs, ex_meta = [], []
    for i, (sq, a) in enumerate(zip(seqs, impl)):
        if "ok" in a:
            lo = parse_limit_offset(a["ok"])
            if lo is not None and (lo[1] is None or lo[1] < 10 ** 6) and lo[0] < 10 ** 6:
                sql = "SELECT id FROM t ORDER BY id LIMIT %d OFFSET %d" % (lo[1] if lo[1] is not None else -1, lo[0])
                ex_reqs.append({"setup": setup, "sql": sql})
                ex_meta.append(i)
    ex_ans = harness("exec", ex_reqs)
    executed = dict(zip(ex_meta, ex_ans))
    for i, (sq, a) in enumerate(zip(seqs, impl)):
        key = json.dumps(sq)
        ck.count("corr-take-arith", key)
        ck.stat("corr-take-arith", "len=%d" % len(sq))
        if "ok" in a:
            got = ("Ret", parse_limit_offset(a["ok"]))
            if got[1] is None:
                ck.violation("take program compiled to an unexpected shape: %s" % a["ok"][:200], {"ranges": sq, "sql": a["ok"], "kind": "correspondence"})
                continue
        elif "panic" in a:
            got = ("Panic", site_of(a["panic"]))
        else:
            got = ("Fail", None)
        ck.stat("corr-take-arith", "impl:" + got[0])
        if model is not None:
            mv = model[i]
            if mv == "Panic":
                m = ("Panic",)
            elif mv == "Fail":
                m = ("Fail",)
            else:
                off, lim = mv[1]
                m = ("Ret", (off, None if lim == "None" else lim[1]))
            ok = (m[0] == got[0]) and (m[0] != "Ret" or m[1] == got[1]) and (m[0] != "Panic" or ("gen_expr.rs" in got[1][0] or "gen_query.rs" in got[1][0]) and "overflow" in got[1][1])
            if not ok:
                ck.violation("Model/RangeArith.v take_sql differs from the implementation on takes %s: model %s, impl %s" % (sq, m, got),
                             {"ranges": sq, "src": reqs[i]["src"], "model": str(m), "impl": str(got), "kind": "correspondence"})
        if i in executed:
            r = executed[i]
            want = seq_take(rows12, sq)
            if "rows" in r:
                have = [x[0] for x in r["rows"]]
                ck.count("e2e-take-sqlite", key)
                if have != want:
                    ck.violation("LIMIT/OFFSET emitted for takes %s selects rows %s, the takes select %s" % (sq, have, want),
                                 {"ranges": sq, "src": reqs[i]["src"], "sql": impl[i]["ok"], "rows": have, "expected": want, "kind": "e2e"})
    return seqs, impl


def json_take_correspondence(ck, model_ok):
    """the same arithmetic fed through json_rq, where the resolver's validation does not apply (negative, MIN)"""
    rng = ck.rng
    base = harness("rq", [{"src": "from t | take 2..5 | take 3..4"}])[0]
    if "ok" not in base:
        return
    vals = [None, -I64MAX - 1, -I64MAX, -5, -1, 0, 1, 2, 7, 2 ** 62, I64MAX - 1, I64MAX]
    cases = []
    for _ in range(ck.n(150, 1200)):
        cases.append([(rng.choice(vals), rng.choice(vals)) for _ in range(2)])
    cases = [list(x) for x in dict.fromkeys(tuple(c) for c in cases)]
    reqs = []
    for sq in cases:
        d = copy.deepcopy(base["ok"])
        takes = [t["Take"] for t in d["relation"]["kind"]["Pipeline"] if "Take" in t]
        for t, (s, e) in zip(takes, sq):
            t["range"]["start"] = None if s is None else {"kind": {"Literal": {"Integer": s}}, "span": None}
            t["range"]["end"] = None if e is None else {"kind": {"Literal": {"Integer": e}}, "span": None}
        reqs.append({"entry": "json_rq", "src": json.dumps(d), "stack_mb": 64, "target": "sql.generic"})
    impl = probe(reqs, cap_ms=20000)
    model = None
    header = ("From Coq Require Import List ZArith.\nFrom PV Require Import Model.Checked Model.RangeArith.\n"
              "Import ListNotations.\nLocal Open Scope Z_scope.\n")
    if model_ok:
        try:
            model = coq_eval(header, ["take_sql (map lit [%s])" % "; ".join(coq_range(r) for r in sq) for sq in cases])
        except RuntimeError as ex:
            ck.coverage["model_eval_error"] = str(ex)[-400:]
    for i, (sq, a) in enumerate(zip(cases, impl)):
        ck.count("corr-take-arith-json", json.dumps(sq))
        r = a.get("r", a)
        if "ok" in r:
            got = ("Ret", parse_limit_offset(r["ok"]))
        elif "panic" in r:
            got = ("Panic", site_of(r["panic"]))
        elif "err" in r:
            got = ("Fail", None)
        else:
            got = ("Other", str(a)[:100])
        if model is None:
            continue
        mv = model[i]
        if mv == "Panic":
            m = ("Panic",)
        elif mv == "Fail":
            m = ("Fail",)
        else:
            off, lim = mv[1]
            m = ("Ret", (off, None if lim == "None" else lim[1]))
        if got[0] == "Fail":
            # sql generation may reject what the arithmetic accepts (e.g. negative LIMIT): not an arithmetic difference
            ck.stat("corr-take-arith-json", "impl-rejects")
            continue
        ok = (m[0] == got[0]) and (m[0] != "Ret" or m[1] == got[1] or got[1] is None) and (m[0] != "Panic" or "overflow" in got[1][1])
        if not ok:
            ck.violation("Model/RangeArith.v take_sql differs from rq_to_sql on JSON takes %s: model %s, impl %s" % (sq, m, got),
                         {"ranges": sq, "src": reqs[i]["src"], "entry": "json_rq", "model": str(m), "impl": str(got), "kind": "correspondence"})


def probe_confirmed(ck, reqs, cap_ms):
    """probe; a request without answer within the cap, or slower than the polynomial allowance, is probed a second
    time with four times the cap and little parallelism (the machine is shared: a loaded machine must not turn into
    a hang report).  An input whose cost is exponential stays without answer."""
    answers = probe(reqs, cap_ms=cap_ms)
    again = []
    for i, (r, a) in enumerate(zip(reqs, answers)):
        n = len(r["src"].encode("utf-8", "replace"))
        if isinstance(a, dict) and ("hang" in a or a.get("ms", 0) > 3000 + 0.01 * n * n):
            again.append(i)
    if again:
        ck.stat("probe-retry", "second-look", len(again))
        second = probe([reqs[i] for i in again], cap_ms=cap_ms * 4, shards=4)
        for i, a in zip(again, second):
            answers[i] = a
    return answers


# ----------------------------------------------------------------------------- run
def run():
    ck = Check("C12", level="proof")
    ginfo = gen_sites.generate()
    uinfo = gen_unpack.generate()
    pr = ck.prove()
    model_ok = True     # Model/*.vo do not depend on Gen/: the models stay executable when the translator fails closed
    rng = ck.rng
    findings = load_findings("C12")
    classify = make_classifier(findings)
    hook_lines = {}
    if "error" not in ginfo:
        ck.coverage["site_totals"] = ginfo["total"]
        ck.coverage["library_files"] = len(ginfo["files"])
        hook_lines = {f: set(v) for f, v in ginfo.get("hook_lines", {}).items()}
        ck.coverage["hook_lines_excluded"] = sum(len(v) for v in hook_lines.values())
    broken = not pr["ok"]
    boost = 3 if broken else 1          # search mode: the obligations broke, look harder

    # 1. modelled arithmetic vs implementation (Tie B) + SQLite backstop
    range_correspondence(ck, model_ok)
    json_take_correspondence(ck, model_ok)
    CR.id_correspondence(ck)
    CR.frame_correspondence(ck)
    CR.neg_correspondence(ck)
    CR.closure_correspondence(ck, uinfo)
    CR.parse_retry_times(ck)
    CR.fmt_layout_correspondence(ck)

    # 2. probe streams
    progs = S.all_programs()
    srcs = [("pool", p, None) for p in progs]
    for p in progs:
        srcs += [(f, s, p) for f, s in S.mutants(rng, p, ck.n(6, 40) * boost)]
    srcs += [(f, s, None) for f, s in S.soups(rng, ck.n(700, 6000) * boost)]
    srcs += [(f, s, None) for f, s in S.byte_strings(rng, ck.n(300, 3000) * boost)]
    srcs += [(f, s, None) for f, s in S.extreme_numbers(rng, ck.n(500, 4000) * boost)]
    srcs += [(f, s, None) for f, s in S.mismatched_sets(rng, ck.n(250, 2000) * boost)]
    srcs += [(f, s, None) for f, s in ST.escape_strings(rng, ck.n(300, 3000) * boost)]
    srcs += [(f, s, None) for f, s in ST.slicing_family(rng, ck.n(40, 300) * boost)]
    for n in ([2000, 60000] if not ck.thorough else [2000, 60000, 1000000]):
        srcs += [(f, s, None) for f, s in S.long_tokens(n)]
    cases = []
    for fam, s, prog in srcs:
        ents = ["tokens", "fmt", "compile"] + (["rq"] if rng.random() < 0.25 else [])
        for e in ents:
            c = {"entry": e, "src": s, "stack_mb": 64, "family": fam, "prog": prog}
            if e == "compile":
                c["target"] = rng.choice(DIALECTS)
            cases.append(c)
    # pool programs on every dialect, and with the default 8 MB main-thread-like stack
    for p in progs:
        for d in DIALECTS:
            cases.append({"entry": "compile", "src": p, "stack_mb": 8, "family": "pool", "prog": p, "target": d})

    # 3. deep / long structures: 64 MB probe stack and 8 MB (the default main-thread stack)
    depths = [10, 100, 400] if not ck.thorough else [10, 100, 400, 1500, 5000]
    for fam, mk in S.NEST.items():
        for d in depths:
            if fam in ("group", "loop", "joins", "lets", "appends", "transforms", "filters", "tuple-wide", "module") and d > 400:
                continue
            if d > 1500 and fam not in LINEAR_FAMILIES:
                continue            # quadratic in the depth: tens of seconds at 5000 on a shared machine
            if fam in ("group", "loop") and d > 100:
                continue            # cubic: seconds at depth 400
            if (fam == "and-chain" and d > 400) or (fam == "fstring-holes" and d > 1500):
                continue            # rq_to_sql is about cubic in the length of these chains (2.7 s at 400, 21 s at 800 on the
                                    # shared machine): within the allowance 0.01 n^2 ms, but minutes at 1500 / 5000
            s = mk(d)
            for e in ("tokens", "compile"):
                for st in (64, 8):
                    cases.append({"entry": e, "src": s, "stack_mb": st, "family": "nest:%s:%d" % (fam, d), "prog": None,
                                  **({"target": "sql.generic"} if e == "compile" else {})})
        # beyond the 8 MB threshold (finding F8), for the families that are cheap on the 64 MB stack
        if not ck.thorough and fam in ("negparen", "notparen", "case", "call"):
            for st in (64, 8):
                cases.append({"entry": "compile", "src": mk(1400), "stack_mb": st, "family": "nest:%s:%d" % (fam, 1400), "prog": None, "target": "sql.generic"})
        # the formatter (finding H2, exponential in the nesting depth, was fixed by c8b3817): every family, deep
        for d in ([8, 18, 32, 100] if not ck.thorough else [8, 18, 32, 100, 400]):
            cases.append({"entry": "fmt", "src": mk(d), "stack_mb": 64, "family": "nest:%s:%d" % (fam, d), "prog": None})
    # replays of the findings fixed since b55902d (H1 H2 N5 N6 N7 N13; a recurrence is a VIOLATION) and of the open N14
    cases += CR.directed_cases(ck)
    # the default stack of a spawned Rust thread (2 MiB): the entry points called from a worker thread -- every pool program must
    # compile there; the structural families at depth 10 and 100 (F8 threshold on 2 MiB: ~67 for group / loop, ~190 for chains)
    for p in progs:
        cases.append({"entry": "compile", "src": p, "stack_mb": 2, "family": "pool", "prog": p, "target": "sql.generic"})
    for fam, mk in S.NEST.items():
        for d in (10, 100):
            cases.append({"entry": "compile", "src": mk(d), "stack_mb": 2, "family": "nest:%s:%d" % (fam, d), "prog": None, "target": "sql.generic"})
    cases.append({"entry": "compile", "src": "from t | filter " + " || ".join("a == %d" % i for i in range(200)), "stack_mb": 2, "family": "nest:or-chain:200", "prog": None, "target": "sql.generic"})
    cases.append({"entry": "compile", "src": "from t | filter " + " || ".join("a == %d" % i for i in range(40)), "stack_mb": 2, "family": "nest:or-chain:40", "prog": None, "target": "sql.generic"})
    # arithmetic operators at singular points (source, let, PL / RQ JSON); RQ documents with edited column names x dialects
    cases += CR.arith_singular_cases(ck)
    cases += CR.rq_column_cases(ck)
    for src in ("from t | derive x = (std._eq 1)", "from t | filter (tuple_every 5)", "from t | derive x = (std.tuple_zip {a} 1)"):
        cases.append({"entry": "compile", "src": src, "stack_mb": 64, "family": "fixed:N15", "prog": None, "target": "sql.generic"})

    # replays of the open hang findings H3 / H4: own cap, no second look
    hang_cases = CR.open_hang_cases()
    hang_answers = probe([{k: v for k, v in c.items() if k in ("entry", "src", "stack_mb", "target")} for c in hang_cases], cap_ms=ck.n(6000, 20000))

    # 4. PL / RQ JSON: originals, single mutations, raw documents
    pl = harness("pl", [{"src": p} for p in progs])
    rq = harness("rq", [{"src": p} for p in progs])
    for a in rq:
        if "ok" in a:
            for n, k in rq_operator_names(json.dumps(a["ok"]), with_arity=True):
                OP_ARITIES.setdefault(n, set()).add(k)
    kj = ck.n(12, 120) * boost
    for p, a in zip(progs, pl):
        if "ok" in a:
            for fam, j in [("json:orig", json.dumps(a["ok"]))] + S.json_mutants(rng, a["ok"], kj):
                cases.append({"entry": "json_pl", "src": j, "stack_mb": 64, "family": fam, "prog": p})
    for p, a in zip(progs, rq):
        if "ok" in a:
            for fam, j in [("json:orig", json.dumps(a["ok"]))] + S.json_mutants(rng, a["ok"], kj):
                cases.append({"entry": "json_rq", "src": j, "stack_mb": 64, "family": fam, "prog": p, "target": rng.choice(DIALECTS)})
    for fam, j in S.json_raw(rng):
        for e in ("json_pl", "json_rq"):
            cases.append({"entry": e, "src": j, "stack_mb": 64, "family": fam, "prog": None})

    reqs = [{k: v for k, v in c.items() if k in ("entry", "src", "stack_mb", "target")} for c in cases]
    cap_ms = ck.n(15000, 40000)
    answers = probe_confirmed(ck, reqs, cap_ms) + hang_answers
    cases += hang_cases
    slow = []
    for c, a in zip(cases, answers):
        c["answer"] = a
        fam0 = c["family"].split(":")[0] + (":" + c["family"].split(":")[1] if c["family"].startswith(("nest", "json", "long")) else "")
        stream = "probe-" + ("json" if c["entry"].startswith("json") else "nest" if c["family"].startswith("nest") else "source")
        ck.count(stream, json.dumps([c["entry"], c.get("target"), c["stack_mb"], c["src"][:2000], len(c["src"])]))
        ck.stat(stream, "entry:" + c["entry"])
        ck.stat(stream, "family:" + fam0)
        r = a.get("r", a) if isinstance(a, dict) else {}
        out = "ok" if "ok" in r else "err" if "err" in r else "panic" if "panic" in r else "abort" if "abort" in a else "hang" if "hang" in a else "other"
        ck.stat(stream, "outcome:" + out)
        replay = {"entry": c["entry"], "src": c["src"] if len(c["src"]) < 4000 else c["src"][:2000] + "...[%d chars]" % len(c["src"]), "target": c.get("target"),
                  "stack_mb": c["stack_mb"], "family": c["family"], "prog": c.get("prog")}
        if out == "panic":
            f, msg = site_of(r["panic"])
            replay.update(site=f, msg=msg[:200], loc=r["panic"].get("loc"))
            # the harness is built with --cfg prqlc_verif: a panic raised by a line of hook code is not behaviour of the product
            line = (r["panic"].get("loc") or "").rsplit(":", 1)[-1]
            in_hook = line.isdigit() and int(line) in hook_lines.get(f, ())
            if in_hook:
                replay.update(in_hook=True)
                ck.stat(stream, "panic-in-hook-code")
            ck.disagreement("panic %sat %s: %s [entry %s, %s]" % ("INSIDE VERIFICATION HOOK CODE (#[cfg(prqlc_verif)], compiled into the harness only) " if in_hook else "", f, msg[:100], c["entry"], c["family"]),
                            replay, lambda _x, c=c: classify(c))
        elif out == "abort":
            replay.update(abort=a.get("abort"), stderr=a.get("stderr", "")[-200:], metric=nest_metric(c["src"]))
            ck.disagreement("process abort (%s) [entry %s, %s, stack %d MB]" % (a.get("stderr", "")[-80:].strip(), c["entry"], c["family"], c["stack_mb"]), replay, lambda _x, c=c: classify(c))
        elif out == "hang":
            replay.update(hang_ms=a["hang"], unclosed=c["src"].count("(") - c["src"].count(")"), depth=bracket_depth(c["src"]))
            ck.disagreement("no answer within %d ms [entry %s, %s, %d chars]" % (a["hang"], c["entry"], c["family"], len(c["src"])), replay, lambda _x, c=c: classify(c))
        elif out == "other":
            ck.violation("unexpected harness answer %s" % str(a)[:200], replay)
        else:
            n = len(c["src"].encode("utf-8", "replace"))
            ms = a.get("ms", 0)
            if ms > 3000 + 0.01 * n * n:
                c["slow"] = True
                ck.disagreement("%d ms for %d bytes (> 3000 + 0.01 n^2) [entry %s, %s]" % (ms, n, c["entry"], c["family"]), dict(replay, ms=ms, bytes=n), lambda _x, c=c: classify(c))
            if ms > 1500:
                slow.append((ms, n, c["entry"], c["family"]))
    ck.coverage["slowest"] = sorted(slow, reverse=True)[:10]

    # 5. growth: each family at n, 2n, 4n on `compile` (64 MB): super-polynomial growth shows as a ratio far above 8
    base_n = ck.n(40, 100)
    greqs, gmeta = [], []
    for fam, mk in S.NEST.items():
        ents = ["compile", "fmt"] + (["pl"] if fam.startswith("open-") or fam in ("quotes-open", "close-paren") else [])
        for e in ents:
            for k in (1, 2, 4):
                # log off: the time of the product, not of the debug-level log records the harness otherwise collects
                greqs.append({"entry": e, "src": mk(base_n * k), "stack_mb": 64, "log": "off", **({"target": "sql.generic"} if e == "compile" else {})})
                gmeta.append((fam, k, e))
    gans = probe_confirmed(ck, greqs, ck.n(20000, 60000))
    times = {}
    for (fam, k, e), a, rq_ in zip(gmeta, gans, greqs):
        ck.count("growth", "%s:%s:%d" % (e, fam, base_n * k))
        if "hang" in a:
            gc = {"entry": e, "src": rq_["src"], "stack_mb": 64, "family": "growth:" + fam, "answer": a}
            ck.disagreement("no answer within %d ms for family %s at size %d [entry %s]" % (a["hang"], fam, base_n * k, e),
                            {"family": fam, "n": base_n * k, "src": rq_["src"][:3000], "entry": e}, lambda _x, gc=gc: classify(gc))
            continue
        if "abort" in a:
            gc = {"entry": e, "src": rq_["src"], "stack_mb": 64, "family": "growth:" + fam, "answer": a}
            ck.disagreement("process abort for family %s at size %d [entry %s]" % (fam, base_n * k, e),
                            {"family": fam, "n": base_n * k, "src": rq_["src"][:3000], "entry": e, "stderr": a.get("stderr", "")[-200:]}, lambda _x, gc=gc: classify(gc))
            continue
        times.setdefault((fam, e), {})[k] = a.get("ms") if "ms" in a else None
    growth = {}
    for (fam, e), t in times.items():
        if all(t.get(k) is not None for k in (1, 2, 4)):
            growth["%s:%s" % (e, fam)] = [t[1], t[2], t[4]]
            steep = lambda t: t[4] >= 3000 and t[2] > 0 and t[4] / max(t[2], 1) > 16 and t[2] / max(t[1], 1) > 8
            if steep(t):
                # second look, one request at a time (a loaded machine must not turn into a growth report)
                again = probe([{"entry": e, "src": S.NEST[fam](base_n * k), "stack_mb": 64, "log": "off", **({"target": "sql.generic"} if e == "compile" else {})} for k in (1, 2, 4)],
                              cap_ms=ck.n(20000, 60000) * 4, shards=1)
                ck.stat("probe-retry", "growth-second-look")
                if all("ms" in a for a in again):
                    t = {1: again[0]["ms"], 2: again[1]["ms"], 4: again[2]["ms"]}
                    growth["%s:%s" % (e, fam)] = [t[1], t[2], t[4]]
            if steep(t):
                ck.violation("time grows faster than any small polynomial for family %s on %s: %s ms at n, 2n, 4n (n = %d)" % (fam, e, [t[1], t[2], t[4]], base_n),
                             {"family": fam, "n": base_n, "ms": [t[1], t[2], t[4]], "src": S.NEST[fam](base_n)[:3000], "entry": e})
    ck.coverage["growth_ms_at_n_2n_4n"] = growth

    # evidence: which sites were seen
    ck.proof_broken_violation(found_input=bool(ck.violations))
    if "error" in ginfo:
        ck.coverage["translator_error"] = ginfo["error"]
    if "error" in uinfo:
        ck.coverage["translator_error_unpack"] = uinfo["error"]
    ck.assumptions += [
        "harness is a debug build (overflow checks on), as DESIGN.md section 2 fixes; release builds wrap instead of panicking at the arithmetic sites",
        "a stack overflow is attributed to depth only through the recorded thresholds (known_findings.d/C12.json F8, measured with 8 MB and 64 MB stacks on this machine)",
        "time limits are generous (5000 + 0.01 n^2 ms; growth ratio 16 between 2n and 4n) because the check shares the machine with other checks",
        "CLI (prqlc/src/cli, main.rs) is outside the inventory: the harness builds prqlc without the `cli` feature",
    ]
    ck.finish(TRUSTED, "pool programs (%d) x 12 dialects; single-edit token mutants; token soups; arbitrary bytes (lossy UTF-8); extreme numbers/ranges; set operations with mismatched columns; long tokens; %d structural families at several depths on 64 MB and 8 MB stacks; PL/RQ JSON originals + single mutations + raw documents; a case is (entry, target, stack, input); non-trivial = distinct; plus exhaustive small take-range sequences and extreme ones for the model/implementation/SQLite triple" % (len(progs), len(S.NEST)))

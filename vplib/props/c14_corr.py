"""C14 correspondence streams: the Coq models (evaluated by vm_compute) against the implementation.

  fmt      Model/Fmt.v  render(fmt e)  vs  pl_to_prql  (exact text when the real output is one line; always: the real
           lexer's token stream of both texts, with line breaking undone)
  parser   Model/FmtPratt.v parse  vs  prql_to_pl  on the real lexer's tokens of generated sources
  lits     Model/FmtLit.v fmt_string / fmt_float / show_Z / identifiers  vs  Literal Display / the formatter, and the
           model's small lexers vs the real lexer on those texts
"""
import json
import re

from ..common import coq_eval, harness
from . import c14_gen as G, c14_oracle as O

HEADER = ("From Coq Require Import List NArith ZArith Bool.\n"
          "From PV Require Import Lib.ListX Model.FmtLit Model.FmtPratt Model.Fmt Model.FmtTy Model.FmtStmt Model.FmtInst.\n"
          "Import ListNotations.\nLocal Open Scope N_scope.\n")

BINOPS = ["Mul", "DivInt", "DivFloat", "Mod", "Pow", "Add", "Sub", "Eq", "Ne", "Gt", "Lt", "Gte", "Lte", "RegexSearch", "And", "Or", "Coalesce"]
UNOPS = ["Neg", "Add", "Not", "EqSelf"]


class Unsupported(Exception):
    pass


# ------------------------------------------------------------------ JSON AST -> term (python structure == parse_term of Coq's printing)

def codes(s):
    return [ord(c) for c in s]


def float_dec(x):
    """shortest round-tripping decimal of a python float as canonical (m, e)"""
    if x is None or x != x or x in (float("inf"), float("-inf")):
        return "FInf"
    r = repr(float(x))
    m = re.match(r"^(\d+)(?:\.(\d+))?(?:e([+-]?\d+))?$", r)
    if not m:
        raise Unsupported("float repr " + r)
    ip, fp, ex = m.group(1), m.group(2) or "", int(m.group(3) or 0)
    digits = (ip + fp).lstrip("0")
    e = ex - len(fp)
    if not digits:
        return ("FFin", 0, 0)
    while digits.endswith("0"):
        digits = digits[:-1]
        e += 1
    return ("FFin", int(digits), e)


def lit_term(v):
    if v == "Null":
        return "LNull"
    if not isinstance(v, dict) or len(v) != 1:
        raise Unsupported("literal %r" % (v,))
    (k, x), = v.items()
    if k == "Integer":
        return ("LInt", x)
    if k == "Float":
        return ("LFloat", float_dec(x))
    if k == "Boolean":
        return ("LBool", bool(x))
    if k == "String":
        return ("LStr", codes(x))
    if k == "RawString":
        return ("LRaw", codes(x))
    if k == "Date":
        return ("LDate", codes(x))
    if k == "Time":
        return ("LTime", codes(x))
    if k == "Timestamp":
        return ("LTimestamp", codes(x))
    if k == "ValueAndUnit":
        return ("LUnit", x["n"], codes(x["unit"]))
    raise Unsupported("literal kind " + k)


def term(j):
    """pr::Expr JSON -> model term"""
    if not isinstance(j, dict):
        raise Unsupported("expr %r" % (j,))
    alias = j.get("alias")
    t = kind_term(j)
    if isinstance(alias, str):
        return ("EAlias", codes(alias), t)
    return t


def kind_term(j):
    if "Ident" in j:
        return ("EAtom", ("AIdent", [codes(p) for p in j["Ident"]]))
    if "Literal" in j:
        return ("EAtom", ("ALit", lit_term(j["Literal"])))
    if "Param" in j:
        return ("EAtom", ("AParam", codes(j["Param"])))
    if "Internal" in j:
        return ("EAtom", ("AInternal", codes(j["Internal"])))
    for key, sql in (("SString", True), ("FString", False)):
        if key in j:
            parts = []
            for it in j[key]:
                if "String" in it:
                    parts.append(("IStr", codes(it["String"])))
                else:
                    ex = it["Expr"]
                    if "Ident" not in ex["expr"] or ex["expr"].get("alias") is not None:
                        raise Unsupported("interpolation of a non-ident")
                    fm = ex.get("format")
                    parts.append(("IExpr", [codes(p) for p in ex["expr"]["Ident"]], ("Some", codes(fm)) if fm is not None else "None"))
            return ("EAtom", ("AInterp", sql, parts))
    if "Binary" in j:
        b = j["Binary"]
        return ("EBin", BINOPS.index(b["op"]), term(b["left"]), term(b["right"]))
    if "Unary" in j:
        u = j["Unary"]
        return ("EUn", UNOPS.index(u["op"]), term(u["expr"]))
    if "Range" in j:
        r = j["Range"]
        s, e = r.get("start"), r.get("end")
        if s is not None and e is not None:
            return ("ERng", term(s), term(e))
        if s is not None:
            return ("ERngL", term(s))
        if e is not None:
            return ("ERngR", term(e))
        return "ERng0"
    if "FuncCall" in j:
        f = j["FuncCall"]
        args = [("ENamed", codes(n), term(v)) for n, v in (f.get("named_args") or {}).items()]
        args += [term(a) for a in f.get("args") or []]
        return ("ECall", term(f["name"]), args)
    if "Pipeline" in j:
        return ("EGroup", "GPipe", [term(x) for x in j["Pipeline"]["exprs"]])
    if "Tuple" in j:
        return ("EGroup", "GTup", [term(x) for x in j["Tuple"]])
    if "Array" in j:
        return ("EGroup", "GArr", [term(x) for x in j["Array"]])
    if "Case" in j:
        out = []
        for c in j["Case"]:
            out += [term(c["condition"]), term(c["value"])]
        return ("EGroup", "GCase", out)
    if "Func" in j:
        f = j["Func"]
        if f.get("return_ty") is not None or any(p.get("ty") is not None for p in (f.get("params") or []) + (f.get("named_params") or [])):
            raise Unsupported("lambda with type annotations")
        if f.get("generic_type_params"):
            raise Unsupported("lambda with generic parameters")
        ps = [codes(p["name"]) for p in f.get("params") or []]
        ds = [("ENamed", codes(p["name"]), term(p["default_value"])) for p in f.get("named_params") or []]
        return ("EFunc", ps, ds, term(f["body"]))
    raise Unsupported("expr kind %s" % sorted(j.keys()))


PRIMS = {"Int": "int", "Float": "float", "Bool": "bool", "Text": "text", "Date": "date", "Time": "time", "Timestamp": "timestamp"}


def ty_term(j):
    """pr::Ty JSON -> model type (Model/FmtTy.v)"""
    if not isinstance(j, dict) or j.get("name") is not None:
        raise Unsupported("type with a resolved name")
    k = j["kind"]
    if "Primitive" in k:
        return ("TyPrim", codes(PRIMS[k["Primitive"]]))
    if "Ident" in k:
        return ("TyIdent", [codes(x) for x in k["Ident"]])
    if "Function" in k:
        f = k["Function"]
        if f is None:
            return "TyFunc0"
        if f.get("return_ty") is None or any(x is None for x in f["params"]):
            raise Unsupported("function type with an unknown part")
        return ("TyFunc", [ty_term(x) for x in f["params"]], ty_term(f["return_ty"]))
    if "Array" in k:
        return "TyArr0" if k["Array"] is None else ("TyArr", ty_term(k["Array"]))
    if "Tuple" in k:
        out = []
        for fld in k["Tuple"]:
            if "Wildcard" in fld:
                out.append("TyWild0" if fld["Wildcard"] is None else ("TyWild", ty_term(fld["Wildcard"])))
            else:
                nm, t = fld["Single"]
                n = ("Some", codes(nm)) if nm is not None else "None"
                out.append(("TyStar", n) if t is None else ("TyField", n, ty_term(t)))
        return ("TyTuple", out)
    raise Unsupported("type kind %s" % sorted(k))


def stmt_term(st):
    """pr::Stmt JSON -> model statement (Model/FmtStmt.v); doc comments are not part of the trees"""
    anns = [term(a["expr"]) for a in st.get("annotations") or []]
    if "VarDef" in st:
        v = st["VarDef"]
        if v.get("ty") is not None:
            raise Unsupported("let with a type annotation")
        if v["kind"] == "Let":
            return ("SLet", anns, codes(v["name"]), ("Some", term(v["value"])) if v.get("value") is not None else "None")
        if v.get("value") is None:
            raise Unsupported("main without value")
        if v["kind"] == "Main":
            return ("SMain", anns, term(v["value"]))
        if v["kind"] == "Into":
            return ("SInto", anns, term(v["value"]), codes(v["name"]))
        raise Unsupported("VarDef kind " + str(v["kind"]))
    if "TypeDef" in st:
        d = st["TypeDef"]
        return ("STypeDef", anns, codes(d["name"]), ty_term(d["value"]))
    if "ImportDef" in st:
        d = st["ImportDef"]
        return ("SImport", anns, ("Some", codes(d["alias"])) if d.get("alias") is not None else "None", [codes(x) for x in d["name"]])
    if "ModuleDef" in st:
        d = st["ModuleDef"]
        return ("SModule", anns, codes(d["name"]), [stmt_term(x) for x in d["stmts"]])
    raise Unsupported("statement kind %s" % sorted(k for k in st if k not in ("span", "annotations", "doc_comment")))


def prog_term(pl):
    return [stmt_term(st) for st in pl["stmts"]]


def prog_known(stmts):
    """python mirror of FmtStmt.known_prog on the JSON: (adjacent main pipelines, False).  The second component was the
    aliased pipeline value (C14-main-pipeline-alias, repaired by commit e3202e5): no longer a known class."""
    def is_main(st):
        return isinstance(st.get("VarDef"), dict) and st["VarDef"].get("kind") == "Main"

    def bare_pipe(st):
        return isinstance(st.get("VarDef"), dict) and st["VarDef"].get("kind") in ("Main", "Into") and not st.get("annotations")
    adj = any(is_main(a) and bare_pipe(b) for a, b in zip(stmts, stmts[1:]))
    al = False
    for st in stmts:
        v = st.get("VarDef")
        if isinstance(st.get("ModuleDef"), dict):
            a2, l2 = prog_known(st["ModuleDef"]["stmts"])
            adj, al = adj or a2, al or l2
    return adj, al


def coq(t):
    """term -> Coq concrete syntax"""
    if isinstance(t, bool):
        return "true" if t else "false"
    if isinstance(t, int):
        return str(t)
    if isinstance(t, str):
        return t
    if isinstance(t, list):
        return "[" + "; ".join(coq(x) for x in t) + "]"
    head = t[0]
    args = t[1:]
    if head in ("EBin", "EUn"):
        return "(%s %d%%nat %s)" % (head, args[0], " ".join(coq(a) for a in args[1:]))
    if head == "LInt":
        return "(LInt (%d)%%Z)" % args[0]
    if head == "LUnit":
        return "(LUnit (%d)%%Z %s)" % (args[0], coq(args[1]))
    if head == "FFin":
        return "(FFin %d (%d)%%Z)" % (args[0], args[1])
    return "(" + head + " " + " ".join(coq(a) for a in args) + ")"


def unlist(t):
    """normalise tuples/lists for comparison with parse_term output; named arguments are a map in the AST:
    their order is not part of the tree"""
    if isinstance(t, (list, tuple)):
        r = [unlist(x) for x in t]
        if len(r) == 3 and r[0] == "ECall" and isinstance(r[2], list):
            named = sorted([a for a in r[2] if isinstance(a, list) and a and a[0] == "ENamed"], key=lambda a: a[1])
            r[2] = named + [a for a in r[2] if not (isinstance(a, list) and a and a[0] == "ENamed")]
        return r
    return t


# ------------------------------------------------------------------ real lexer tokens, canonical form

OPENERS, CLOSERS = "({[", ")}]"


def canon_tokens(toks):
    ts = [t for t in toks if t != "Start" and not (isinstance(t, dict) and ("Comment" in t or "LineWrap" in t or "DocComment" in t))]
    while ts and ts[0] == "NewLine":
        ts.pop(0)
    while ts and ts[-1] == "NewLine":
        ts.pop()

    def ctl(t, chars):
        return isinstance(t, dict) and t.get("Control") in tuple(chars)
    out = []
    for i, t in enumerate(ts):
        if t == "NewLine":
            prev = out[-1] if out else None
            nxt = next((x for x in ts[i + 1:] if x != "NewLine"), None)
            if prev is None or ctl(prev, OPENERS + ",|") or prev == "ArrowFat" or nxt is None or ctl(nxt, CLOSERS):
                continue
            if out and out[-1] == {"Control": "|"}:
                continue
            out.append({"Control": "|"})
        else:
            out.append(t)
    ts, out = out, []
    for i, t in enumerate(ts):
        if ctl(t, ",") and i + 1 < len(ts) and ctl(ts[i + 1], CLOSERS):
            continue
        out.append(t)

    return range_flags(out)


def layout_tokens(toks):
    """tokens of a formatted text with the layout undone: line breaks at bracket depth 0 are kept (one per run), inside
    brackets they are the separators the parser takes them for (a pipe inside parentheses; nothing next to a comma, an
    opener, a closer or `=>`); trailing commas are dropped; `..` carries its bind flags; finally ALL parentheses are
    erased.  Two formatted texts of the same tree -- one wrapped at width 50, one on one line -- must agree on this
    sequence (wrapping adds and moves parentheses: break_line_within_parenthesis); that the parentheses themselves
    mean the same is what the AST comparison checks."""
    ts = [t for t in toks if t != "Start" and not (isinstance(t, dict) and ("Comment" in t or "LineWrap" in t or "DocComment" in t))]

    def ctl(t, chars):
        return isinstance(t, dict) and t.get("Control") in tuple(chars)
    out = []
    depth = 0
    for i, t in enumerate(ts):
        if t == "NewLine":
            prev = out[-1] if out else None
            nxt = next((x for x in ts[i + 1:] if x != "NewLine"), None)
            if depth == 0:
                if prev is not None and prev != "NL" and nxt is not None:
                    out.append("NL")
                continue
            if prev is None or ctl(prev, OPENERS + ",|") or prev == "ArrowFat" or nxt is None or ctl(nxt, CLOSERS):
                continue
            out.append({"Control": "|"})
            continue
        if ctl(t, OPENERS):
            depth += 1
        elif ctl(t, CLOSERS):
            depth = max(0, depth - 1)
        out.append(t)
    ts, out = out, []
    for i, t in enumerate(ts):
        if ctl(t, ",") and i + 1 < len(ts) and ctl(ts[i + 1], CLOSERS):
            continue
        out.append(t)
    return [t for t in range_flags(out) if not ctl(t, "()")]


def range_flags(out):
    """`..` tokens with the bind flags the parser looks at, given their neighbours"""
    def ctl(t, chars):
        return isinstance(t, dict) and t.get("Control") in tuple(chars)

    def ends_operand(t):
        return isinstance(t, dict) and (any(k in t for k in ("Ident", "Literal", "Param", "Interpolation")) or ctl(t, CLOSERS))

    def begins_operand(t):
        return (isinstance(t, dict) and (any(k in t for k in ("Ident", "Literal", "Param", "Interpolation", "Keyword")) or ctl(t, OPENERS + "-+!"))) or t == "Eq"
    res = []
    for i, t in enumerate(out):
        if isinstance(t, dict) and "Range" in t:
            star = i > 1 and out[i - 1] == {"Control": "*"} and out[i - 2] == {"Control": "."}   # `t.*`
            bl = t["Range"]["bind_left"] and i > 0 and (ends_operand(out[i - 1]) or star)
            br = t["Range"]["bind_right"] and i + 1 < len(out) and begins_operand(out[i + 1])
            res.append({"Range": [bl, br]})
        else:
            res.append(t)
    return res


# ------------------------------------------------------------------ real tokens -> model tokens (for the parser stream)

def model_tokens(toks, symidx):
    """canonical real tokens of one expression -> Coq list of model tokens, or Unsupported"""
    out = []
    stack = []
    in_type = None     # bracket depth at which a `type` definition started (up to the next line break at that depth)
    header = None      # bracket depth at which a lambda header (`func` ... `->`) is open
    i = 0
    n = len(toks)
    SYM = {"Eq": "==", "Ne": "!=", "Gte": ">=", "Lte": "<=", "RegexSearch": "~=", "And": "&&", "Or": "||", "Coalesce": "??", "DivInt": "//", "Pow": "**"}
    while i < n:
        t = toks[i]
        nxt = toks[i + 1] if i + 1 < n else None
        if isinstance(t, dict) and "Ident" in t:
            if nxt == {"Control": "="}:
                out.append("(TAlias %s)" % coq(codes(t["Ident"])))
                i += 2
                continue
            if nxt == {"Control": ":"}:
                out.append("(TNamed %s)" % coq(codes(t["Ident"])))
                i += 2
                continue
            path = [t["Ident"]]
            while i + 2 < n and toks[i + 1] == {"Control": "."} and isinstance(toks[i + 2], dict) and ("Ident" in toks[i + 2] or toks[i + 2] == {"Control": "*"}):
                path.append(toks[i + 2].get("Ident", "*"))
                i += 2
            out.append("(TA (AIdent %s))" % coq([codes(p) for p in path]))
            i += 1
            continue
        if isinstance(t, dict) and "Literal" in t:
            out.append("(TA (ALit %s))" % coq(lit_term(t["Literal"])))
        elif isinstance(t, dict) and "Param" in t:
            out.append("(TA (AParam %s))" % coq(codes(t["Param"])))
        elif isinstance(t, dict) and "Range" in t:
            out.append("(TRg %s %s)" % (coq(t["Range"][0]), coq(t["Range"][1])))
        elif t == "NewLine":
            out.append("(TNL 0%nat)")
            if in_type is not None and in_type == len(stack):
                in_type = None
        elif t == "Annotate":
            out.append("TAnn")
        elif isinstance(t, dict) and t.get("Keyword") in ("let", "module", "import", "into", "type"):
            out.append("(TKw K%s)" % t["Keyword"].capitalize())
            if t["Keyword"] == "type":
                in_type = len(stack)
        elif in_type is not None and t == {"Control": "*"}:
            out.append("TStar")
        elif in_type is not None and isinstance(t, dict) and t.get("Keyword") == "func":
            out.append("TFunc")
        elif in_type is not None and t == "ArrowThin":
            out.append("TThin")
        elif isinstance(t, dict) and "Keyword" in t:
            if t["Keyword"] == "case" and nxt == {"Control": "["}:
                out.append("(TOpen GCase)")
                stack.append("GCase")
                i += 2
                continue
            if t["Keyword"] == "func" and header is None:
                out.append("TFunc")
                header = len(stack)
                i += 1
                continue
            raise Unsupported("keyword")
        elif t == "ArrowThin":
            if header is None or header != len(stack):
                raise Unsupported("lambda without the keyword, or nested headers")
            if nxt == {"Control": "<"}:
                raise Unsupported("lambda return type")
            out.append("TThin")
            header = None
        elif isinstance(t, dict) and "Control" in t:
            c = t["Control"]
            if c in "({[":
                k = {"(": "GPipe", "{": "GTup", "[": "GArr"}[c]
                stack.append(k)
                out.append("(TOpen %s)" % k)
            elif c in ")}]":
                if not stack:
                    raise Unsupported("unbalanced")
                out.append("(TClose %s)" % stack.pop())
            elif c == ",":
                out.append("TComma")
            elif c == "|":
                out.append("TPipe")
            elif c in "<>" and header is not None and header == len(stack):
                raise Unsupported("lambda parameter type (or a comparison in a default value)")
            elif c in symidx:
                out.append("(TS %d%%nat false)" % symidx[c])
            else:
                raise Unsupported("control " + c)
        elif t == "ArrowFat":
            out.append("TArrow")
        elif isinstance(t, str) and t in SYM:
            out.append("(TS %d%%nat false)" % symidx[SYM[t]])
        else:
            raise Unsupported("token %r" % (t,))
        i += 1
    return "[" + "; ".join(out) + "]"


# ------------------------------------------------------------------ streams

FUEL = 400


def value_of(pl):
    try:
        return pl["stmts"][0]["VarDef"]["value"]
    except Exception:
        return None


def run(ck, info, pr):
    rng = ck.rng
    if "error" in info:
        ck.coverage["correspondence"] = "skipped: translator failed (%s); the direct oracle searches" % info["error"][:200]
        return
    from ..common import coq_make, Lock
    with Lock("coq"):
        rc, out, err = coq_make(["Model/FmtInst.vo"])
    if rc != 0:
        ck.coverage["correspondence"] = "skipped: Model/FmtInst.v does not build on the regenerated tables"
        return

    # ---------------- stream: expression formatter
    cases = []
    # quick tier: a seeded sample of the exhaustive (parent, side, child) triples goes through the Coq model (all of them in
    # the thorough tier); the direct oracle stream `oracle-triples` runs every triple in both tiers
    triples = [G.src(e) for key, e in G.triples()]
    if not ck.thorough:
        triples = rng.sample(triples, min(len(triples), 400))
    for s in triples:
        cases.append(("corr-fmt-triples", s))
    for a in G.ADJACENCY:
        cases.append(("corr-fmt-adjacency", a))
    for key, e in G.quads(rng, ck.n(120, 4000)):
        cases.append(("corr-fmt-quads", G.src(e)))
    for _ in range(ck.n(160, 6000)):
        d = rng.choice([2, 3, 3, 4])
        cases.append(("corr-fmt-random", G.src(G.gen_expr(rng, d, {"clean": rng.random() < 0.7}))))
    for _ in range(ck.n(60, 2000)):
        cases.append(("corr-fmt-random", G.src(G.gen_expr(rng, 3, {"clean": False, "lits": False, "idq": 0.0, "idk": 0.0}))))
    answers = harness("c14", [{"src": "let v = " + s + "\n", "targets": [], "compile": False} for _, s in cases])
    todo = []
    answers_by_src = {}
    for (stream, s), a in zip(cases, answers):
        if isinstance(a, dict):
            answers_by_src[s] = a
        if not isinstance(a, dict) or "pl" not in a or "fmt" not in a:
            ck.stat(stream, "skipped:no-parse")
            continue
        v = value_of(a["pl"])
        if v is None or len(a["pl"]["stmts"]) != 1:
            ck.stat(stream, "skipped:not-one-let")
            continue
        try:
            t = term(O.strip(v))
        except Unsupported as ex:
            ck.stat(stream, "skipped:outside-model:" + str(ex).split(" ")[0])
            continue
        real = a["fmt"]
        if not real.startswith("let v = "):
            ck.stat(stream, "skipped:layout")
            continue
        todo.append((stream, s, t, real[len("let v = "):].rstrip("\n"), v))
    exprs = ["(fmt_text %s, parse_prql %d (fmt_toks %s))" % (coq(t), FUEL, coq(t)) for _, _, t, _, _ in todo]
    try:
        vals = coq_eval(HEADER, exprs)
    except RuntimeError as ex:
        ck.coverage["model_eval_error"] = str(ex)[-800:]
        ck.violation("the formatter model cannot be evaluated on the regenerated tables", {"kind": "model-eval", "error": str(ex)[-400:]}, no_input=True)
        return
    texts = []
    for (stream, s, t, real, v), val in zip(todo, vals):
        mt = "".join(chr(c) for c in val[0]) if isinstance(val, tuple) else None
        texts.append(mt)
    # wrapped real output: line breaking re-parenthesises (break_line_within_parenthesis keeps the outer context),
    # so texts are not comparable; instead the model's text must parse -- by the real parser -- to the same AST
    back = harness("c14", [{"src": "let v = " + (mt or "") + "\n", "targets": [], "compile": False} for mt in texts])
    real_full = ["let v = " + real + "\n" for (_, _, _, real, _) in todo]
    wrapped_pairs = []
    for k, ((stream, s, t, real, v), val, mt) in enumerate(zip(todo, vals, texts)):
        ck.count(stream, s)
        case = {"src": "let v = " + s + "\n", "real_fmt": real, "model_fmt": mt}
        feats = O.features(O.strip(v))
        one_line = "\n" not in real
        if one_line:
            ck.stat(stream, "exact-text-compared")
            if mt != real:
                ck.disagreement("formatter model text differs from pl_to_prql", case, None)
                continue
        else:
            ck.stat(stream, "wrapped:ast-compared")
            wrapped_pairs.append((stream, "let v = " + s + "\n", real_full[k], "let v = " + (mt or "") + "\n"))
            b = back[k]
            real_ok = "pl2" in answers_by_src.get(s, {}) and O.canon(O.strip(answers_by_src[s]["pl2"])) == O.canon(O.strip(answers_by_src[s]["pl"]))
            model_ok = isinstance(b, dict) and "pl" in b and value_of(b["pl"]) is not None and len(b["pl"]["stmts"]) == 1 and O.canon(O.strip(value_of(b["pl"]))) == O.canon(O.strip(v))
            if real_ok != model_ok:
                ck.disagreement("model text and real text disagree on whether they parse back to the source tree", dict(case, real_roundtrips=real_ok, model_roundtrips=model_ok), None)
                continue
        # the model's own round trip on this tree (a theorem; here it also exercises the parser model)
        parsed = val[1]
        ok_rt = isinstance(parsed, tuple) and parsed[0] == "Some" and unlist(parsed[1]) == unlist(t)
        ck.stat(stream, "model-roundtrip:" + ("ok" if ok_rt else "differs"))
        if not ok_rt:
            # contradicts the theorem fmt_expr_roundtrip (possible only when the tables no longer pass `compat`)
            ck.disagreement("model parse (model fmt e) <> e", dict(case, model_parse=str(parsed)[:300]), None)
        if len(ck.coverage["samples"]) < 8 and k % 211 == 0:
            ck.sample({"stream": stream, "src": s, "model_fmt": mt, "real_fmt": real, "model_roundtrip": ok_rt})

    compare_wrapped(ck, wrapped_pairs)

    # ---------------- stream: parser model vs real parser on real tokens
    symidx = {}
    syms = []
    for _, tx in info["binops"] + info["unops"]:
        if tx not in syms:
            syms.append(tx)
    for tx, _ in info["par_bin"] + info["par_un"]:
        if tx not in syms:
            syms.append(tx)
    symidx = {s: i for i, s in enumerate(syms)}
    psrc = []
    for s in triples:
        psrc.append(("corr-parser-triples", s))
    for a in G.ADJACENCY:
        psrc.append(("corr-parser-adjacency", a))     # incl. aliases in parentheses at every operand position, lambdas
    for (stream, s, t, real, v), mt in zip(todo, texts):
        if stream != "corr-fmt-triples" and "\n" not in real and len(psrc) < ck.n(900, 9000):
            psrc.append(("corr-parser-fmt-output", real))
    for _ in range(ck.n(120, 3000)):
        e = G.gen_expr(rng, 3, {"clean": True, "lits": True, "rich": True})
        psrc.append(("corr-parser-random", drop_parens(rng, G.src(e))))
    pa = harness("c14", [{"src": "let v = " + s + "\n", "targets": [], "compile": False} for _, s in psrc])
    pl_reqs = harness("c14lex", [{"src": s} for _, s in psrc])
    ptodo = []
    for (stream, s), a, lx in zip(psrc, pa, pl_reqs):
        if "ok" not in lx:
            continue
        try:
            mtoks = model_tokens(canon_tokens(lx["ok"]), symidx)
        except Unsupported as ex:
            ck.stat(stream, "skipped:outside-model")
            continue
        want = None
        if isinstance(a, dict) and "pl" in a and len(a["pl"]["stmts"]) == 1 and value_of(a["pl"]) is not None:
            try:
                want = term(O.strip(value_of(a["pl"])))
            except Unsupported:
                ck.stat(stream, "skipped:outside-model")
                continue
        ptodo.append((stream, s, mtoks, want))
    pvals = coq_eval(HEADER, ["parse_prql %d %s" % (FUEL, m) for _, _, m, _ in ptodo])
    for (stream, s, mtoks, want), val in zip(ptodo, pvals):
        ck.count(stream, s)
        got = unlist(val[1]) if isinstance(val, tuple) and val[0] == "Some" else None
        if want is None:
            ck.stat(stream, "real-rejects")
            if got is not None:
                ck.stat(stream, "model-accepts-what-real-rejects")   # the predictive model is not a recogniser; informational
            continue
        ck.stat(stream, "real-accepts")
        if got != unlist(want):
            ck.disagreement("parser model differs from prql_to_pl", {"src": "let v = " + s + "\n", "model": str(val)[:400], "real": str(want)[:400]}, None)

    run_programs(ck, symidx)
    run_interpolations(ck)
    run_literals(ck, info)
    run_text_level(ck, pr)


PROGRAMS = [
    "let x = 1\n", "let x\n", "let `a b` = f 1 2\nlet y = (a | f)\n", "from t\nselect a\n", "from t | select a | into z\n", "from t\ninto `my z`\n",
    "f a\n", "x = f a\n", "(from t | select a)\n", "{a = 1}\n", "func x -> x\n", "x = func y -> y + 1\n", "a + b\n", "-a\n", "..3\n", "[1, 2]\n", "case [a => b]\n",
    "import a.b\nimport q = a.`b c`.d\nimport `let` = m\n", "module m {\n}\n", "module m {\n  let a = 1\n}\n",
    "module m {\n  let a = 1\n  module n {\n    let b\n    from t | select c\n    module o {\n    }\n  }\n  import x.y\n}\nfrom m.n.t\n",
    "@{a = 1}\nlet x = 1\n", "@(f x)\n@{b = 2}\n@deprecated\nfrom t\nselect a\n", "@(x = a)\n@(func y -> y)\n@(-a)\n@a.b\nlet v = 2\n",
    "module m {\n  @{a = 1}\n  let x = 1\n\n  @{b = 2}\n  from t\n  into y\n}\n",
    "from a\nlet x = 1\nfrom b\nselect c\n", "from a\n@{x = 1}\nfrom b\n", "from a\nimport b\nfrom c | into d\nmodule e {\n}\nfrom f\n",
    "let f = func x y:1 -> x + y\nfrom t\nderive {q = f a, r = f y:2 b}\n", "let a = (x = 1)\n", "from t\nselect {x = a}\ninto r\nlet y = r\n",
    # the two known classes
    "from a\n#! second query\nfrom b\nselect x\n", "from a\n#! doc\nfrom b\ninto c\n", "module m {\n  from a\n  #! d\n  from b\n}\n", "from a\n#! d\n@{x = 1}\nfrom b\n",
    "x = (from a | select b)\n", "x = (from a | select b)\ninto y\n", "module m {\n  x = (a | f)\n}\n", "(x = (a | f))\n", "x = (a)\n",
]


def run_programs(ck, symidx):
    """statement layer: Model/FmtStmt.v fmt_prog / parse_prog / known_prog against pl_to_prql / prql_to_pl on whole programs"""
    from . import c14_prog as P
    rng = ck.rng
    cases = [("corr-prog-directed", s) for s in PROGRAMS]
    for f in ck.findings:
        r = f.get("replay", {})
        for s in ([r["src"]] if "src" in r else []) + list(r.get("srcs", [])):
            cases.append(("corr-prog-directed", s))
    P.CLEAN[0] = True
    for _ in range(ck.n(150, 4000)):
        cases.append(("corr-prog-syntactic", P.syntactic(rng)))
    for _ in range(ck.n(70, 2000)):
        cases.append(("corr-prog-compilable", P.compilable(rng)))
    P.CLEAN[0] = False
    for _ in range(ck.n(70, 2000)):
        cases.append(("corr-prog-hostile", P.syntactic(rng)))
    P.CLEAN[0] = True
    for _ in range(ck.n(80, 2500)):
        cases.append(("corr-prog-longlines", P.long_lines(rng)))
    for _ in range(ck.n(80, 2500)):
        cases.append(("corr-prog-types", "type %s = %s\n" % (rng.choice(["t", "`my ty`", "long_type_name"]), G.gen_type(rng, rng.choice([1, 2, 2, 3])))))
    answers = harness("c14", [{"src": s, "targets": [], "compile": False} for _, s in cases])
    todo = []
    for (stream, src), a in zip(cases, answers):
        if not isinstance(a, dict) or "pl" not in a or "fmt" not in a:
            ck.stat(stream, "skipped:no-parse")
            continue
        try:
            t = prog_term(O.strip(a["pl"]))
        except Unsupported as ex:
            ck.stat(stream, "skipped:outside-model:" + str(ex).split(" ")[0])
            continue
        todo.append((stream, src, t, a))
    exprs = ["(fmt_prog_text %s, parse_prog_prql %d (fmt_prog_toks %s), known_prog %s, wf_prog %s)" % (coq(t), FUEL, coq(t), coq(t), coq(t)) for _, _, t, _ in todo]
    vals = coq_eval(HEADER, exprs)
    texts = ["".join(chr(c) for c in v[0]) if isinstance(v, tuple) else "" for v in vals]
    back = harness("c14", [{"src": mt, "targets": [], "compile": False} for mt in texts])
    lexed = harness("c14lex", [{"src": a["fmt"]} for _, _, _, a in todo])

    def lines(x):
        return [ln.rstrip() for ln in x.split("\n")]
    ptodo = []
    wrapped_progs = []
    for (stream, src, t, a), v, mt, b, lx in zip(todo, vals, texts, back, lexed):
        ck.count(stream, src)
        pl = O.strip(a["pl"])
        adj, al = prog_known(pl["stmts"])
        known_m, wf_m = v[2], v[3]
        real_ok = "pl2" in a and O.canon(O.strip(a["pl2"])) == O.canon(pl)
        model_rt = isinstance(v[1], tuple) and v[1][0] == "Some" and unlist(v[1][1]) == unlist(t)
        case = {"src": src, "real_fmt": a["fmt"], "model_fmt": mt}
        if not wf_m:
            ck.disagreement("a parsed program is not well-formed in the model (wf_prog = false)", case, None)
            continue
        if known_m != (adj or al):
            ck.disagreement("known_prog of the model differs from its python mirror", dict(case, model_known=known_m, python_known=[adj, al]), None)
            continue
        if model_rt == known_m:
            # contradicts fmt_program_roundtrip_partial (or the refutations would be about nothing)
            ck.disagreement("model: parse_prog (fmt_prog p) = p does not coincide with `not known_prog p`", dict(case, model_roundtrip=model_rt, known=known_m), None)
            continue
        same_text = lines(mt) == lines(a["fmt"])
        if same_text:
            ck.stat(stream, "exact-text-compared")
        else:
            # the real output is wrapped at width 50: texts are not comparable; the model's text must parse -- by the real
            # parser -- to the source tree exactly when the real text does
            ck.stat(stream, "wrapped:ast-compared")
            if real_ok:
                wrapped_progs.append((stream, src, a["fmt"], mt))
            model_ok = isinstance(b, dict) and "pl" in b and O.canon(O.strip(b["pl"])) == O.canon(pl)
            if model_ok != real_ok:
                ck.disagreement("model program text and real program text disagree on whether they parse back to the source tree", dict(case, real_roundtrips=real_ok, model_roundtrips=model_ok), None)
                continue
        ck.stat(stream, "roundtrip:" + ("ok" if real_ok else "lost") + (":known-class" if known_m else ""))
        if real_ok != model_rt:
            # the token-level model treats literals as opaque atoms: a loss that the character-level float classes (F11)
            # explain completely -- equal trees after repairing exactly that class in both -- is theirs
            used = None
            if model_rt and "pl2" in a:
                used = O.explained_by_repairs(pl, O.strip(a["pl2"]), O.features(O.strip(a["pl"], keep_doc=True)))
            if used:
                ck.stat(stream, "roundtrip:lost:float-literal-classes-only")
                for c in used:
                    ck.disagreement("formatting changes the program (float literal)", case, (lambda cc, c=c: {"float-integral": "F11-float-integral"}.get(c)))
                continue
            ck.disagreement("program round trip: model and implementation disagree", dict(case, real_roundtrips=real_ok, model_roundtrips=model_rt, known=known_m), None)
            continue
        if not real_ok:
            ck.disagreement("formatting changes the program (statement layer)", case, (lambda c: "C14-doc-comment-split" if adj else None))
        # the statement parser model on the real lexer's tokens of the (unwrapped) real output
        if same_text and "pl2" in a and "ok" in lx:
            try:
                toks = range_flags([x for x in lx["ok"] if x != "Start" and not (isinstance(x, dict) and ("Comment" in x or "LineWrap" in x or "DocComment" in x))])
                ptodo.append((stream, a["fmt"], model_tokens(toks, symidx), prog_term(O.strip(a["pl2"]))))
            except Unsupported:
                ck.stat(stream, "parser:skipped:outside-model")
    compare_wrapped(ck, wrapped_progs)
    pv = coq_eval(HEADER, ["parse_prog_prql %d %s" % (FUEL, m) for _, _, m, _ in ptodo])
    for (stream, text, m, want), val in zip(ptodo, pv):
        ck.count("corr-prog-parser", text)
        got = unlist(val[1]) if isinstance(val, tuple) and val[0] == "Some" else None
        if got != unlist(want):
            ck.disagreement("statement parser model differs from prql_to_pl", {"src": text, "model": str(val)[:400], "real": str(want)[:400]}, None)


def compare_wrapped(ck, pairs):
    """line breaking (SeparatedExprs, break_line_within_parenthesis, write_or_expand): the output wrapped at width 50 and
    the one-line text of the model -- which equals the real output wherever nothing wraps -- lex, through prqlc's own
    lexer, to the same tokens once the layout is undone and parentheses are erased (layout_tokens)"""
    if not pairs:
        return
    la = harness("c14lex", [{"src": w} for _, _, w, _ in pairs])
    lb = harness("c14lex", [{"src": o} for _, _, _, o in pairs])
    for (stream, src, w, o), a, b in zip(pairs, la, lb):
        ck.count("corr-wrapped-tokens", w)
        if "ok" not in a or "ok" not in b:
            ck.stat("corr-wrapped-tokens", "skipped:does-not-lex")
            continue
        ta, tb = layout_tokens(a["ok"]), layout_tokens(b["ok"])
        ck.stat("corr-wrapped-tokens", stream + (":equal" if ta == tb else ":DIFFERENT"))
        if ta != tb:
            i = next((k for k in range(min(len(ta), len(tb))) if ta[k] != tb[k]), min(len(ta), len(tb)))
            ck.disagreement("wrapped output and one-line output differ in more than layout and parentheses",
                            {"src": src, "wrapped": w, "one_line": o, "first_difference": [str(ta[i:i + 3]), str(tb[i:i + 3])]}, None)


def run_interpolations(ck):
    """s-/f-strings (fmt_interpolation_roundtrip): for generated canonical part lists the model's token text, used as
    source, must parse -- real lexer, real interpolation parser -- to exactly those parts, and format to itself"""
    rng = ck.rng
    STR = ["a", " ", "{", "}", '"', "'", "\\", "\n", "é", ":", ".", "`", "$", "SELECT ", "{{", "}}", "\t"]
    NAMES = ["a", "x1", "_y", "b c", "let", "true", "", "é", "{x}", "a.b", 'q"q', "back\\slash", "a}b", "a:b", "t"]
    FMTS = [None, None, ">10", ".2f", "", " ", "\\", '"q"', "a:b", "{", "x y"]
    cases = []
    for _ in range(ck.n(160, 3000)):
        parts = []
        for _ in range(rng.randint(0, 5)):
            if rng.random() < 0.5:
                st = "".join(rng.choice(STR) for _ in range(rng.randint(1, 4)))
                if parts and parts[-1][0] == "IStr":
                    parts[-1] = ("IStr", parts[-1][1] + st)
                else:
                    parts.append(("IStr", st))
            else:
                parts.append(("IExpr", [rng.choice(NAMES) for _ in range(rng.randint(1, 3))], rng.choice(FMTS)))
        cases.append((rng.random() < 0.5, parts))
    cases += [(False, []), (True, [("IStr", "{")]), (False, [("IStr", '"')]), (False, [("IExpr", [""], "")]), (True, [("IStr", " \n ")])]

    def cq(parts):
        return "[" + "; ".join("(IStr %s)" % coq(codes(p[1])) if p[0] == "IStr" else
                               "(IExpr %s %s)" % (coq([codes(x) for x in p[1]]), ("(Some %s)" % coq(codes(p[2]))) if p[2] is not None else "None") for p in parts) + "]"
    hdr = HEADER + "From PV Require Import Proofs.FmtInterpProofs.\n"
    vals = coq_eval(hdr, ["(interp_text R_prql %s %s, FmtInterpProofs.canon %s)" % ("true" if sql else "false", cq(parts), cq(parts)) for sql, parts in cases])
    texts = ["".join(chr(c) for c in v[0]) for v in vals]
    ans = harness("c14", [{"src": "let v = " + t + "\n", "targets": [], "compile": False} for t in texts])
    for (sql, parts), v, text, a in zip(cases, vals, texts, ans):
        ck.count("corr-interp", text)
        case = {"parts": str(parts), "model_text": text}
        if not v[1]:
            ck.disagreement("a generated part list is not canonical in the model", case, None)
            continue
        want = [{"String": p[1]} if p[0] == "IStr" else {"Expr": {"expr": {"Ident": p[1]}, "format": p[2]}} for p in parts]
        got = None
        if isinstance(a, dict) and "pl" in a:
            val = value_of(O.strip(a["pl"]))
            got = (val or {}).get("SString" if sql else "FString")
        ck.stat("corr-interp", "parts:%d" % len(parts))
        if got != want:
            ck.disagreement("the interpolation text of the model does not parse back to its parts", dict(case, real_parts=str(got)[:300]), None)
            continue
        if a.get("fmt") != "let v = " + text + "\n":
            ck.disagreement("interp_text differs from display_interpolation", dict(case, real_fmt=a.get("fmt")), None)


def run_text_level(ck, pr):
    """text level (fmt_text_lexes): for generated token lists the model says whether the list is in the SPACED FRAGMENT,
    what text the renderer writes and which lexer token kinds that text has; the real lexer (prql_to_tokens) must give
    exactly those kinds on exactly that text.  Lists outside the fragment are counted, not compared."""
    import os
    from ..common import COQ
    if not os.path.exists(os.path.join(COQ, "Proofs", "FmtLexProofs.vo")):
        ck.coverage["corr-text-lex"] = "skipped: Proofs/FmtLexProofs.vo is not built"
        return
    from .c17_lib import py_model_kind, py_impl_kind
    rng = ck.rng
    NAMES = ["a", "x1", "_y", "b_c", "let", "true", "null", "false", "into", "case", "func", "module", "prql", "type", "internal", "import", "enum", "and", "or", "in",
             "A", "aZ9", "_", "__", "f64", "e1", "x_", "b c", "1a", "a-b", "", "é", "a.b", "r", "s", "f", "r1", "select", "from"]
    CH = [chr(c) for c in range(32, 127)]
    INTS = [0, 1, 7, 42, 1000, 2 ** 63 - 1, 2 ** 63, -1, 10 ** 18, 123456789]
    nsym = coq_eval(HEADER, ["length symtab"])[0]

    def gen_tok():
        r = rng.random()
        if r < 0.22:
            return ("TA", ("AIdent", [codes(rng.choice(NAMES))]))
        if r < 0.30:
            return ("TA", ("ALit", rng.choice([("LBool", True), ("LBool", False), "LNull"])))
        if r < 0.42:
            return ("TA", ("ALit", ("LInt", rng.choice(INTS) if rng.random() < 0.6 else rng.randint(0, 10 ** rng.randint(1, 19)))))
        if r < 0.54:
            pool = CH if rng.random() < 0.4 else [c for c in CH if c not in "\"\\'"]
            return ("TA", ("ALit", ("LStr", codes("".join(rng.choice(pool) for _ in range(rng.randint(0, 6)))))))
        if r < 0.60:
            return ("TA", ("AParam", codes("".join(rng.choice("ab1_.Z") for _ in range(rng.randint(0, 4))))))
        if r < 0.80:
            return ("TS", "%d%%nat" % rng.randint(0, nsym if rng.random() < 0.1 else nsym - 1), False)
        if r < 0.88:
            return ("TAlias", codes(rng.choice(NAMES)))
        if r < 0.93:
            return "TPipe"
        if r < 0.97:
            return "TArrow"
        return rng.choice(["TComma", ("TOpen", "GTup"), ("TClose", "GTup"), ("TS", "0%nat", True), ("TRg", True, True), ("TNamed", codes("n")), "TFunc"])

    def tok_plain(t):
        """generated token term -> the shape parse_term gives for Coq's printing of it"""
        if isinstance(t, str) and t.endswith("%nat"):
            return int(t[:-4])
        if isinstance(t, (list, tuple)):
            return [tok_plain(x) for x in t]
        return t

    def unq(t):
        """Coq prints the lexer model's constructors qualified (FmtLexProofs.L.KControl): drop the qualifier"""
        if isinstance(t, str):
            return t.rsplit(".", 1)[-1]
        if isinstance(t, (list, tuple)):
            return type(t)(unq(x) for x in t)
        return t
    cases = [[gen_tok() for _ in range(rng.randint(1, 7))] for _ in range(ck.n(300, 6000))]
    # every symbol next to every symbol (maximal munch across a blank), and each class alone
    cases += [[("TS", "%d%%nat" % a, False), ("TS", "%d%%nat" % b, False)] for a in range(nsym) for b in range(nsym)]
    cases += [[("TAlias", codes("x")), ("TS", "%d%%nat" % a, False), "TArrow", "TPipe"] for a in range(nsym)]
    hdr = HEADER + "From PV Require Import Model.FmtLex Model.FmtLexInst.\nFrom PV Require Model.Lexer Model.LexerGen.\n"
    vals = coq_eval(hdr, ["(spaced_prql %s, (render R_prql %s, kinds_prql %s))" % ((coq(ts),) * 3) for ts in cases])
    todo = []
    for ts, v in zip(cases, vals):
        text = "".join(chr(c) for c in v[1][0])
        ck.count("corr-text-lex", text + "|" + str(v[0]))
        ck.stat("corr-text-lex", "in-fragment" if v[0] else "outside")
        if v[0]:
            todo.append((ts, text, [py_model_kind(unq(k)) for k in v[1][1]]))
    ans = harness("c14lex", [{"src": t} for _, t, _ in todo])
    back = []
    for (ts, text, want), a in zip(todo, ans):
        got = [py_impl_kind(k) for k in a["ok"]][1:] if isinstance(a, dict) and "ok" in a else None
        if got != want:
            ck.disagreement("the rendered text of a spaced token list does not lex to the kinds of its tokens (fmt_text_lexes)",
                            {"tokens": coq(ts)[:400], "text": text, "model_kinds": str(want)[:400], "real": str(got if got is not None else a)[:400]}, None)
            continue
        back.append((ts, text, a["ok"][1:]))
    # the way back (untok_prql) on what the REAL lexer produced: its kinds, read back by the model, are the token list
    from .c17_lib import coq_kind
    bv = coq_eval(hdr, ["untok_prql [%s]" % "; ".join("Lexer." + coq_kind(k).replace("(L", "(Lexer.L") for k in ks) for _, _, ks in back])
    for (ts, text, ks), v in zip(back, bv):
        ck.count("corr-text-untok", text)
        if not (isinstance(v, tuple) and v[0] == "Some" and unlist(v[1]) == unlist(tok_plain(ts))):
            ck.disagreement("the kinds the lexer gives for a rendered spaced token list do not read back as the token list (untok_prql)",
                            {"tokens": coq(ts)[:400], "text": text, "model_back": str(v)[:400]}, None)


def drop_parens(rng, s):
    """remove some balanced parenthesis pairs at random (the result may or may not parse; both parsers are asked)"""
    out = list(s)
    opens = [i for i, c in enumerate(out) if c == "("]
    rng.shuffle(opens)
    for i in opens[: max(1, len(opens) // 2)]:
        depth = 0
        in_str = None
        for j in range(i, len(out)):
            c = out[j]
            if c == "(":
                depth += 1
            elif c == ")":
                depth -= 1
                if depth == 0:
                    out[i] = " "
                    out[j] = " "
                    break
    return re.sub(r"\s+", " ", "".join(out)).strip()


# ------------------------------------------------------------------ literals and identifiers

def run_literals(ck, info):
    rng = ck.rng
    # strings: exhaustive over a small alphabet up to length n, plus the generator's pool, plus random
    alpha = ["'", '"', "\\", "a", "\n"]
    strs = [""]
    frontier = [""]
    for _ in range(ck.n(4, 5)):
        frontier = [p + c for p in frontier for c in alpha]
        strs += frontier
    strs += G.STRINGS
    for _ in range(ck.n(150, 5000)):
        strs.append("".join(rng.choice(["'", '"', "\\", "a", " ", "\n", "\t", "é", "{", "\u0001", "\u007f", "😀", " ", "퟿", "￿", "\r"]) for _ in range(rng.randint(0, 9))))
    strs = list(dict.fromkeys(strs))
    real = harness("c14display", [{"kind": "string", "s": s} for s in strs])
    vals = coq_eval(HEADER, ["(fmt_string %s, lex_string (fmt_string %s), quote_edge (escape_all_except_quotes %s))" % ((coq(codes(s)),) * 3) for s in strs])
    for s, r, v in zip(strs, real, vals):
        ck.count("corr-lit-string", s)
        mt = "".join(chr(c) for c in v[0])
        case = {"string": s, "model_text": mt, "real_text": r.get("text")}
        if mt != r.get("text"):
            ck.disagreement("fmt_string differs from Literal::String Display", case, None)
            continue
        # what the text lexes back to: model lexer vs real lexer
        rl = r.get("lex")
        real_back = None
        if isinstance(rl, list) and len(rl) == 2 and isinstance(rl[1], dict) and isinstance(rl[1].get("Literal"), dict) and "String" in rl[1]["Literal"]:
            real_back = rl[1]["Literal"]["String"]
        mv = v[1]
        model_back = "".join(chr(c) for c in mv[1][0]) if isinstance(mv, tuple) and mv[0] == "Some" and mv[1][1] == [] else None
        edge = v[2]
        ck.stat("corr-lit-string", "roundtrip:" + ("ok" if real_back == s else "lost") + (":quote-edge" if edge else ""))
        if model_back != real_back:
            ck.disagreement("string lexer model differs from the lexer on the formatter's output", dict(case, model_back=model_back, real_back=real_back, real_lex=str(rl)[:200]), None)
            continue
        if real_back != s:
            # fmt_string_roundtrip holds for every string since commit 5e36fe1: nothing explains a loss
            ck.disagreement("a printed string does not lex back to itself", dict(case, real_back=real_back), None)
    # raw strings
    raws = ["", "a", "a\\b", "{x}", "#", "é"]
    rr = harness("c14display", [{"kind": "raw", "s": s} for s in raws])
    rv = coq_eval(HEADER, ["(fmt_raw %s, lex_raw (fmt_raw %s))" % ((coq(codes(s)),) * 2) for s in raws])
    for s, r, v in zip(raws, rr, rv):
        ck.count("corr-lit-raw", s)
        if "".join(chr(c) for c in v[0]) != r.get("text"):
            ck.disagreement("fmt_raw differs from Literal::RawString Display", {"raw": s, "real": r.get("text")}, None)
    # integers
    ints = [0, 1, 7, 9, 10, 11, 99, 100, 101, 255, 256, 1000, 65535, 2 ** 31, 2 ** 32 - 1, 2 ** 53, 10 ** 18, 2 ** 63 - 1] + [rng.randrange(0, 2 ** 63) for _ in range(ck.n(60, 2000))] + list(range(12, 40))
    ri = harness("c14display", [{"kind": "int", "i": i} for i in ints])
    vi = coq_eval(HEADER, ["(show_Z (%d)%%Z, lex_number (show_Z (%d)%%Z))" % (i, i) for i in ints])
    for i, r, v in zip(ints, ri, vi):
        ck.count("corr-lit-int", str(i))
        mt = "".join(chr(c) for c in v[0])
        if mt != r.get("text"):
            ck.disagreement("show_Z differs from Literal::Integer Display", {"int": i, "model": mt, "real": r.get("text")}, None)
            continue
        back = v[1]
        ok = isinstance(back, tuple) and back[0] == "Some" and unlist(back[1]) == [["NInt", i], []]
        rl = r.get("lex")
        real_ok = isinstance(rl, list) and len(rl) == 2 and rl[1] == {"Literal": {"Integer": i}}
        if not ok or not real_ok:
            ck.disagreement("a printed integer does not lex back to itself", {"int": i, "model_back": str(back), "real_lex": str(rl)}, None)
    # floats
    fl = ["0.5", "1.5", "0.1", "0.25", "3.14159", "123456.789", "1e-7", "1.5e-7", "5e-324", "0.30000000000000004", "1.7976931348623157e308", "2.5", "1e21", "1e22", "1.0", "0.0", "2.0",
          "100.0", "1e3", "9007199254740993.0", "9223372036854775808.0", "1e19", "12345678901234567890.0", "4.9e-320", "1e100", "0.000001", "1e-10", "123.456e5", "6.02e23"]
    for _ in range(ck.n(150, 5000)):
        k = rng.random()
        if k < 0.4:
            fl.append(repr(rng.random() * 10 ** rng.randint(-5, 5)))
        elif k < 0.6:
            fl.append(repr(float(rng.randint(0, 10 ** rng.randint(1, 25)))))
        elif k < 0.8:
            fl.append("%de%d" % (rng.randint(1, 9999), rng.randint(-320, 300)))
        else:
            fl.append(repr(rng.randint(1, 10 ** 6) / 2 ** rng.randint(0, 40)))
    fl = list(dict.fromkeys(fl))
    rf = harness("c14display", [{"kind": "float", "f": f} for f in fl])
    fterms = []
    for f in fl:
        x = float(f)
        fterms.append(float_dec(x))
    vf = coq_eval(HEADER, ["(fmt_float %s, lex_number (fmt_float %s), float_known %s)" % ((coq(t),) * 3) for t in fterms])
    for f, t, r, v in zip(fl, fterms, rf, vf):
        ck.count("corr-lit-float", f)
        mt = "".join(chr(c) for c in v[0])
        case = {"float": f, "decimal": str(t), "model_text": mt, "real_text": r.get("text")}
        if mt != r.get("text"):
            rt = r.get("text") or ""
            try:
                tie = len(rt) == len(mt) and float(rt) == float(mt) == float(f)
            except ValueError:
                tie = False
            if tie:
                # two equally short decimals round-trip (the value is an exact tie): python's repr and Rust pick different ones
                ck.stat("corr-lit-float", "shortest-decimal-tie:skipped")
                continue
            ck.disagreement("fmt_float differs from Literal::Float Display", case, None)
            continue
        rl = r.get("lex")
        real_kind = None
        if isinstance(rl, list) and len(rl) == 2 and isinstance(rl[1], dict) and isinstance(rl[1].get("Literal"), dict):
            (real_kind, real_val), = rl[1]["Literal"].items()
        elif isinstance(rl, list) and len(rl) == 2 and isinstance(rl[1], dict) and "Ident" in rl[1]:
            real_kind = "Ident"
        back = v[1]
        model_kind = None
        if isinstance(back, tuple) and back[0] == "Some" and back[1][1] == []:
            model_kind = {"NInt": "Integer", "NFloat": "Float"}[back[1][0][0]]
            model_same = unlist(back[1][0]) == ["NFloat", unlist(t)]
        else:
            model_same = False
        known = v[2]
        ck.stat("corr-lit-float", "lexes-back-as:%s" % real_kind + (":known-class" if known else ""))
        if (model_kind or "Ident") != real_kind and not (model_kind is None and real_kind == "Ident"):
            ck.disagreement("number lexer model differs from the lexer on the formatter's output", dict(case, model_back=str(back)[:200], real_lex=str(rl)[:200]), None)
            continue
        real_same = real_kind == "Float" and float(real_val) == float(f)
        if model_same != real_same:
            ck.disagreement("float round trip: model and implementation disagree", dict(case, model_same=model_same, real_same=real_same), None)
            continue
        if not real_same:
            cls = None
            if known:
                cls = None if t == "FInf" else "F11-float-integral"     # (inf: no source lexes to it since d8fda67)
            ck.disagreement("a printed float does not lex back to itself", dict(case, real_lex=str(rl)[:200]), (lambda c, cls=cls: cls))
    # identifiers: display_ident_part (expression position) and write_ident_part (alias position) through the formatter
    parts = list(dict.fromkeys(G.PLAIN_IDS + G.QUOTED_IDS + G.KEYWORD_IDS + ["x$", "$", "_", "a1", "A_b", "ä", "a b c", "1", "a.b.c", "in", "this", "true1", "nul", "r", "s", "f", "е", "a\nb", "a\tb", "semi;colon"]))
    parts += G.unicode_names()[::3]
    parts = [p for p in dict.fromkeys(parts) if "`" not in p]
    ra = harness("fmt", [{"src": "let v = `%s`\n" % p} for p in parts])
    rb = harness("fmt", [{"src": "let v = {`%s` = 1}\n" % p} for p in parts])
    vi = coq_eval(HEADER, ["(display_ident_part I_prql %s, write_ident_part I_prql %s)" % ((coq(codes(p)),) * 2) for p in parts])
    for p, a, b, v in zip(parts, ra, rb, vi):
        ck.count("corr-ident", p)
        d, w = "".join(chr(c) for c in v[0]), "".join(chr(c) for c in v[1])
        if "ok" in a and a["ok"] != "let v = %s\n" % d:
            ck.disagreement("display_ident_part model differs from the formatter", {"part": p, "model": d, "real": a["ok"]}, None)
        if "ok" in b and "\n" not in p and b["ok"] != "let v = {%s = 1}\n" % w:
            ck.disagreement("write_ident_part model differs from the formatter", {"part": p, "model": w, "real": b["ok"]}, None)
    # the word lexer model (ASCII classes suffice: non-ASCII parts are printed in backticks) vs the real lexer,
    # on what the two printers emit, followed by a blank
    hdr = HEADER + "From PV Require Import Proofs.FmtLitProofs Proofs.FmtInstProofs.\n"
    wv = coq_eval(hdr, ["(lex_word ascii_alpha_f ascii_alnum_f I_prql (display_ident_part I_prql %s ++ [32]), lex_word ascii_alpha_f ascii_alnum_f I_prql (write_ident_part I_prql %s ++ [32]))" % ((coq(codes(p)),) * 2) for p in parts])
    texts = []
    for p, v in zip(parts, vi):
        texts.append("".join(chr(c) for c in v[0]) + " ")
        texts.append("".join(chr(c) for c in v[1]) + " ")
    rl = harness("c14lex", [{"src": x} for x in texts])

    def real_word(ans):
        if "ok" not in ans or len(ans["ok"]) != 2:
            return None
        k = ans["ok"][1]
        if isinstance(k, dict) and "Ident" in k:
            return ["WIdent", codes(k["Ident"])]
        if isinstance(k, dict) and "Keyword" in k:
            return ["WKeyword", codes(k["Keyword"])]
        if isinstance(k, dict) and k.get("Literal") == "Null":
            return "WNull"
        if isinstance(k, dict) and isinstance(k.get("Literal"), dict) and "Boolean" in k["Literal"]:
            return ["WBool", k["Literal"]["Boolean"]]
        return None

    def model_word(v):
        if isinstance(v, tuple) and v[0] == "Some" and v[1][1] == [32]:
            return unlist(v[1][0])
        return None
    for i, (p, v) in enumerate(zip(parts, wv)):
        for j, which in enumerate(("display_ident_part", "write_ident_part")):
            ck.count("corr-ident-lexer", which + "|" + p)
            mw, rw = model_word(v[j]), real_word(rl[2 * i + j])
            if any(ord(c) > 127 for c in texts[2 * i + j]) and "`" not in texts[2 * i + j]:
                continue
            if mw != rw:
                ck.disagreement("word lexer model differs from the lexer on a printed identifier", {"part": p, "printer": which, "text": texts[2 * i + j], "model": str(v[j])[:200], "real": str(rl[2 * i + j])[:200]}, None)
                continue
            back_ok = rw == ["WIdent", codes(p)]
            ck.stat("corr-ident-lexer", "%s:%s" % (which, "ok" if back_ok else "lost"))
            if not back_ok:
                # fmt_expr_ident_roundtrip / fmt_ident_roundtrip hold for every name (the latter since commit 328740d)
                ck.disagreement("a printed identifier does not lex back to itself", {"part": p, "printer": which, "text": texts[2 * i + j], "real": str(rl[2 * i + j])[:200]}, None)

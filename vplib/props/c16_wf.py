"""Python mirror of coq/Model/RqWf.v (rq_diags / rq_wf) over the normal form of vplib/rqcoq.py.

It is a *mirror*, not the definition: the check cross-validates it against the Coq evaluation of
`rq_diags` on every program evaluated in Coq (same diagnostics, same order).  Diagnostics:
  ("DDupCid", c) ("DDupTid", t) ("DUndefined", w, site, c) ("DNotVisible", w, site, c) ("DForeign", w, site, c)
  ("DTidUndeclared", w, t)
  ("DNoFrom", w) ("DNoSelect", w) ("DArity", w, n, m)        w = position in the table list (main = len)
  site = where in a transform the id is used: SCompute SWinFrame SWinPartition SWinSort SSelect SFilter
         SAggPartition SAggCompute SSort STakeRange STakePartition STakeSort SJoinFilter SRelArg
"""


def expr_cids(e):
    if e[0] == "ERef":
        return [e[1]]
    if e[0] == "ENode":
        out = []
        for a in e[2]:
            out += expr_cids(a)
        return out
    return []


def oexpr_cids(e):
    return [] if e is None else expr_cids(e)


def range_cids(r):
    return oexpr_cids(r[0]) + oexpr_cids(r[1])


def tref_cids(r):
    return [c for _, c in r[2]]


def window_cids(w):
    if w is None:
        return []
    return range_cids(w[2]) + list(w[3]) + [c for _, c in w[4]]


def transform_defs(t):
    k = t[0]
    if k in ("TFrom", "TAppend"):
        return tref_cids(t[1])
    if k == "TJoin":
        return tref_cids(t[2])
    if k == "TCompute":
        return [t[1]]
    if k == "TLoop":
        return pipeline_defs(t[1])
    return []


def pipeline_defs(p):
    out = []
    for t in p:
        out += transform_defs(t)
    return out


def relation_defs(r):
    return pipeline_defs(r[1][1]) if r[1][0] == "KPipeline" else []


def all_defs(q):
    out = []
    for t in q[1]:
        out += relation_defs(t[3])
    return out + relation_defs(q[2])


def dups(xs):
    """every occurrence after the first, in order"""
    seen, out = set(), []
    for x in xs:
        if x in seen:
            out.append(x)
        seen.add(x)
    return out


def check_uses(defs, w, vis, site, cs):
    """defs = (all definitions of the query, definitions inside the relation being checked)"""
    alld, ldefs = defs
    out = []
    for c in cs:
        if c not in vis:
            if c not in alld:
                out.append(("DUndefined", w, site, c))
            elif c in ldefs:
                out.append(("DNotVisible", w, site, c))
            else:
                out.append(("DForeign", w, site, c))
    return out


def window_diags(defs, w, vis, win):
    if win is None:
        return []
    return (check_uses(defs, w, vis, "SWinFrame", range_cids(win[2])) + check_uses(defs, w, vis, "SWinPartition", list(win[3]))
            + check_uses(defs, w, vis, "SWinSort", [c for _, c in win[4]]))


def check_tid(decl, w, t):
    return [] if t in decl else [("DTidUndeclared", w, t)]


def pipeline_diags(defs, decl, w, vis, p):
    """returns (diags, vis_after)"""
    out = []
    for t in p:
        k = t[0]
        if k == "TFrom":
            out += check_tid(decl, w, t[1][1])
            vis = vis + tref_cids(t[1])
        elif k == "TCompute":
            out += check_uses(defs, w, vis, "SCompute", expr_cids(t[2])) + window_diags(defs, w, vis, t[3])
            vis = vis + [t[1]]
        elif k == "TSelect":
            out += check_uses(defs, w, vis, "SSelect", t[1])
            vis = list(t[1])
        elif k == "TFilter":
            out += check_uses(defs, w, vis, "SFilter", expr_cids(t[1]))
        elif k == "TAggregate":
            out += check_uses(defs, w, vis, "SAggPartition", list(t[1])) + check_uses(defs, w, vis, "SAggCompute", list(t[2]))
            vis = list(t[1]) + list(t[2])
        elif k == "TSort":
            out += check_uses(defs, w, vis, "SSort", [c for _, c in t[1]])
        elif k == "TTake":
            out += (check_uses(defs, w, vis, "STakeRange", range_cids(t[1])) + check_uses(defs, w, vis, "STakePartition", list(t[2]))
                    + check_uses(defs, w, vis, "STakeSort", [c for _, c in t[3]]))
        elif k == "TJoin":
            out += check_tid(decl, w, t[2][1])
            vis = vis + tref_cids(t[2])
            out += check_uses(defs, w, vis, "SJoinFilter", expr_cids(t[3]))
        elif k == "TAppend":
            out += check_tid(decl, w, t[1][1])
        elif k == "TLoop":
            d, _ = pipeline_diags(defs, decl, w, vis, t[1])
            out += d
        else:
            raise ValueError(k)
    return out, vis


def relation_diags(alld, decl, w, r):
    k, cols = r[1], r[2]
    defs = (alld, relation_defs(r))
    if k[0] == "KPipeline":
        p = k[1]
        out, _ = pipeline_diags(defs, decl, w, [], p)
        if not (p and p[0][0] == "TFrom"):
            out.append(("DNoFrom", w))
        if p and p[-1][0] == "TSelect":
            if len(p[-1][1]) != len(cols):
                out.append(("DArity", w, len(p[-1][1]), len(cols)))
        else:
            out.append(("DNoSelect", w))
        return out
    if k[0] == "KSString":
        cs = []
        for e in k[1]:
            cs += expr_cids(e)
        return check_uses(defs, w, [], "SRelArg", cs)
    if k[0] == "KBuiltIn":
        cs = []
        for e in k[2]:
            cs += expr_cids(e)
        return check_uses(defs, w, [], "SRelArg", cs)
    return []


def rq_diags(q):
    defs = all_defs(q)
    out = [("DDupCid", c) for c in dups(defs)]
    out += [("DDupTid", t) for t in dups([t[1] for t in q[1]])]
    decl = []
    for i, t in enumerate(q[1]):
        out += relation_diags(defs, decl, i, t[3])
        decl = decl + [t[1]]
    out += relation_diags(defs, decl, len(q[1]), q[2])
    return out


def rq_wf(q):
    return not rq_diags(q)


def lax_diag(d):
    """the one relaxation: a carried sort (Take.sort / Window.sort) naming a column that is defined in the same
    relation but not visible (DForeign -- defined only in another relation -- is not tolerated)"""
    return d[0] == "DNotVisible" and d[2] in ("STakeSort", "SWinSort")


def rq_wf_lax(q):
    return all(lax_diag(d) for d in rq_diags(q))


# the lookups a back end performs (mirror of Model/RqWf.v used_cids / used_tids), for reporting only
def pipeline_uses(p):
    cs, ts = [], []
    for t in p:
        k = t[0]
        if k in ("TFrom", "TAppend"):
            ts.append(t[1][1])
        elif k == "TCompute":
            cs += expr_cids(t[2]) + window_cids(t[3])
        elif k == "TSelect":
            cs += t[1]
        elif k == "TFilter":
            cs += expr_cids(t[1])
        elif k == "TAggregate":
            cs += list(t[1]) + list(t[2])
        elif k == "TSort":
            cs += [c for _, c in t[1]]
        elif k == "TTake":
            cs += range_cids(t[1]) + list(t[2]) + [c for _, c in t[3]]
        elif k == "TJoin":
            ts.append(t[2][1])
            cs += expr_cids(t[3])
        elif k == "TLoop":
            c2, t2 = pipeline_uses(t[1])
            cs += c2
            ts += t2
    return cs, ts


def shape(q):
    """coarse histogram keys of an RQ, for coverage statistics"""
    keys = set()

    def walk(p, depth):
        for t in p:
            keys.add(t[0])
            if t[0] == "TCompute" and t[3] is not None:
                keys.add("window")
            if t[0] == "TTake" and (t[2] or t[3]):
                keys.add("take-in-group")
            if t[0] == "TLoop":
                walk(t[1], depth + 1)
    for t in q[1]:
        keys.add(t[3][1][0])
        if t[3][1][0] == "KPipeline":
            walk(t[3][1][1], 0)
    walk(q[2][1][1], 0) if q[2][1][0] == "KPipeline" else None
    keys.add("tables=%d" % min(len(q[1]), 6))
    return keys

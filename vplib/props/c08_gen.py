"""GenLiteral.v (Tie A for C08): the table-shaped facts of literal handling, read from /repo on every run:
  * the escape table of prqlc-parser/src/lexer/mod.rs parse_escape_sequence (simple `'x' => 'y'` arms)
    and the fixed shape of the remaining arms (\\u{...}, \\xHH, escaped quote, unknown escape);
  * the (prefix, base, max digits) rows of parse_number_with_base and the order of literal()'s choice;
  * the shape of sql/gen_expr.rs translate_literal for strings / booleans / integers / floats / dates;
  * sql/dialect.rs: for every Dialect variant, through handler(), the value of string_literal_backslash_escape()
    (trait default + per-handler overrides; boolean literals only; the flag must be consulted exactly once, in
    translate_literal) -> writer_backslash_doubling;
  * the reading side of each dialect (is a backslash an escape inside '...'; do \\% \\_ keep it) as the pinned sqlparser's
    dialect object of the same name states it (harness c08_dialects) -> reader_backslash_escape.
Fails closed: anything unexpected -> stub file, so Props/C08.v stops compiling."""
import re

from ..common import gen_write, harness
from ..rustscan import ExtractError, read, mask, block_after, match_arms, match_brace, enum_variants

LEXER = "prqlc/prqlc-parser/src/lexer/mod.rs"
GENEXPR = "prqlc/prqlc/src/sql/gen_expr.rs"
DIALECT = "prqlc/prqlc/src/sql/dialect.rs"
SQLMOD = "prqlc/prqlc/src/sql/mod.rs"
BS_FLAG = "string_literal_backslash_escape"


def rust_char(lit):
    """value (code point) of a Rust char literal, quotes included"""
    lit = lit.strip()
    if len(lit) < 3 or lit[0] != "'" or lit[-1] != "'":
        raise ExtractError("not a char literal: %r" % lit)
    b = lit[1:-1]
    simple = {"\\\\": 92, "\\n": 10, "\\r": 13, "\\t": 9, "\\'": 39, '\\"': 34, "\\0": 0}
    if b in simple:
        return simple[b]
    m = re.fullmatch(r"\\x([0-9a-fA-F]{2})", b)
    if m:
        return int(m.group(1), 16)
    m = re.fullmatch(r"\\u\{([0-9a-fA-F]{1,6})\}", b)
    if m:
        return int(m.group(1), 16)
    if len(b) == 1 and b != "\\":
        return ord(b)
    raise ExtractError("unsupported char literal: %r" % lit)


def norm(t):
    return re.sub(r"\s+", " ", re.sub(r"//[^\n]*", "", t)).strip()


def bool_method(src, m, s, e, name, where):
    """value of `fn name(&self) -> bool { true|false }` directly inside src[s:e]; None when the block has no such method"""
    hits = [x for x in re.finditer(r"\bfn\s+%s\s*\(" % re.escape(name), m[s:e])]
    if not hits:
        return None
    if len(hits) > 1:
        raise ExtractError("%s: method %s defined twice" % (where, name))
    at = s + hits[0].start()
    po = m.index("(", at)
    pc = match_brace(m, po)
    bo = m.find("{", pc, e)
    if bo < 0:
        raise ExtractError("%s: method %s has no body" % (where, name))
    sig = re.sub(r"\s+", " ", m[po:bo]).strip()
    if sig != "(&self) -> bool":
        raise ExtractError("%s: method %s has signature %r" % (where, name, sig))
    bc = match_brace(m, bo)
    body = re.sub(r"\s+", " ", m[bo + 1:bc]).strip()       # masked: comments blanked
    if body not in ("true", "false"):
        raise ExtractError("%s: body of %s is not a boolean literal: %r" % (where, name, body[:60]))
    return body == "true"


def extract_backslash_flags():
    """[(dialect name, does translate_literal double backslashes for it)] in the order of the Dialect enum:
    the Dialect -> handler map composed with the handlers' string_literal_backslash_escape (trait default + overrides)"""
    src = read(DIALECT)
    m = mask(src)
    if not re.search(r"#\[strum\(serialize_all\s*=\s*\"lowercase\"\)\]\s*pub enum Dialect\b", src):
        raise ExtractError("Dialect names are no longer serialize_all=lowercase")
    variants = [v for v, _ in enum_variants(DIALECT, "Dialect")]
    s, e = block_after(src, m, r"fn\s+handler\s*\(&self\)[^{]*\{")
    s2, e2 = block_after(src[s:e], m[s:e], r"match\s+self\s*\{")
    handler = {}
    for pat, body in match_arms(src[s:e], m[s:e], s2, e2):
        mb = re.fullmatch(r"Box::new\(([A-Za-z]+)\)", body.strip())
        if not mb:
            raise ExtractError("handler(): arm body not Box::new(X): %r" % body[:60])
        for p in pat.split("|"):
            mp = re.fullmatch(r"Dialect::([A-Za-z]+)", p.strip())
            if not mp or mp.group(1) in handler:
                raise ExtractError("handler(): pattern %r" % p)
            handler[mp.group(1)] = mb.group(1)
    if sorted(handler) != sorted(variants):
        raise ExtractError("handler() does not cover exactly the Dialect variants")
    s, e = block_after(src, m, r"trait\s+DialectHandler\b[^{]*\{")
    default = bool_method(src, m, s, e, BS_FLAG, "trait DialectHandler")
    if default is None:
        raise ExtractError("trait DialectHandler has no %s" % BS_FLAG)
    # every mention of the flag in the SQL backend: the trait default, the overrides, and the one use in translate_literal
    over = {}
    for mm in re.finditer(r"impl\s+DialectHandler\s+for\s+([A-Za-z]+)\s*\{", m):
        bo = mm.end() - 1
        bc = match_brace(m, bo)
        if mm.group(1) in over:
            raise ExtractError("two impl DialectHandler blocks for %s" % mm.group(1))
        over[mm.group(1)] = bool_method(src, m, bo + 1, bc, BS_FLAG, "impl DialectHandler for " + mm.group(1))
    for h in set(handler.values()):
        if h not in over:
            raise ExtractError("no impl DialectHandler for %s" % h)
    n_defs = len(re.findall(r"\bfn\s+%s\b" % BS_FLAG, m))
    if n_defs != 1 + sum(1 for v in over.values() if v is not None):
        raise ExtractError("%s is defined somewhere else than the trait and its impl blocks" % BS_FLAG)
    if len(re.findall(r"\b%s\b" % BS_FLAG, m)) != n_defs:
        raise ExtractError("%s is used inside dialect.rs (forwarding between handlers is not modelled)" % BS_FLAG)
    sm = read(SQLMOD)
    if not re.search(r"fn new\(dialect: Dialect, anchor: AnchorContext\) -> Self \{\s*Context \{\s*dialect: dialect\.handler\(\),", sm):
        raise ExtractError("sql::Context::new no longer takes its dialect handler from Dialect::handler()")
    return [(v.lower(), default if over[handler[v]] is None else over[handler[v]]) for v in variants]


def extract_interval_styles():
    """[(dialect name, style for weeks, style for every other unit)]: Dialect -> handler -> interval_quoting_style"""
    src = read(DIALECT)
    m = mask(src)
    variants = [v for v, _ in enum_variants(DIALECT, "Dialect")]
    s, e = block_after(src, m, r"fn\s+handler\s*\(&self\)[^{]*\{")
    s2, e2 = block_after(src[s:e], m[s:e], r"match\s+self\s*\{")
    handler = {}
    for pat, body in match_arms(src[s:e], m[s:e], s2, e2):
        mb = re.fullmatch(r"Box::new\(([A-Za-z]+)\)", body.strip())
        for p_ in pat.split("|"):
            handler[re.fullmatch(r"Dialect::([A-Za-z]+)", p_.strip()).group(1)] = mb.group(1)

    def style_of(s_, e_, where):
        hits = [x for x in re.finditer(r"\bfn\s+interval_quoting_style\s*\(", m[s_:e_])]
        if not hits:
            return None
        if len(hits) > 1:
            raise ExtractError("%s: interval_quoting_style defined twice" % where)
        bo = m.index("{", m.index(")", s_ + hits[0].start()))
        bc = match_brace(m, bo)
        body = re.sub(r"\s+", " ", m[bo + 1:bc]).strip()
        m1 = re.fullmatch(r"IntervalQuotingStyle::([A-Za-z]+)", body)
        if m1:
            return (m1.group(1), m1.group(1))
        m2 = re.fullmatch(r"if matches!\(dtf, DateTimeField::Week\(_\) \| DateTimeField::Weeks\) \{ IntervalQuotingStyle::([A-Za-z]+) \} else \{ IntervalQuotingStyle::([A-Za-z]+) \}", body)
        if m2:
            return (m2.group(1), m2.group(2))
        raise ExtractError("%s: body of interval_quoting_style is not a modelled shape: %r" % (where, body[:80]))
    s, e = block_after(src, m, r"trait\s+DialectHandler\b[^{]*\{")
    default = style_of(s, e, "trait DialectHandler")
    if default is None:
        raise ExtractError("trait DialectHandler has no interval_quoting_style")
    over = {}
    for mm in re.finditer(r"impl\s+DialectHandler\s+for\s+([A-Za-z]+)\s*\{", m):
        bo = mm.end() - 1
        over[mm.group(1)] = style_of(bo + 1, match_brace(m, bo), "impl DialectHandler for " + mm.group(1))
    # has_interval_literal: trait default + overrides (boolean literals)
    s, e = block_after(src, m, r"trait\s+DialectHandler\b[^{]*\{")
    hdef = bool_method(src, m, s, e, "has_interval_literal", "trait DialectHandler")
    if hdef is None:
        raise ExtractError("trait DialectHandler has no has_interval_literal")
    hover = {}
    for mm in re.finditer(r"impl\s+DialectHandler\s+for\s+([A-Za-z]+)\s*\{", m):
        bo = mm.end() - 1
        hover[mm.group(1)] = bool_method(src, m, bo + 1, match_brace(m, bo), "has_interval_literal", "impl DialectHandler for " + mm.group(1))
    out = []
    for v in variants:
        st = over.get(handler[v]) or default
        for x in st:
            if x not in ("NoQuotes", "ValueAndUnitQuoted", "ValueQuoted"):
                raise ExtractError("unknown IntervalQuotingStyle %s" % x)
        sup = hdef if hover.get(handler[v]) is None else hover[handler[v]]
        out.append((v.lower(), st[0], st[1], sup))
    return out


def reader_flags(names):
    """[(dialect name, backslash is an escape inside '...', \\% and \\_ keep their backslash)]: how the database side reads
    string literals, as stated by the pinned sqlparser's dialect objects (the compiled dependency answers for itself:
    harness c08_dialects = supports_string_literal_backslash_escape / ignores_wildcard_escapes).  Dependency data,
    not /repo source: it is the stand-in for the engines' documentation."""
    try:
        ans = harness("c08_dialects", [{}])[0]
    except Exception as ex:                                   # harness not buildable: fail closed
        raise ExtractError("harness c08_dialects failed: %s" % str(ex)[-200:])
    out = []
    for n in names:
        f = ans.get(n) if isinstance(ans, dict) else None
        if not isinstance(f, dict) or not isinstance(f.get("bs"), bool) or not isinstance(f.get("wild"), bool):
            raise ExtractError("sqlparser has no reading-side flags for dialect %s" % n)
        out.append((n, f["bs"], f["wild"]))
    return out


def extract():
    info = {}
    src = read(LEXER)
    m = mask(src)
    s, e = block_after(src, m, r"fn\s+parse_escape_sequence\b[^{]*\{")
    body, mbody = src[s:e], m[s:e]
    # outer: match input.peek() { Some(next_ch) => { input.next(); match next_ch { ARMS } } None => { '\\' } }
    mm = re.search(r"match\s+next_ch\s*\{", mbody)
    if not mm:
        raise ExtractError("parse_escape_sequence: `match next_ch` not found")
    s2, e2 = block_after(body, mbody, r"match\s+next_ch\s*\{")
    arms = match_arms(body, mbody, s2, e2)
    table = []
    rest = []
    for pat, b in arms:
        if re.fullmatch(r"'(\\.|[^'\\])'|'\\x[0-9a-fA-F]{2}'", pat.strip()) and not rest and re.fullmatch(r"'[^']*'|'\\''", b.strip()):
            if pat.strip() in ("'u'", "'x'"):
                raise ExtractError("parse_escape_sequence: u/x became simple arms")
            table.append((rust_char(pat), rust_char(b)))
        else:
            rest.append((norm(pat), norm(b)))
    if len(rest) != 4:
        raise ExtractError("parse_escape_sequence: expected 4 non-table arms (u{..}, x, quote, other), found %d: %s" % (len(rest), [p for p, _ in rest]))
    (pu, bu), (px, bx), (pq, bq), (po, bo) = rest
    if pu != "'u' if input.peek() == Some('{')":
        raise ExtractError("\\u arm guard changed: %s" % pu)
    want_u = ("{ input.next(); let mut hex = String::new(); while let Some(ch) = input.peek() { if ch == '}' { input.next(); break; } "
              "if ch.is_ascii_hexdigit() && hex.len() < 6 { hex.push(ch); input.next(); } else { break; } } "
              "char::from_u32(u32::from_str_radix(&hex, 16).unwrap_or(0)).unwrap_or('\\u{FFFD}') }")
    if bu != want_u:
        raise ExtractError("\\u{..} arm body is no longer the modelled one")
    want_x = ("{ let mut hex = String::new(); for _ in 0..2 { if let Some(ch) = input.peek() { if ch.is_ascii_hexdigit() { hex.push(ch); input.next(); } } } "
              "if hex.len() == 2 { char::from_u32(u32::from_str_radix(&hex, 16).unwrap_or(0)) .unwrap_or('\\u{FFFD}') } else { next_ch } }")
    if px != "'x'" or bx != want_x:
        raise ExtractError("\\x arm is no longer the modelled one")
    if pq != "c if c == quote_char" or bq != "quote_char":
        raise ExtractError("escaped-quote arm changed: %s => %s" % (pq, bq))
    if po != "other" or bo != "other":
        raise ExtractError("unknown-escape arm changed: %s => %s" % (po, bo))
    mn = re.search(r"None\s*=>\s*\{\s*'\\\\'\s*\}", norm(body))
    if not mn:
        raise ExtractError("parse_escape_sequence: backslash-at-end-of-input arm changed")
    keys = [k for k, _ in table]
    if len(set(keys)) != len(keys):
        raise ExtractError("duplicate escape table key")
    info["escape_table"] = table

    # multi_quoted_string: the content loop applies escapes only when `escaping && ch == '\\'`
    s, e = block_after(src, m, r"fn\s+multi_quoted_string\b[^{]*\{")
    mq = norm(src[s:e])
    for needle in ["if open_count % 2 == 0 { return Ok(vec![]); }",
                   "while close_count < open_count {",
                   "if close_count == open_count { return Ok(result); }",
                   "if escaping && ch == '\\\\' { let escaped = parse_escape_sequence(input, quote_char); result.push(escaped); } else { result.push(ch); }"]:
        if needle not in mq:
            raise ExtractError("multi_quoted_string no longer contains: %s" % needle)
    s, e = block_after(src, m, r"pub\s+fn\s+quoted_string\b[^{]*\{")
    if norm(src[s:e]) != "choice(( multi_quoted_string(&'\"', escaped), multi_quoted_string(&'\\'', escaped), )) .map(|chars| chars.into_iter().collect())":
        raise ExtractError("quoted_string changed")
    s, e = block_after(src, m, r"fn\s+string\b[^{]*\{")
    if norm(src[s:e]) != "quoted_string(true).map(Literal::String)":
        raise ExtractError("string() changed")
    s, e = block_after(src, m, r"fn\s+interpolation\b[^{]*\{")
    if not norm(src[s:e]).endswith('one_of("sf") .then(quoted_string(true)) .map(|(c, s)| TokenKind::Interpolation(c, s))'):
        raise ExtractError("interpolation() changed")
    s, e = block_after(src, m, r"fn\s+raw_string\b[^{]*\{")
    rs = norm(src[s:e])
    if "*c != '\\'' && *c != '\"' && *c != '\\n' && *c != '\\r'" not in rs or 'just("r")' not in rs or "Literal::RawString(s.to_string())" not in rs:
        raise ExtractError("raw_string() changed")

    # since fix d8fda67: lex_source / lex_source_recovery reject a token stream that contains a non-finite Float literal
    s, e = block_after(src, m, r"fn\s+non_finite_literals\b[^{]*\{")
    nf = norm(src[s:e])
    if not nf.startswith("tokens .iter() .filter(|t| matches!(&t.kind, TokenKind::Literal(Literal::Float(f)) if !f.is_finite())) .map(|t| {") or \
       '"number literal is out of range: its value is not a finite 64-bit float"' not in nf:
        raise ExtractError("non_finite_literals() is no longer the modelled one")
    for fn_, ret in (("lex_source_recovery", "return (None, errors);"), ("lex_source", "return Err(errors);")):
        s, e = block_after(src, m, r"pub\s+fn\s+%s\b[^{]*\{" % fn_)
        body_ = norm(src[s:e])
        if not re.search(r"Ok\(tokens\) => \{ let errors = non_finite_literals\(source, &tokens, (source_id|0)\); if !errors\.is_empty\(\) \{ %s \}" % re.escape(ret), body_):
            raise ExtractError("%s no longer rejects non-finite float literals" % fn_)

    # interval literals: <integer><unit>
    s, e = block_after(src, m, r"fn\s+value_and_unit\b[^{]*\{")
    vu = norm(src[s:e])
    # since fix 8948ad3: try_map; a count that does not fit i64 is not an interval literal (Model/Literal.v lex_interval)
    mu = re.fullmatch(r'let unit = choice\(\( ((?:just\("[a-z]+"\), )+)\)\); parse_integer\(\)\.then\(unit\)\.then_ignore\(end_expr\(\)\)\.try_map\( '
                      r'\|\(number_str, unit_str\): \(&str, &str\), span\| \{ let n = number_str \.replace\(\'_\', ""\) \.parse::<i64>\(\) \.map_err\(\|_\| Simple::new\(None, span\)\)\?; '
                      r'Ok\(Literal::ValueAndUnit\(ValueAndUnit \{ n, unit: unit_str\.to_string\(\), \}\)\) \}, \)', vu)
    if not mu:
        raise ExtractError("value_and_unit() is no longer the modelled one")
    info["interval_units"] = re.findall(r'just\("([a-z]+)"\)', mu.group(1))
    for a_ in info["interval_units"]:
        for b_ in info["interval_units"]:
            if a_ != b_ and b_.startswith(a_):
                raise ExtractError("interval unit %s is a prefix of %s: the order of the choice matters (not modelled)" % (a_, b_))

    # based numbers
    rows = []
    for name in ("binary_number", "hexadecimal_number", "octal_number"):
        s, e = block_after(src, m, r"fn\s+%s\b[^{]*\{" % name)
        mm = re.fullmatch(r'parse_number_with_base\("([^"]+)", (\d+), (\d+), \|c\| (.*)\)', norm(src[s:e]))
        if not mm:
            raise ExtractError("%s: not a parse_number_with_base call" % name)
        pred = mm.group(4)
        base = int(mm.group(2))
        okpred = {2: "*c == '0' || *c == '1'", 16: "c.is_ascii_hexdigit()", 8: "('0'..='7').contains(c)"}.get(base)
        if pred != okpred:
            raise ExtractError("%s: digit predicate %r does not match base %d" % (name, pred, base))
        rows.append((mm.group(1), base, int(mm.group(3))))
    s, e = block_after(src, m, r"fn\s+parse_number_with_base\b[^{]*\{")
    pb = norm(src[s:e])
    if pb != ('just(prefix) .then_ignore(just("_").or_not()) .ignore_then( any() .filter(valid_digit) .repeated() .at_least(1) .at_most(max_digits) .to_slice() '
              '.map(move |digits: &str| { i64::from_str_radix(digits, base) .map(Literal::Integer) .unwrap_or(Literal::Integer(0)) }), )'):
        raise ExtractError("parse_number_with_base body changed")
    info["based"] = rows
    s, e = block_after(src, m, r"pub\s+fn\s+literal\b[^{]*\{")
    order = re.findall(r"(\w+)\(\)", norm(src[s:e]))
    if order != ["binary_number", "hexadecimal_number", "octal_number", "string", "raw_string", "value_and_unit", "number", "boolean", "null"]:
        raise ExtractError("literal(): order of alternatives changed: %s" % order)
    s, e = block_after(src, m, r"fn\s+number\b[^{]*\{")
    nb = norm(src[s:e])
    for needle in [".filter(|&c| c != '_')", "if let Ok(i) = num_str.parse::<i64>() { Literal::Integer(i) } else if let Ok(f) = num_str.parse::<f64>() { Literal::Float(f) } else { Literal::Integer(0)",
                   "let frac = just('.') .then(fraction_digits)", 'let exp = one_of("eE") .then(exp_digits)', 'one_of("+-") .or_not()']:
        if needle not in nb:
            raise ExtractError("number() no longer contains: %s" % needle)
    s, e = block_after(src, m, r"fn\s+boolean\b[^{]*\{")
    if norm(src[s:e]) != 'choice((just("true").to(true), just("false").to(false))) .then_ignore(end_expr()) .map(Literal::Boolean)':
        raise ExtractError("boolean() changed")
    s, e = block_after(src, m, r"fn\s+end_expr\b[^{]*\{")
    if norm(src[s:e]) != 'choice(( end(), one_of(",)]}\\t >").to(()), newline(), just("..").to(()), )) .rewind()':
        raise ExtractError("end_expr() changed")

    # translate_literal
    g = read(GENEXPR)
    mg = mask(g)
    # translate_literal begins with the verification hook `literal` (commit f5c0fad): a cfg(prqlc_verif) block that, behind a
    # thread-local re-entrancy flag, runs the function once more on a clone, logs the literal received, the two dialect answers
    # consulted and the SQL text returned, and returns that result.  The rest of the body is the modelled function.
    # A tree without the hook fails closed here: the correspondence stream `literal-hook` depends on it.
    s, e = block_after(g, mg, r"fn\s+translate_literal\b[^{]*\{")
    mh = re.match(r"\s*#\[cfg\(prqlc_verif\)\]\s*if\s+!verif_literal::ACTIVE\.with\(\|a\| a\.replace\(true\)\)\s*\{", mg[s:e])
    if not mh:
        raise ExtractError("translate_literal does not begin with the verification hook `literal` (hooks/literal.diff not applied, or changed)")
    ho = s + mh.end() - 1
    hc = match_brace(mg, ho)
    want_hook = ('let verif_in = l.clone(); let res = translate_literal(l, ctx); verif_literal::ACTIVE.with(|a| a.set(false)); log::debug!( "verif:literal {}", '
                 'serde_json::json!({ "lit": verif_in, "f64_bits": match &verif_in { Literal::Float(f) => Some(format!("{:016x}", f.to_bits())), _ => None, }, '
                 '"sqlite": ctx.dialect.is::<crate::sql::dialect::SQLiteDialect>(), "bs": ctx.dialect.string_literal_backslash_escape(), '
                 '"out": res.as_ref().ok().map(|e| e.to_string()), }) ); return res;')
    if norm(g[ho + 1:hc]) != want_hook:
        raise ExtractError("the body of the verification hook `literal` in translate_literal changed")
    if not re.search(r"#\[cfg\(prqlc_verif\)\]\s*mod verif_literal \{\s*thread_local! \{\s*pub static ACTIVE: std::cell::Cell<bool> = const \{ std::cell::Cell::new\(false\) \};\s*\}\s*\}", g):
        raise ExtractError("module verif_literal (re-entrancy flag of the hook) changed")
    info["hook_literal"] = True
    s = hc + 1
    if not re.fullmatch(r"\s*Ok\(match\s+l\s*\{.*\}\)\s*", mg[s:e], re.S):
        raise ExtractError("translate_literal (after the hook) is no longer a single `Ok(match l { ... })`")
    inner_span = (s, e)
    s2, e2 = block_after(g[s:e], mg[s:e], r"Ok\(match\s+l\s*\{")
    arms = dict((norm(p), norm(b)) for p, b in match_arms(g[s:e], mg[s:e], s2, e2))
    want = {
        "Literal::Null": "sql_ast::Expr::Value(Value::Null.into())",
        # since fix e3af91e: every quote doubled before sqlparser's Display; since fix d2c1667: on a dialect whose handler
        # answers string_literal_backslash_escape() every backslash is doubled first (Model/Escape.v emit_literal_string)
        "Literal::String(s) | Literal::RawString(s)": ("{ let s = if ctx.dialect.string_literal_backslash_escape() { s.replace('\\\\', \"\\\\\\\\\") } else { s }; "
                                                       "let s = s.replace('\\'', \"''\"); sql_ast::Expr::Value(Value::SingleQuotedString(s).into()) }"),
        "Literal::Boolean(b)": "sql_ast::Expr::Value(Value::Boolean(b).into())",
        # since fix 1ae3488: a non-finite float is a compile error (Model/FloatFmt.v emit_float_rust = None)
        "Literal::Float(f)": ('{ if !f.is_finite() { return Err(Error::new_simple( "float literal is out of range: its value is not a finite 64-bit float", )); } '
                              'sql_ast::Expr::Value(Value::Number(format!("{f:?}"), false).into()) }'),
        "Literal::Integer(i)": 'sql_ast::Expr::Value(Value::Number(format!("{i}"), false).into())',
        "Literal::Date(value)": "translate_datetime_literal(sql_ast::DataType::Date, value, ctx)",
    }
    for k, v in want.items():
        if arms.get(k) != v:
            raise ExtractError("translate_literal arm %s is no longer the modelled one: %r" % (k, arms.get(k)))
    for k in ("Literal::Time(value)", "Literal::Timestamp(value)", "Literal::ValueAndUnit(vau)"):
        if k not in arms:
            raise ExtractError("translate_literal arm %s missing" % k)
    vau = arms["Literal::ValueAndUnit(vau)"]
    mv_ = re.fullmatch(r'\{ let sql_parser_datetime = match vau\.unit\.as_str\(\) \{ ((?:"[a-z]+" => DateTimeField::[A-Za-z]+(?:\(None\))?, )+)'
                       r'_ => \{ return Err\(Error::new_simple\(format!\( "Unsupported interval unit: \{\}", vau\.unit \)\)\) \} \}; (.*) \}', vau)
    if not mv_:
        raise ExtractError("translate_literal: the interval arm no longer starts with the unit -> DateTimeField table")
    fields = re.findall(r'"([a-z]+)" => DateTimeField::([A-Za-z]+)(\(None\))?, ', mv_.group(1))
    # sqlparser's Display of these DateTimeField variants is the upper-cased variant name (Week(None): WEEK) -- dependency
    # behaviour, validated by the hook stream; variants with another Display (Custom, Week(Some)) are not in the table
    info["interval_fields"] = [(u, v.upper(), v == "Week") for u, v, _ in fields]
    if any((v == "Week") != bool(p_) for _, v, p_ in fields):
        raise ExtractError("translate_literal: DateTimeField payloads changed")
    sk = ("sql_ast::Expr::Interval(sqlparser::ast::Interval { value, leading_field: %s, leading_precision: None, last_field: None, fractional_seconds_precision: None, })")
    want_styles = ('match ctx.dialect.interval_quoting_style(&sql_parser_datetime) { '
                   'IntervalQuotingStyle::ValueAndUnitQuoted => { let value = Box::new(sql_ast::Expr::Value( Value::SingleQuotedString(format!("{} {}", vau.n, sql_parser_datetime)) .into(), )); ' + sk % "None" + ' } '
                   'IntervalQuotingStyle::NoQuotes => { let value = Box::new(translate_literal(Literal::Integer(vau.n), ctx)?); ' + sk % "Some(sql_parser_datetime)" + ' } '
                   'IntervalQuotingStyle::ValueQuoted => { let value = Box::new(sql_ast::Expr::Value( Value::SingleQuotedString(vau.n.to_string()).into(), )); ' + sk % "Some(sql_parser_datetime)" + ' } }')
    # since fix 19e2c2a: a dialect without INTERVAL literals (handler.has_interval_literal() = false) is a compile error
    want_guard = ('if !ctx.dialect.has_interval_literal() { return Err(Error::new_simple(format!( "interval literals are not supported for dialect {}", ctx.dialect_enum ))); } ')
    if not mv_.group(2).startswith(want_guard):
        raise ExtractError("translate_literal: the has_interval_literal guard of the interval arm is missing or changed")
    if mv_.group(2)[len(want_guard):] != want_styles:
        raise ExtractError("translate_literal: the three interval quoting styles are no longer the modelled ones")
    if len(arms) != 9:
        raise ExtractError("translate_literal: %d arms (expected 9)" % len(arms))
    if "sql_ast::DataType::Time(None, sql_ast::TimezoneInfo::None)" not in arms["Literal::Time(value)"] or \
       "sql_ast::DataType::Timestamp(None, sql_ast::TimezoneInfo::None)" not in arms["Literal::Timestamp(value)"]:
        raise ExtractError("translate_literal: time/timestamp data types changed")
    s, e = block_after(g, mg, r"fn\s+translate_datetime_literal\s*\([^{]*\{")
    if norm(g[s:e]) != ("if ctx.dialect.is::<crate::sql::dialect::SQLiteDialect>() { translate_datetime_literal_with_sqlite_function(data_type, value) } "
                        "else { translate_datetime_literal_with_typed_string(data_type, value) }"):
        raise ExtractError("translate_datetime_literal changed")
    s, e = block_after(g, mg, r"fn\s+translate_datetime_literal_with_sqlite_function\b[^{]*\{")
    sf = norm(g[s:e])
    for needle in ['Regex::new(r"([+-]\\d{2}):?(\\d{2})$")', 'format!("{}:{}", &groups[1], &groups[2])', "Value::SingleQuotedString(time_value).into()",
                   'sql_ast::DataType::Timestamp(..) => "DATETIME".to_string()', "sql_ast::DataType::Date => data_type.to_string()"]:
        if needle not in sf:
            raise ExtractError("sqlite datetime function no longer contains: %s" % needle)
    s, e = block_after(g, mg, r"fn\s+translate_datetime_literal_with_typed_string\b[^{]*\{")
    if "value: sqlparser::ast::Value::SingleQuotedString(value).into()" not in norm(g[s:e]):
        raise ExtractError("typed-string datetime literal changed")

    # which dialects get their backslashes doubled, and how each dialect's reading side treats a backslash
    info["writer_bs"] = extract_backslash_flags()
    uses = [f for f in ("gen_expr.rs", "gen_query.rs", "gen_projection.rs", "operators.rs", "mod.rs")
            if re.search(r"\b%s\b" % BS_FLAG, mask(read("prqlc/prqlc/src/sql/" + f)))]
    # two mentions in gen_expr.rs: the modelled use in translate_literal_inner and the read-only one in the hook
    if uses != ["gen_expr.rs"] or len(re.findall(r"\b%s\b" % BS_FLAG, mg)) != 2 or len(re.findall(r"\b%s\b" % BS_FLAG, mg[inner_span[0]:inner_span[1]])) != 1:
        raise ExtractError("%s is consulted somewhere else than once in translate_literal: %s" % (BS_FLAG, uses))
    info["reader"] = reader_flags([n for n, _ in info["writer_bs"]])
    info["interval_styles"] = extract_interval_styles()

    # the documented escape table (the specification side)
    doc = read("web/book/src/reference/syntax/strings.md")
    md = re.search(r"\| Escape Sequence \| Meaning\s*\|\n\|[- |]+\|\n((?:\|.*\|\n)+)", doc)
    if not md:
        raise ExtractError("strings.md: escape sequence table not found")
    meaning = {"Backslash (\\)": 92, "Single quote (')": 39, 'Double quote (")': 34, "Backspace": 8, "Formfeed": 12,
               "ASCII Linefeed (LF)": 10, "ASCII Carriage Return (CR)": 13, "ASCII Horizontal Tab (TAB)": 9}
    documented = []
    shapes = []
    for line in md.group(1).strip().split("\n"):
        cells = [c.strip() for c in line.strip().strip("|").split("|")]
        if len(cells) != 2:
            raise ExtractError("strings.md: bad table row %r" % line)
        seq = cells[0].strip("`")
        if seq in ("\\xhh", "\\u{xxxx}"):
            shapes.append(seq)
            continue
        if not (len(seq) == 2 and seq[0] == "\\") or cells[1] not in meaning:
            raise ExtractError("strings.md: unknown escape row %r" % line)
        documented.append((ord(seq[1]), meaning[cells[1]]))
    if shapes != ["\\xhh", "\\u{xxxx}"]:
        raise ExtractError("strings.md: \\xhh / \\u{xxxx} rows missing")
    # escaped quotes are handled by the quote / other arms (identity), not by the table
    info["documented"] = [(k, v) for k, v in documented if k not in (39, 34)]
    if sorted(k for k, v in documented if k in (39, 34)) != [34, 39] or any(k != v for k, v in documented if k in (39, 34)):
        raise ExtractError("strings.md: escaped quote rows changed")

    # the pinned dependency whose Display is modelled by Model/Escape.v
    lock = read("Cargo.lock")
    mv = re.search(r'name = "sqlparser"\nversion = "([^"]+)"', lock)
    if not mv:
        raise ExtractError("sqlparser not in Cargo.lock")
    info["sqlparser"] = mv.group(1)
    return info


def codes(s):
    return "[" + ";".join(str(ord(c)) for c in s) + "]"


def generate():
    try:
        info = extract()
    except ExtractError as ex:
        gen_write("GenLiteral", "(* EXTRACTION FAILED: %s *)\nDefinition gen_literal_extraction_failed := tt.\n" % str(ex).replace("*)", "* )"))
        return {"error": str(ex)}
    v = "(* generated from /repo on every run by vplib/props/c08_gen.py -- do not edit *)\n"
    v += "From Coq Require Import List NArith.\nImport ListNotations.\nLocal Open Scope N_scope.\n\n"
    v += "(* parse_escape_sequence: simple arms  (character after the backslash, character produced) *)\n"
    v += "Definition escape_table : list (N * N) :=\n  [ " + ";\n    ".join("(%d, %d)" % kv for kv in info["escape_table"]) + " ].\n\n"
    v += "(* web/book/src/reference/syntax/strings.md, table Escape sequences (single-character rows, quotes excluded) *)\n"
    v += "Definition documented_escapes : list (N * N) :=\n  [ " + ";\n    ".join("(%d, %d)" % kv for kv in info["documented"]) + " ].\n\n"
    v += "(* parse_number_with_base: (prefix, base, max digits) in the order literal() tries them *)\n"
    v += "Definition based_rows : list (list N * N * nat) :=\n  [ " + ";\n    ".join("(%s, %d, %d%%nat)" % (codes(p), b, n) for p, b, n in info["based"]) + " ].\n\n"
    v += "(* sqlparser version pinned by /repo/Cargo.lock: (major, minor, patch) *)\n"
    ver = [int(x) for x in re.findall(r"\d+", info["sqlparser"])[:3]]
    v += "Definition sqlparser_version : N * N * N := (%d, %d, %d).\n\n" % tuple(ver)
    b = lambda x: "true" if x else "false"
    v += "(* sql/dialect.rs: Dialect -> handler() -> string_literal_backslash_escape(): translate_literal doubles the backslashes *)\n"
    v += "Definition writer_backslash_doubling : list (list N * bool) :=\n  [ " + ";\n    ".join("(%s, %s) (* %s *)" % (codes(n), b(w), n) for n, w in info["writer_bs"]) + " ].\n\n"
    v += "(* the pinned sqlparser's dialect objects: (name, (backslash escapes inside '...', \\% \\_ keep the backslash)) *)\n"
    v += "Definition reader_backslash_escape : list (list N * (bool * bool)) :=\n  [ " + ";\n    ".join("(%s, (%s, %s)) (* %s *)" % (codes(n), b(x), b(y), n) for n, x, y in info["reader"]) + " ].\n"
    v += "\n(* lexer value_and_unit: the unit names, in the order of the choice *)\n"
    v += "Definition interval_unit_names : list (list N) :=\n  [ " + ";\n    ".join("%s (* %s *)" % (codes(u), u) for u in info["interval_units"]) + " ].\n\n"
    v += "(* translate_literal: unit -> (sqlparser DateTimeField as printed, is it the week field) *)\n"
    v += "Definition interval_fields : list (list N * (list N * bool)) :=\n  [ " + ";\n    ".join("(%s, (%s, %s)) (* %s -> %s *)" % (codes(u), codes(f), b(w), u, f) for u, f, w in info["interval_fields"]) + " ].\n\n"
    sty = {"NoQuotes": "INoQuotes", "ValueAndUnitQuoted": "IValueAndUnitQuoted", "ValueQuoted": "IValueQuoted"}
    v += "(* sql/dialect.rs interval_quoting_style per dialect: (style for weeks, style for the other units) *)\n"
    v += "Definition interval_styles : list (list N * (istyle * istyle)) :=\n  [ " + ";\n    ".join("(%s, (%s, %s)) (* %s *)" % (codes(n), sty[a_], sty[b_], n) for n, a_, b_, _ in info["interval_styles"]) + " ].\n\n"
    v += "(* sql/dialect.rs has_interval_literal per dialect: false = an interval literal is a compile error *)\n"
    v += "Definition interval_supported : list (list N * bool) :=\n  [ " + ";\n    ".join("(%s, %s) (* %s *)" % (codes(n), b(s_), n) for n, _, _, s_ in info["interval_styles"]) + " ].\n"
    v = v.replace("From Coq Require Import List NArith.\n", "From Coq Require Import List NArith.\nFrom PV Require Import Model.Interval.\n", 1)
    gen_write("GenLiteral", v)
    return info

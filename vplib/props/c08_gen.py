"""GenLiteral.v (Tie A for C08): the table-shaped facts of literal handling, read from /repo on every run:
  * the escape table of prqlc-parser/src/lexer/mod.rs parse_escape_sequence (simple `'x' => 'y'` arms)
    and the fixed shape of the remaining arms (\\u{...}, \\xHH, escaped quote, unknown escape);
  * the (prefix, base, max digits) rows of parse_number_with_base and the order of literal()'s choice;
  * the shape of sql/gen_expr.rs translate_literal for strings / booleans / integers / floats.
Fails closed: anything unexpected -> stub file, so Props/C08.v stops compiling."""
import re

from ..common import gen_write
from ..rustscan import ExtractError, read, mask, block_after, match_arms

LEXER = "prqlc/prqlc-parser/src/lexer/mod.rs"
GENEXPR = "prqlc/prqlc/src/sql/gen_expr.rs"


def rust_char(lit):
    """value (code point) of a Rust char literal, quotes included"""
    lit = lit.strip()
    if len(lit) < 3 or lit[0] != "'" or lit[-1] != "'":
        raise ExtractError("not a char literal: %r" % lit)
    b = lit[1:-1]
    simple = {"\\\\": 92, "\\n": 10, "\\r": 13, "\\t": 9, "\\'": 39, '\\"': 34, "\\0": 0}
    if b in simple:
        return simple[b]
    m = re.fullmatch(r"\\x([0-9a-fA-F]{2})", b)
    if m:
        return int(m.group(1), 16)
    m = re.fullmatch(r"\\u\{([0-9a-fA-F]{1,6})\}", b)
    if m:
        return int(m.group(1), 16)
    if len(b) == 1 and b != "\\":
        return ord(b)
    raise ExtractError("unsupported char literal: %r" % lit)


def norm(t):
    return re.sub(r"\s+", " ", re.sub(r"//[^\n]*", "", t)).strip()


def extract():
    info = {}
    src = read(LEXER)
    m = mask(src)
    s, e = block_after(src, m, r"fn\s+parse_escape_sequence\b[^{]*\{")
    body, mbody = src[s:e], m[s:e]
    # outer: match input.peek() { Some(next_ch) => { input.next(); match next_ch { ARMS } } None => { '\\' } }
    mm = re.search(r"match\s+next_ch\s*\{", mbody)
    if not mm:
        raise ExtractError("parse_escape_sequence: `match next_ch` not found")
    s2, e2 = block_after(body, mbody, r"match\s+next_ch\s*\{")
    arms = match_arms(body, mbody, s2, e2)
    table = []
    rest = []
    for pat, b in arms:
        if re.fullmatch(r"'(\\.|[^'\\])'|'\\x[0-9a-fA-F]{2}'", pat.strip()) and not rest and re.fullmatch(r"'[^']*'|'\\''", b.strip()):
            if pat.strip() in ("'u'", "'x'"):
                raise ExtractError("parse_escape_sequence: u/x became simple arms")
            table.append((rust_char(pat), rust_char(b)))
        else:
            rest.append((norm(pat), norm(b)))
    if len(rest) != 4:
        raise ExtractError("parse_escape_sequence: expected 4 non-table arms (u{..}, x, quote, other), found %d: %s" % (len(rest), [p for p, _ in rest]))
    (pu, bu), (px, bx), (pq, bq), (po, bo) = rest
    if pu != "'u' if input.peek() == Some('{')":
        raise ExtractError("\\u arm guard changed: %s" % pu)
    want_u = ("{ input.next(); let mut hex = String::new(); while let Some(ch) = input.peek() { if ch == '}' { input.next(); break; } "
              "if ch.is_ascii_hexdigit() && hex.len() < 6 { hex.push(ch); input.next(); } else { break; } } "
              "char::from_u32(u32::from_str_radix(&hex, 16).unwrap_or(0)).unwrap_or('\\u{FFFD}') }")
    if bu != want_u:
        raise ExtractError("\\u{..} arm body is no longer the modelled one")
    want_x = ("{ let mut hex = String::new(); for _ in 0..2 { if let Some(ch) = input.peek() { if ch.is_ascii_hexdigit() { hex.push(ch); input.next(); } } } "
              "if hex.len() == 2 { char::from_u32(u32::from_str_radix(&hex, 16).unwrap_or(0)) .unwrap_or('\\u{FFFD}') } else { next_ch } }")
    if px != "'x'" or bx != want_x:
        raise ExtractError("\\x arm is no longer the modelled one")
    if pq != "c if c == quote_char" or bq != "quote_char":
        raise ExtractError("escaped-quote arm changed: %s => %s" % (pq, bq))
    if po != "other" or bo != "other":
        raise ExtractError("unknown-escape arm changed: %s => %s" % (po, bo))
    mn = re.search(r"None\s*=>\s*\{\s*'\\\\'\s*\}", norm(body))
    if not mn:
        raise ExtractError("parse_escape_sequence: backslash-at-end-of-input arm changed")
    keys = [k for k, _ in table]
    if len(set(keys)) != len(keys):
        raise ExtractError("duplicate escape table key")
    info["escape_table"] = table

    # multi_quoted_string: the content loop applies escapes only when `escaping && ch == '\\'`
    s, e = block_after(src, m, r"fn\s+multi_quoted_string\b[^{]*\{")
    mq = norm(src[s:e])
    for needle in ["if open_count % 2 == 0 { return Ok(vec![]); }",
                   "while close_count < open_count {",
                   "if close_count == open_count { return Ok(result); }",
                   "if escaping && ch == '\\\\' { let escaped = parse_escape_sequence(input, quote_char); result.push(escaped); } else { result.push(ch); }"]:
        if needle not in mq:
            raise ExtractError("multi_quoted_string no longer contains: %s" % needle)
    s, e = block_after(src, m, r"pub\s+fn\s+quoted_string\b[^{]*\{")
    if norm(src[s:e]) != "choice(( multi_quoted_string(&'\"', escaped), multi_quoted_string(&'\\'', escaped), )) .map(|chars| chars.into_iter().collect())":
        raise ExtractError("quoted_string changed")
    s, e = block_after(src, m, r"fn\s+string\b[^{]*\{")
    if norm(src[s:e]) != "quoted_string(true).map(Literal::String)":
        raise ExtractError("string() changed")
    s, e = block_after(src, m, r"fn\s+interpolation\b[^{]*\{")
    if not norm(src[s:e]).endswith('one_of("sf") .then(quoted_string(true)) .map(|(c, s)| TokenKind::Interpolation(c, s))'):
        raise ExtractError("interpolation() changed")
    s, e = block_after(src, m, r"fn\s+raw_string\b[^{]*\{")
    rs = norm(src[s:e])
    if "*c != '\\'' && *c != '\"' && *c != '\\n' && *c != '\\r'" not in rs or 'just("r")' not in rs or "Literal::RawString(s.to_string())" not in rs:
        raise ExtractError("raw_string() changed")

    # based numbers
    rows = []
    for name in ("binary_number", "hexadecimal_number", "octal_number"):
        s, e = block_after(src, m, r"fn\s+%s\b[^{]*\{" % name)
        mm = re.fullmatch(r'parse_number_with_base\("([^"]+)", (\d+), (\d+), \|c\| (.*)\)', norm(src[s:e]))
        if not mm:
            raise ExtractError("%s: not a parse_number_with_base call" % name)
        pred = mm.group(4)
        base = int(mm.group(2))
        okpred = {2: "*c == '0' || *c == '1'", 16: "c.is_ascii_hexdigit()", 8: "('0'..='7').contains(c)"}.get(base)
        if pred != okpred:
            raise ExtractError("%s: digit predicate %r does not match base %d" % (name, pred, base))
        rows.append((mm.group(1), base, int(mm.group(3))))
    s, e = block_after(src, m, r"fn\s+parse_number_with_base\b[^{]*\{")
    pb = norm(src[s:e])
    if pb != ('just(prefix) .then_ignore(just("_").or_not()) .ignore_then( any() .filter(valid_digit) .repeated() .at_least(1) .at_most(max_digits) .to_slice() '
              '.map(move |digits: &str| { i64::from_str_radix(digits, base) .map(Literal::Integer) .unwrap_or(Literal::Integer(0)) }), )'):
        raise ExtractError("parse_number_with_base body changed")
    info["based"] = rows
    s, e = block_after(src, m, r"pub\s+fn\s+literal\b[^{]*\{")
    order = re.findall(r"(\w+)\(\)", norm(src[s:e]))
    if order != ["binary_number", "hexadecimal_number", "octal_number", "string", "raw_string", "value_and_unit", "number", "boolean", "null"]:
        raise ExtractError("literal(): order of alternatives changed: %s" % order)
    s, e = block_after(src, m, r"fn\s+number\b[^{]*\{")
    nb = norm(src[s:e])
    for needle in [".filter(|&c| c != '_')", "if let Ok(i) = num_str.parse::<i64>() { Literal::Integer(i) } else if let Ok(f) = num_str.parse::<f64>() { Literal::Float(f) } else { Literal::Integer(0)",
                   "let frac = just('.') .then(fraction_digits)", 'let exp = one_of("eE") .then(exp_digits)', 'one_of("+-") .or_not()']:
        if needle not in nb:
            raise ExtractError("number() no longer contains: %s" % needle)
    s, e = block_after(src, m, r"fn\s+boolean\b[^{]*\{")
    if norm(src[s:e]) != 'choice((just("true").to(true), just("false").to(false))) .then_ignore(end_expr()) .map(Literal::Boolean)':
        raise ExtractError("boolean() changed")
    s, e = block_after(src, m, r"fn\s+end_expr\b[^{]*\{")
    if norm(src[s:e]) != 'choice(( end(), one_of(",)]}\\t >").to(()), newline(), just("..").to(()), )) .rewind()':
        raise ExtractError("end_expr() changed")

    # translate_literal
    g = read(GENEXPR)
    mg = mask(g)
    s, e = block_after(g, mg, r"fn\s+translate_literal\b[^{]*\{")
    s2, e2 = block_after(g[s:e], mg[s:e], r"Ok\(match\s+l\s*\{")
    arms = dict((norm(p), norm(b)) for p, b in match_arms(g[s:e], mg[s:e], s2, e2))
    want = {
        "Literal::Null": "sql_ast::Expr::Value(Value::Null.into())",
        # since fix e3af91e: every quote doubled before sqlparser's Display (Model/Escape.v emit_literal_string)
        "Literal::String(s) | Literal::RawString(s)": "{ sql_ast::Expr::Value(Value::SingleQuotedString(s.replace('\\'', \"''\")).into()) }",
        "Literal::Boolean(b)": "sql_ast::Expr::Value(Value::Boolean(b).into())",
        "Literal::Float(f)": 'sql_ast::Expr::Value(Value::Number(format!("{f:?}"), false).into())',
        "Literal::Integer(i)": 'sql_ast::Expr::Value(Value::Number(format!("{i}"), false).into())',
        "Literal::Date(value)": "translate_datetime_literal(sql_ast::DataType::Date, value, ctx)",
    }
    for k, v in want.items():
        if arms.get(k) != v:
            raise ExtractError("translate_literal arm %s is no longer the modelled one: %r" % (k, arms.get(k)))
    for k in ("Literal::Time(value)", "Literal::Timestamp(value)", "Literal::ValueAndUnit(vau)"):
        if k not in arms:
            raise ExtractError("translate_literal arm %s missing" % k)
    if len(arms) != 9:
        raise ExtractError("translate_literal: %d arms (expected 9)" % len(arms))
    if "sql_ast::DataType::Time(None, sql_ast::TimezoneInfo::None)" not in arms["Literal::Time(value)"] or \
       "sql_ast::DataType::Timestamp(None, sql_ast::TimezoneInfo::None)" not in arms["Literal::Timestamp(value)"]:
        raise ExtractError("translate_literal: time/timestamp data types changed")
    s, e = block_after(g, mg, r"fn\s+translate_datetime_literal\s*\([^{]*\{")
    if norm(g[s:e]) != ("if ctx.dialect.is::<crate::sql::dialect::SQLiteDialect>() { translate_datetime_literal_with_sqlite_function(data_type, value) } "
                        "else { translate_datetime_literal_with_typed_string(data_type, value) }"):
        raise ExtractError("translate_datetime_literal changed")
    s, e = block_after(g, mg, r"fn\s+translate_datetime_literal_with_sqlite_function\b[^{]*\{")
    sf = norm(g[s:e])
    for needle in ['Regex::new(r"([+-]\\d{2}):?(\\d{2})$")', 'format!("{}:{}", &groups[1], &groups[2])', "Value::SingleQuotedString(time_value).into()",
                   'sql_ast::DataType::Timestamp(..) => "DATETIME".to_string()', "sql_ast::DataType::Date => data_type.to_string()"]:
        if needle not in sf:
            raise ExtractError("sqlite datetime function no longer contains: %s" % needle)
    s, e = block_after(g, mg, r"fn\s+translate_datetime_literal_with_typed_string\b[^{]*\{")
    if "value: sqlparser::ast::Value::SingleQuotedString(value).into()" not in norm(g[s:e]):
        raise ExtractError("typed-string datetime literal changed")

    # the documented escape table (the specification side)
    doc = read("web/book/src/reference/syntax/strings.md")
    md = re.search(r"\| Escape Sequence \| Meaning\s*\|\n\|[- |]+\|\n((?:\|.*\|\n)+)", doc)
    if not md:
        raise ExtractError("strings.md: escape sequence table not found")
    meaning = {"Backslash (\\)": 92, "Single quote (')": 39, 'Double quote (")': 34, "Backspace": 8, "Formfeed": 12,
               "ASCII Linefeed (LF)": 10, "ASCII Carriage Return (CR)": 13, "ASCII Horizontal Tab (TAB)": 9}
    documented = []
    shapes = []
    for line in md.group(1).strip().split("\n"):
        cells = [c.strip() for c in line.strip().strip("|").split("|")]
        if len(cells) != 2:
            raise ExtractError("strings.md: bad table row %r" % line)
        seq = cells[0].strip("`")
        if seq in ("\\xhh", "\\u{xxxx}"):
            shapes.append(seq)
            continue
        if not (len(seq) == 2 and seq[0] == "\\") or cells[1] not in meaning:
            raise ExtractError("strings.md: unknown escape row %r" % line)
        documented.append((ord(seq[1]), meaning[cells[1]]))
    if shapes != ["\\xhh", "\\u{xxxx}"]:
        raise ExtractError("strings.md: \\xhh / \\u{xxxx} rows missing")
    # escaped quotes are handled by the quote / other arms (identity), not by the table
    info["documented"] = [(k, v) for k, v in documented if k not in (39, 34)]
    if sorted(k for k, v in documented if k in (39, 34)) != [34, 39] or any(k != v for k, v in documented if k in (39, 34)):
        raise ExtractError("strings.md: escaped quote rows changed")

    # the pinned dependency whose Display is modelled by Model/Escape.v
    lock = read("Cargo.lock")
    mv = re.search(r'name = "sqlparser"\nversion = "([^"]+)"', lock)
    if not mv:
        raise ExtractError("sqlparser not in Cargo.lock")
    info["sqlparser"] = mv.group(1)
    return info


def codes(s):
    return "[" + ";".join(str(ord(c)) for c in s) + "]"


def generate():
    try:
        info = extract()
    except ExtractError as ex:
        gen_write("GenLiteral", "(* EXTRACTION FAILED: %s *)\nDefinition gen_literal_extraction_failed := tt.\n" % str(ex).replace("*)", "* )"))
        return {"error": str(ex)}
    v = "(* generated from /repo on every run by vplib/props/c08_gen.py -- do not edit *)\n"
    v += "From Coq Require Import List NArith.\nImport ListNotations.\nLocal Open Scope N_scope.\n\n"
    v += "(* parse_escape_sequence: simple arms  (character after the backslash, character produced) *)\n"
    v += "Definition escape_table : list (N * N) :=\n  [ " + ";\n    ".join("(%d, %d)" % kv for kv in info["escape_table"]) + " ].\n\n"
    v += "(* web/book/src/reference/syntax/strings.md, table Escape sequences (single-character rows, quotes excluded) *)\n"
    v += "Definition documented_escapes : list (N * N) :=\n  [ " + ";\n    ".join("(%d, %d)" % kv for kv in info["documented"]) + " ].\n\n"
    v += "(* parse_number_with_base: (prefix, base, max digits) in the order literal() tries them *)\n"
    v += "Definition based_rows : list (list N * N * nat) :=\n  [ " + ";\n    ".join("(%s, %d, %d%%nat)" % (codes(p), b, n) for p, b, n in info["based"]) + " ].\n\n"
    v += "(* sqlparser version pinned by /repo/Cargo.lock: (major, minor, patch) *)\n"
    ver = [int(x) for x in re.findall(r"\d+", info["sqlparser"])[:3]]
    v += "Definition sqlparser_version : N * N * N := (%d, %d, %d).\n" % tuple(ver)
    gen_write("GenLiteral", v)
    return info

"""C01, tie for Model/SplitOff.v: every real call of split_off_back (hook verif:split_off_back, /repo commit 3aa4f6d) vs the model
run in Coq on the logged pipeline and output columns, with the split table translated from the source (Gen/GenSplit.v) plugged in:
length of the remaining pipeline, the `missing` Select appended to it, the kinds of the atomic pipeline and its Select list."""
import json

from ..common import coq_eval, harness

HEADER = ("From Coq Require Import List Bool Arith.\nFrom PV Require Import Model.SplitBase Gen.GenSplit Model.SplitOff.\nImport ListNotations.\n")
NAME_OF_KIND = {"KFrom": "From", "KJoin": "Join", "KCompute": "Compute", "KComputeAgg": "Compute", "KAggregate": "Aggregate", "KFilter": "Filter",
                "KSort": "Sort", "KTake": "Take", "KTakeSorted": "Take", "KSelect": "Select", "KDistinct": "Distinct", "KDistinctOn": "DistinctOn",
                "KUnion": "Union", "KExcept": "Except", "KIntersect": "Intersect", "KLoop": "Loop"}


def nl(xs):
    return "[" + "; ".join("%d%%nat" % x for x in xs) + "]"


def cex(e):
    if isinstance(e, str):
        return "XLeaf"
    if "col" in e:
        return "(XCol %d%%nat)" % e["col"]
    for k, c in (("case", "XCase"), ("op", "XOp"), ("array", "XArr"), ("sstring", "XSStr")):
        if k in e:
            return "(%s [%s])" % (c, "; ".join(cex(x) for x in e[k]))
    raise ValueError("expression node not understood: %r" % (e,))


def ccompute(c):
    w = c["window"]
    win = "None" if w is None else "(Some (mkWin %s %s))" % (nl(w["partition"]), nl(w["sort"]))
    return "(mkCompute %d%%nat %s %s %s)" % (c["id"], "true" if c["is_aggregation"] else "false", cex(c["expr"]), win)


def ctr(t):
    k = t["kind"]
    if k == "From":
        return "TFrom %s" % nl(t["rel"]["cols"] if t.get("rel") else [])
    if k == "Join":
        return "TJoin %s %s" % (nl(t["rel"]["cols"] if t.get("rel") else []), cex(t["expr"]))
    if k == "Compute":
        return "TCompute %s" % ccompute(t["compute"])
    if k == "Aggregate":
        return "TAggregate %s %s [%s]" % (nl(t["partition"]), nl(t["cids"]), "; ".join("None" if d is None else "(Some %s)" % ccompute(d) for d in t["decls"]))
    if k == "Filter":
        return "TFilter %s" % cex(t["expr"])
    if k == "Sort":
        return "TSort %s %s" % ("true" if t["super"] else "false", nl(t["cids"]))
    if k == "Take":
        return "TTake [%s] %s %s" % ("; ".join(cex(x) for x in t["range"]), nl(t["partition"]), nl(t["cids"]))
    if k == "Select":
        return "TSelect %s" % nl(t["cids"])
    if k == "DistinctOn":
        return "TDistinctOn %s" % nl(t["cids"])
    if k in ("Distinct", "Union", "Except", "Intersect", "Loop"):
        return "T" + k
    raise ValueError("transform kind not modelled: %s" % k)


# shapes that exercise the requirement paths (complexities asked by filters in front of / behind an aggregate, group keys,
# window partitions and sorts, join conditions, take ranges and sorts, DISTINCT ON)
DIRECTED = [
    "from t | derive {x = case [a > 1 => b, true => c]} | filter x > 0 | aggregate {n = count x}",
    "from t | derive {x = case [a > 1 => b, true => c]} | filter x > 0 | group {g} (aggregate {n = sum x})",
    "from t | derive {x = case [a > 1 => b, true => c]} | group {x} (aggregate {n = count b})",
    "from t | derive {x = a + 1} | group {x} (aggregate {n = count b}) | filter n > 1 | derive {y = n * 2} | filter y > 2",
    "from t | derive {w = sum b} | filter w > 1 | select {a, w}",
    "from t | derive {w = sum b} | derive {v = w + 1} | sort {v} | take 2",
    "from t | derive {r = row_number this} | filter r < 3 | aggregate {n = count r}",
    "from t | group {g} (sort {id} | derive {r = row_number this}) | filter r == 1 | group {a} (aggregate {m = max r})",
    "from t | derive {x = a + b} | join u (x == u.id) | select {t.a, u.d, x}",
    "from t | derive {x = case [a > 1 => b, true => c]} | join u (x == u.id) | filter u.d > 0 | select {t.a, x}",
    "from t | derive {k = a * 2} | sort {k, id} | take 2..3 | derive {z = k + 1} | filter z > 0",
    "from t | group {g} (sort {-b} | take 1) | derive {x = a + 1} | filter x > 1",
    "from t | aggregate {s = sum b, n = count a} | derive {q = s / n} | filter q > 1",
    "from t | derive {x = a + 1} | aggregate {s = sum x} | derive {y = s + 1}",
    "from t | select {a, b} | group {a, b} (take 1) | derive {n = count this} | filter n < 3 | select {a, b}",
    "from t | derive {c2 = case [a > 1 => 1, true => 0]} | sort {c2, id} | take 3 | group {c2} (aggregate {n = count id})",
    "from t | filter a > 0 | derive {x = b + 1} | filter x > 1 | derive {y = x * 2} | filter y > 2 | aggregate {m = max y} | filter m > 3",
    # a stop at an Aggregate (on dialects with DISTINCT ON its Sort asks for the aggregate's column at Plain complexity)
    "from t | group {a} (aggregate {s = sum b}) | group {a} (sort {s} | take 1)",
    "from t | group {a, g} (aggregate {s = sum b, n = count c}) | group {a} (sort {-s, n} | take 1) | filter s > 0",
    "from t | select {a, b} | group {a} (aggregate {m = max b}) | group {m} (sort {a} | take 1)",
    # a Sort in front of a set operation: its key is SELECTed into the top operand (C07-N12, the anchor's half)
    "from t | sort b | select {a} | append (from u | select {a})",
    "from t | sort {b, id} | take 3 | select {a} | append (from u | select {a})",
    "from t | window rolling:2 (derive {w = sum b}) | derive {x = case [w > 1 => a, true => b]} | filter x > 0 | group {g} (aggregate {n = count x})",
]


def splitoff_stream(ck, srcs, targets=("sql.sqlite", "sql.postgres")):
    srcs = list(dict.fromkeys(DIRECTED + list(srcs)))
    reqs = [{"src": s, "target": t, "want": [], "msg_prefix": "verif:split_off_back"} for s in srcs for t in targets]
    ans = harness("log", reqs)
    exprs, meta, index = [], [], {}
    seen_hook, ok_compiles = False, 0
    for rq, a in zip(reqs, ans):
        if "ok" in a:
            ok_compiles += 1
        for e in a.get("entries", []):
            m = e.get("Message") or ""
            if not m.startswith("verif:split_off_back "):
                continue
            seen_hook = True
            d = json.loads(m[21:])
            try:
                p = "[" + "; ".join(ctr(t) for t in d["in"]["pipeline"]) + "]"
            except ValueError as ex:
                ck.stat("splitoff", "unmodelled:" + str(ex)[:40])
                continue
            ex = ("(let r := split_off_back split_required records %s %s in "
                  "(res_remaining_len r, res_missing r, (map kind_of (res_atomic r), res_select r), res_why r))" % (p, nl(d["in"]["output"])))
            if ex not in index:
                index[ex] = len(exprs)
                exprs.append(ex)
            meta.append((rq, d, index[ex]))
    if ok_compiles and not seen_hook:
        ck.violation("no verif:split_off_back line in any of %d successful compiles: the hook of split_off_back is missing" % ok_compiles,
                     {"kind": "splitoff-hook-missing"}, no_input=True)
        return
    vals = coq_eval(HEADER, exprs) if exprs else []
    agree = 0
    ck.coverage["splitoff_distinct_inputs"] = len(exprs)
    for rq, d, ix in meta:
        v = vals[ix]
        rem, missing, (kinds, select), why = v
        key = json.dumps([d["in"]["pipeline"], d["in"]["output"]], sort_keys=True)
        ck.count("splitoff", key)
        rem = rem[1] if isinstance(rem, tuple) else None
        why = why[1] if isinstance(why, tuple) else None
        ck.stat("splitoff", "stop:%s" % (why or "whole-pipeline"))
        problems = []
        if rem != d["remaining_len"]:
            problems.append("length of the remaining pipeline (%s vs %s)" % (rem, d["remaining_len"]))
        if d["remaining_len"] is not None:
            got_missing = d["missing"][0].get("cids") if d["missing"] and d["missing"][0]["kind"] == "Select" else None
            if list(missing) != got_missing:
                problems.append("missing columns")
        if [NAME_OF_KIND[k] for k in kinds] != [t["kind"] for t in d["atomic"]]:
            problems.append("kinds of the atomic pipeline")
        sel = next((t["cids"] for t in d["atomic"] if t["kind"] == "Select"), None)
        if list(select) != sel:
            problems.append("Select of the atomic pipeline")
        # with the hook patch hooks/split-off-back-setop-rel.diff the bottom operand of a set operation is logged: its width
        # against the width of the Select the atomic pipeline gets (c01_setop_operand_width_refuted: C07-N12, the anchor's half)
        for t in d["atomic"]:
            if t["kind"] in ("Union", "Except", "Intersect") and isinstance(t.get("rel"), dict) and sel is not None:
                ck.stat("splitoff", "setop-operand-width-%s" % ("equal" if len(t["rel"]["cols"]) == len(sel) else "DIFFERS"))
        if problems:
            ck.disagreement("split_off_back differs from Model/SplitOff.v (%s) on %s [%s]" % ("; ".join(problems), rq["src"].replace("\n", " | ")[:200], rq["target"]),
                            {"src": rq["src"], "target": rq["target"], "in": d["in"], "model": str(v)[:500],
                             "impl": {"remaining_len": d["remaining_len"], "missing": d["missing"], "atomic": [t["kind"] for t in d["atomic"]], "select": sel}}, lambda _c: None)
        else:
            agree += 1
    ck.coverage["splitoff_calls"] = len(meta)
    ck.coverage["splitoff_agree"] = agree

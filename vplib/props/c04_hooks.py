"""C04 hook correspondences: what the back end's own functions read and return (log lines `verif:<name> {json}`,
compiled in under cfg prqlc_verif) against the Coq models.

  reorder        sql/pq/preprocess.rs reorder (hook verif:preprocess, pass "reorder")  vs  Model/WinReorder.v reorder
                 -- on EVERY compile of the end-to-end streams (the programs are collected by c04_e2e.run_stream)."""
import json

from ..common import coq_eval, harness

HEADER = ("From Coq Require Import List NArith Bool.\nFrom PV Require Import Lib.ListX Model.WindowFns Model.WinReorder.\n"
          "Import ListNotations.\nLocal Open Scope N_scope.\n")
PRE = "verif:preprocess "
CX_CODE = {"Plain": 10, "NonGroup": 11, "Windowed": 12, "Aggregation": 13}


# every arm of should_swap, every complexity, both loop bounds
REORDER_DIRECTED = [
    "from t | sort id | take 3 | derive {y = b + 1}",                                  # Plain crosses Take and Sort
    "from t | sort id | take 3 | derive {y = b + 1, z = a * 2}",                       # two Plain: the second stops at the first
    "from t | sort id | take 3 | derive {x = sum b}",                                  # Windowed stays behind Take
    "from t | sort id | take 2..4 | derive {r = row_number this}",
    "from t | sort id | take 3 | sort {-id} | derive {x = sum b}",                     # ... but crosses the Sort behind it
    "from t | sort id | take 3 | derive {k = case [a > 1 => 1, true => 0]}",           # NonGroup stays behind Take
    "from t | sort id | take 3 | derive {x = sum b} | derive {y = b + 1}",             # Plain behind a Compute: stays
    "from t | filter a > 1 | derive {y = b + 1}",                                      # nothing crosses a Filter
    "from t | filter a > 1 | derive {x = sum b}",
    "from t | sort id | filter a > 1 | sort b | derive {y = b + 1}",
    "from t | join u (==id) | derive {y = t.b + 1}",                                   # ... or a Join
    "from t | join u (==id) | sort t.id | derive {x = sum t.b}",
    "from t | aggregate {s = sum b} | derive {y = s + 1}",                             # ... or an Aggregate
    "from t | group g (aggregate {s = sum b}) | sort g | derive {y = s + 1}",
    "from t | group g (aggregate {s = sum b}) | sort g | take 2 | derive {c = count s}",
    "from t | take 3 | derive {y = b + 1}",                                            # position 1: never swapped with position 0
    "from t | derive {y = b + 1} | take 3",
    "from t | sort id | derive {y = b + 1}",
    "from t | sort id | take 5 | take 2 | derive {y = b + 1}",                         # two Takes
    "from t | sort id | take 5 | sort b | take 2 | derive {y = b + 1, x = sum b}",
    "from t | select {id, b} | sort id | take 3 | derive {y = b + 1}",                 # a Select in between stops it
    "from t | sort id | take 3 | append u | derive {y = b + 1}",
    "from t | group g (sort id | take 2) | derive {y = b + 1}",                        # take inside group = filter on ROW_NUMBER
    "from t | group {a, b} (take 1) | sort a | derive {y = b + 1}",                    # Distinct
    "from t | sort id | take 3 | loop (filter id < 5 | select {id = id + 1, a, b, c, g}) | derive {y = b + 1}",
]


def kind_code(t):
    """the abstraction of Model/WinReorder.v rkind_of_code; also checks infer_complexity against what it reads"""
    if "super" in t:
        s = t["super"]
        k = s["kind"]
        if k == "Compute":
            c = s["compute"]
            cx = c["complexity"]
            if cx not in CX_CODE:
                raise ValueError("unknown complexity %r" % cx)
            return CX_CODE[cx]
        return {"Sort": 2, "Take": 3}.get(k, 4)
    return {"From": 0, "Join": 1}.get(t["kind"], 4)


def complexity_consistent(c):
    """anchor.rs infer_complexity: window.is_some() => Windowed, else is_aggregation => Aggregation, else by expression"""
    cx = c["complexity"]
    if c["window"] is not None:
        return cx == "Windowed"
    if c["is_aggregation"]:
        return cx == "Aggregation"
    return cx in ("Plain", "NonGroup")


HOOKS = ("verif:preprocess ", "verif:split_off_back ", "verif:lowerer_op ")


def collect_all(pairs, chunk=1500):
    """compile every (src, target) once with logging on; returns ({hook prefix: [(src, target, json, compiled_ok)]}, n_compiles, n_ok)"""
    out = {h: [] for h in HOOKS}
    n_ok = 0
    for i in range(0, len(pairs), chunk):
        part = pairs[i:i + chunk]
        reqs = [{"src": s, "target": t, "want": [], "msg_prefix": "verif:"} for s, t in part]
        for rq, a in zip(reqs, harness("log", reqs)):
            ok = "ok" in a
            n_ok += ok
            for e in a.get("entries", []):
                m = e.get("Message") or ""
                for h in HOOKS:
                    if m.startswith(h):
                        if h == "verif:preprocess " and '"pass":"reorder"' not in m:
                            break
                        out[h].append((rq["src"], rq["target"], json.loads(m[len(h):]), ok))
                        break
    return out, len(pairs), n_ok


def collect(pairs):
    """run the compiles [(src, target)] with the preprocess hook on; returns (events, n_compiles, n_ok) -- events: list of (src, target, pass-json, ok)"""
    reqs = [{"src": s, "target": t, "want": [], "msg_prefix": PRE.strip()} for s, t in pairs]
    ans = harness("log", reqs)
    out = []
    for rq, a in zip(reqs, ans):
        for e in a.get("entries", []):
            m = e.get("Message")
            if m and m.startswith(PRE):
                out.append((rq["src"], rq["target"], json.loads(m[len(PRE):]), "ok" in a))
    return out, len(reqs), sum(1 for a in ans if "ok" in a)


def run_reorder(ck, srcs, one_target_srcs=(), targets=("sql.sqlite", "sql.generic"), events=None):
    """srcs are compiled for every target, one_target_srcs (the exhaustive correspondence programs, whose pipelines
    differ in frame arguments only) for the first"""
    if events is None:
        pairs = [(s, t) for s in dict.fromkeys(srcs) for t in targets] + [(s, targets[0]) for s in dict.fromkeys(one_target_srcs)]
        events, n_comp, n_ok = collect(pairs)
    else:
        events, n_comp, n_ok = events
    calls = [(s, t, e) for s, t, e, _ in events if e.get("pass") == "reorder"]
    ck.coverage["reorder_hook"] = {"compiles": n_comp, "compiled_ok": n_ok, "reorder_calls": len(calls)}
    if n_ok and not calls:
        # fail closed: a tree without the hook (or a harness built without cfg prqlc_verif) ties nothing
        ck.violation("hook verif:preprocess (pass reorder) produced no event on %d successful compiles: the model of reorder is not tied to the code" % n_ok,
                     {"kind": "hook-missing", "hook": "verif:preprocess"}, no_input=True)
        return
    # distinct abstract pipelines -> model
    by_codes = {}
    for s, t, e in calls:
        pin, pout = e["in"]["pipeline"], e["out"]["pipeline"]
        codes = tuple(kind_code(x) for x in pin)
        by_codes.setdefault(codes, []).append((s, t, pin, pout))
        for x in pin:
            if "super" in x and x["super"]["kind"] == "Compute" and not complexity_consistent(x["super"]["compute"]):
                ck.stat("reorder-corr", "disagreement:complexity")
                ck.disagreement("infer_complexity of a Compute is not what anchor.rs is modelled to say: %s" % json.dumps(x)[:300],
                                {"src": s, "compute": x}, lambda _c: None)
    keys = sorted(by_codes)
    exprs = ["(reorder_tags model_reorder_policy [%s])" % "; ".join(str(c) for c in k) for k in keys]
    try:
        mv = coq_eval(HEADER, exprs)
    except RuntimeError:
        mv = coq_eval(HEADER, exprs, shards=4)
    for k, perm in zip(keys, mv):
        moved_model = list(perm) != list(range(len(k)))
        for s, t, pin, pout in by_codes[k]:
            ck.count("reorder-corr", json.dumps([s, t, len(pin)]))
            want = [pin[i] for i in perm]
            ck.stat("reorder-corr", "moved" if moved_model else "unchanged")
            ck.stat("reorder-corr", "len:%d" % min(len(pin), 12))
            for i, j in enumerate(perm):
                if i != j and k[j] >= 10:
                    ck.stat("reorder-corr", "compute-moved:%s" % {10: "Plain", 11: "NonGroup", 12: "Windowed", 13: "Aggregation"}[k[j]])
                    crossed = sorted(set(k[x] for x in perm[i + 1:] if x < j))
                    for c in crossed:
                        ck.stat("reorder-corr", "crossed:%s" % {0: "From", 1: "Join", 2: "Sort", 3: "Take", 4: "Other"}.get(c, "Compute"))
            if want != pout:
                ck.stat("reorder-corr", "disagreement:order")
                ck.disagreement("preprocess.rs reorder differs from Model/WinReorder.v: %s [%s]: kinds %r, model order %r, implementation %s" % (
                    s.replace("\n", " | ")[:300], t, list(k), list(perm), json.dumps([pin.index(x) if x in pin else None for x in pout])),
                    {"src": s, "target": t, "codes": list(k), "model_order": list(perm), "impl_out": pout}, lambda _c: None)
    ck.coverage["reorder_hook"].update({"distinct_abstract_pipelines": len(keys), "moved": sum(1 for k, p in zip(keys, mv) if list(p) != list(range(len(k))))})


# ------------------------------------------------------------------ split_off_back: the complexity half, for windowed computes
SOB = "verif:split_off_back "
HEADER_SOB = ("From Coq Require Import List NArith Bool.\nFrom PV Require Import Lib.ListX Model.WindowFns Model.SplitBase Model.WinAtomic Gen.GenSplit.\n"
              "Import ListNotations.\nLocal Open Scope N_scope.\n")
KIND_CODE = {"From": 0, "Join": 1, "Filter": 2, "Aggregate": 3, "Sort": 6, "Select": 9, "Loop": 10, "Distinct": 11, "DistinctOn": 12,
             "Union": 13, "Except": 14, "Intersect": 15}


def expr_cids(e):
    if isinstance(e, dict):
        if "col" in e:
            return [e["col"]]
        out = []
        for v in e.values():
            out += expr_cids(v)
        return out
    if isinstance(e, list):
        out = []
        for x in e:
            out += expr_cids(x)
        return out
    return []


def expr_cx(e):
    """anchor.rs infer_complexity_expr: Case => NonGroup; Operator / Array => max over the children; everything else Plain"""
    if isinstance(e, dict):
        if "case" in e:
            return 1
        if "op" in e:
            return max([expr_cx(x) for x in e["op"]] or [0])
        if "array" in e:
            return max([expr_cx(x) for x in e["array"]] or [0])
    return 0


def compute_cx(c):
    if c.get("window") is not None:
        return 2
    if c.get("is_aggregation"):
        return 3
    return expr_cx(c["expr"])


def sob_item(t):
    """(kind, super, cx, id, uses, wuses, agg) of Model/WinAtomic.v titem_of; None = a transform this abstraction does not know"""
    k = t["kind"]
    sup = bool(t.get("super"))
    if k == "Compute" and sup:
        c = t["compute"]
        w = c.get("window")
        return (5 if c.get("is_aggregation") else 4, sup, compute_cx(c), c["id"], expr_cids(c["expr"]), (w["partition"] + w["sort"]) if w else [], [])
    if k == "Aggregate" and sup:
        return (3, sup, 0, 0, list(t["partition"]), [], [(d["id"], compute_cx(d)) for d in t.get("decls", []) if d])
    if k == "Filter" and sup:
        return (2, sup, 0, 0, expr_cids(t["expr"]), [], [])
    if k == "Sort":
        return (6, sup, 0, 0, list(t["cids"]), [], [])
    if k == "Take" and sup:
        return (8 if t["cids"] else 7, sup, 0, 0, expr_cids(t["range"]), list(t["cids"]), [])
    if k == "DistinctOn":
        return (12, sup, 0, 0, list(t["cids"]), [], [])
    if k == "Join" and not sup:
        return (1, sup, 0, 0, expr_cids(t["expr"]), [], [])
    if k in KIND_CODE and (k in ("Select", "Loop", "Filter", "Aggregate") or not sup):
        return (KIND_CODE[k], sup, 0, 0, [], [], [])
    return None


def coq_item(it):
    k, sup, cx, i, u, w, g = it
    lst = lambda xs: "[" + "; ".join(str(x) for x in xs) + "]"
    return "(%d, %s, %d, %d, %s, %s, [%s])" % (k, "true" if sup else "false", cx, i, lst(u), lst(w), "; ".join("(%d, %d)" % p for p in g))


def is_windowed(it):
    return it is not None and it[0] == 4 and it[2] == 2


def run_split(ck, srcs, targets=("sql.sqlite",), events=None):
    """every call of split_off_back during the compiles: does the model of the complexity walk stop where the
    implementation stopped?  Judged for the calls in which a windowed Compute is kept, is the stopping point, or lies
    between the two stopping points; the others are counted (they belong to the owner of the whole walk)"""
    if events is None:
        reqs = [{"src": s, "target": t, "want": [], "msg_prefix": SOB.strip()} for s in dict.fromkeys(srcs) for t in targets]
        ans = harness("log", reqs)
        events = []
        n_ok = 0
        for rq, a in zip(reqs, ans):
            n_ok += "ok" in a
            for e in a.get("entries", []):
                m = e.get("Message")
                if m and m.startswith(SOB):
                    events.append((rq["src"], rq["target"], json.loads(m[len(SOB):])))
        n_comp = len(reqs)
    else:
        evs, n_comp, n_ok = events
        events = [(s, t, e) for s, t, e, _ in evs]
    ck.coverage["split_hook"] = {"compiles": n_comp, "compiled_ok": n_ok, "split_off_back_calls": len(events)}
    if n_ok and not events:
        ck.violation("hook verif:split_off_back produced no event on %d successful compiles: the model of the complexity walk is not tied to the code" % n_ok,
                     {"kind": "hook-missing", "hook": "verif:split_off_back"}, no_input=True)
        return
    cases = {}
    for s, t, e in events:
        pipe = e["in"]["pipeline"]
        items = [sob_item(x) for x in pipe]
        if any(i is None for i in items):
            ck.stat("split-corr", "skipped:unknown-transform")
            continue
        L = e.get("remaining_len")
        kept_impl = len(pipe) if L is None else len(pipe) - (L - 1)
        key = (tuple(coq_item(i) for i in items), tuple(e["in"]["output"]))
        cases.setdefault(key, []).append((s, t, items, kept_impl))
    keys = sorted(cases)
    TB = "(model_req_tables split_required records)"
    exprs = ["(kept %s (wstate0 %s [%s]) (map titem_of (rev [%s])))" % (TB, TB, "; ".join(str(c) for c in out), "; ".join(its)) for its, out in keys]
    try:
        try:
            mv = coq_eval(HEADER_SOB, exprs)
        except RuntimeError:
            mv = coq_eval(HEADER_SOB, exprs, shards=4)
    except RuntimeError as ex:
        # Gen/GenSplit.v is a stub (its translator failed closed): the walk has no is_split_required to run with
        ck.violation("the split_off_back correspondence could not be evaluated (is_split_required was not translated): %s" % str(ex)[-300:],
                     {"kind": "model-unavailable", "hook": "verif:split_off_back"}, no_input=True)
        return
    other = []
    for key, kept_model in zip(keys, mv):
        for s, t, items, kept_impl in cases[key]:
            n = len(items)
            ck.count("split-corr", json.dumps([s, t, n, kept_impl]))
            kept_items = items[n - kept_impl:]
            stop_impl = items[n - kept_impl - 1] if kept_impl < n else None
            if any(is_windowed(i) for i in kept_items):
                ck.stat("split-corr", "windowed-kept")
                later = [i[0] for i in kept_items[max(j for j, i in enumerate(kept_items) if is_windowed(i)) + 1:]]
                for k in sorted(set(later)):
                    ck.stat("split-corr", "behind-kept-window:%s" % {2: "Filter", 3: "Aggregate", 4: "Compute", 5: "ComputeAgg", 6: "Sort", 7: "Take", 8: "Take", 9: "Select", 11: "Distinct", 12: "DistinctOn"}.get(k, str(k)))
            if is_windowed(stop_impl):
                ck.stat("split-corr", "windowed-stop")
            if kept_model == kept_impl:
                ck.stat("split-corr", "agree")
                continue
            lo, hi = sorted((kept_model, kept_impl))
            between = items[n - hi - 1:n - lo] if hi < n else items[:n - lo]
            if any(is_windowed(i) for i in between):
                ck.stat("split-corr", "disagreement:windowed")
                ck.disagreement("split_off_back keeps %d transforms in the SELECT, the model of its complexity walk %d, and a windowed column definition lies between: %s [%s]" % (
                    kept_impl, kept_model, s.replace("\n", " | ")[:300], t), {"src": s, "target": t, "items": [coq_item(i) for i in items], "kept_impl": kept_impl, "kept_model": kept_model}, lambda _c: None)
            else:
                ck.stat("split-corr", "other-disagreement")
                if len(other) < 5:
                    other.append({"src": s, "target": t, "kept_impl": kept_impl, "kept_model": kept_model})
    ck.coverage["split_hook"].update({"distinct_abstract_calls": len(keys), "other_disagreements_sample": other})


# ------------------------------------------------------------------ lowering.rs: which window a column is handed
HEADER_LOW = ("From Coq Require Import List NArith Bool.\nFrom PV Require Import Model.WinLower.\nImport ListNotations.\nLocal Open Scope N_scope.\n")


def run_lowerer(ck, events):
    """per compile: the trace of the Lowerer's window field (hook verif:lowerer_op: window_set / window_take / window_reset,
    and every new Compute with its needs_window and its window) replayed by Model/WinLower.v lreplay; and the
    SPECIFICATION that a column which needs a window is handed one (false for sort keys / partition columns: F51)"""
    evs, n_comp, n_ok = events
    per = {}
    for s, t, e, ok in evs:
        per.setdefault((s, t), []).append(e)
    n_ops = sum(len(v) for v in per.values())
    has_set = any(e.get("op") == "window_set" for v in per.values() for e in v)
    ck.coverage["lowerer_hook"] = {"compiles": n_comp, "compiled_ok": n_ok, "traces": len(per), "ops": n_ops}
    if n_ok and not has_set:
        # fail closed: a tree without the lowerer-window hook (/repo 435d73d) ties nothing
        ck.violation("hook verif:lowerer_op logs no `window_set` operation on %d successful compiles (the lowerer-window hook is not in the tree): "
                     "the model of the Lowerer's window field is not tied to the code" % n_ok, {"kind": "hook-missing", "hook": "verif:lowerer_op window_set"}, no_input=True)
        return
    traces = {}
    for (s, t), ops in per.items():
        toks, seq, keypos, cur_set = {}, [], [], False
        for e in ops:
            op, d = e.get("op"), e.get("d") or {}
            if op == "window_set":
                w = json.dumps(d["window"], sort_keys=True)
                seq.append((0, toks.setdefault(w, len(toks) + 1), False, ()))
                cur_set = True
            elif op == "window_take":
                seq.append((1, 0, False, ()))
                cur_set = False
            elif op == "window_reset":
                seq.append((2, 0, False, ()))
                cur_set = False
            elif op == "declare" and d.get("how") == "new":
                c = d["compute"]
                w = c.get("window")
                got = () if w is None else (toks.get(json.dumps(w, sort_keys=True), 0),)
                needs = bool(d.get("needs_window"))
                seq.append((3, 0, needs, got))
                if needs and w is None and not c.get("is_aggregation"):
                    keypos.append(not cur_set)
        traces.setdefault(tuple(seq), []).append((s, t, keypos))
    keys = sorted(traces, key=repr)
    exprs = ["(lreplay None (map lop_of [%s]))" % "; ".join("(%d, %d, %s, [%s])" % (k, w, "true" if n else "false", "; ".join(str(x) for x in g)) for k, w, n, g in seq) for seq in keys]
    try:
        mv = coq_eval(HEADER_LOW, exprs)
    except RuntimeError:
        mv = coq_eval(HEADER_LOW, exprs, shards=4)
    for seq, okm in zip(keys, mv):
        for s, t, keypos in traces[seq]:
            ck.count("lower-corr", json.dumps([s, t]))
            ck.stat("lower-corr", "declares:%d" % min(sum(1 for x in seq if x[0] == 3), 9))
            ck.stat("lower-corr", "windowed:%d" % min(sum(1 for x in seq if x[0] == 3 and x[3]), 5))
            if not okm:
                ck.stat("lower-corr", "disagreement:replay")
                ck.disagreement("a Compute carries a window other than the one declare_as_column is modelled to hand it (Model/WinLower.v): %s [%s]" % (s.replace("\n", " | ")[:300], t),
                                {"src": s, "target": t, "trace": [list(x) for x in seq]}, lambda _c: None)
            for kp in keypos:
                # SPECIFICATION: a column that needs a window gets the window of its transform call
                got = ck.disagreement("a column that needs a window is lowered without one (%s): %s [%s]" % ("it is a sort key / partition column of the transform call: lowered before the call's window is set" if kp else "no window is current", s.replace("\n", " | ")[:300], t),
                                      {"src": s, "target": t, "key_position": kp}, lambda c: "F51-window-fn-as-sort-key" if c["key_position"] else None)
                ck.stat("lower-corr", "needs-window-got-none:" + (got or "UNEXPLAINED"))
    ck.coverage["lowerer_hook"]["distinct_traces"] = len(keys)

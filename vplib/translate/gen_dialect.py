"""GenDialect.v: the Dialect variant list / names / default, Target::from_str constants and the
dialect-selection shape of compile_query, read from /repo on every run (Tie A)."""
import re

from ..common import gen_write
from ..rustscan import ExtractError, enum_variants, read, mask, block_after


def codes(s):
    return "[" + ";".join(str(ord(c)) for c in s) + "]"


def extract():
    info = {}
    src = read("prqlc/prqlc/src/sql/dialect.rs")
    m = re.search(r"#\[strum\(serialize_all\s*=\s*\"(\w+)\"\)\]\s*pub enum Dialect\b", src)
    if not m:
        raise ExtractError("Dialect enum: strum serialize_all attribute not found")
    if m.group(1) != "lowercase":
        raise ExtractError("Dialect names are no longer serialize_all=lowercase: %s" % m.group(1))
    vs = enum_variants("prqlc/prqlc/src/sql/dialect.rs", "Dialect")
    for v, attrs in vs:
        if "strum(" in attrs and "serialize" in attrs:
            raise ExtractError("per-variant strum serialize attribute on %s: not modelled" % v)
    info["variants"] = [v for v, _ in vs]
    info["names"] = [v.lower() for v, _ in vs]
    d = [i for i, (v, a) in enumerate(vs) if "#[default]" in a]
    if len(d) != 1:
        raise ExtractError("Dialect: expected exactly one #[default] variant")
    info["default"] = d[0]

    lib = read("prqlc/prqlc/src/lib.rs")
    ml = mask(lib)
    s, e = block_after(lib, ml, r"impl\s+FromStr\s+for\s+Target\b")
    body = lib[s:e]
    mp = re.search(r"strip_prefix\(\"([^\"]*)\"\)", body)
    ma = re.search(r"if\s+dialect\s*==\s*\"([^\"]*)\"\s*\{\s*return\s+Ok\(Target::Sql\(None\)\)", body)
    mf = re.search(r"if\s+let\s+Ok\(dialect\)\s*=\s*sql::Dialect::from_str\(dialect\)\s*\{\s*return\s+Ok\(Target::Sql\(Some\(dialect\)\)\)", body)
    me = re.search(r"\}\s*Err\(Error::new\(Reason::NotFound", body)
    if not (mp and ma and mf and me) or not (mp.start() < ma.start() < mf.start() < me.start()):
        raise ExtractError("Target::from_str no longer has the modelled shape (strip_prefix / any / Dialect::from_str / Err)")
    info["prefix"] = mp.group(1)
    info["any"] = ma.group(1)

    gq = read("prqlc/prqlc/src/sql/pq/gen_query.rs")
    mg = mask(gq)
    s, e = block_after(gq, mg, r"fn\s+compile_query\s*\(")  # params
    s, e = block_after(gq, mg, r"fn\s+compile_query\s*\([^{]*\{")
    body = re.sub(r"\s+", " ", gq[s:e])
    shape = re.search(
        r"let dialect = if let Some\(dialect\) = dialect \{ dialect \} else \{ let target = query\.def\.other\.get\(\"([^\"]*)\"\); "
        r"let Target::Sql\(maybe_dialect\) = target \.map\(\|s\| Target::from_str\(s\)\) \.transpose\(\)\? \.unwrap_or_default\(\); "
        r"maybe_dialect\.unwrap_or_default\(\) \};", body)
    if not shape:
        raise ExtractError("compile_query: dialect selection no longer has the modelled shape")
    info["key"] = shape.group(1)

    sq = read("prqlc/prqlc/src/sql/mod.rs")
    if not re.search(r"let crate::Target::Sql\(dialect\) = options\.target;\s*let sql_ast = gen_query::translate_query\(query, dialect\)\?;", sq):
        raise ExtractError("sql::compile no longer passes options.target's dialect to translate_query unchanged")

    tdef = re.search(r"impl Default for Target \{\s*fn default\(\) -> Self \{\s*Self::Sql\(None\)", lib)
    if not tdef:
        raise ExtractError("Target::default is no longer Sql(None)")

    # header parser: which key of `prql ...` header lands in def.other
    st = read("prqlc/prqlc-parser/src/parser/stmt.rs")
    mk = re.search(r"args\s*\.remove\(\"([^\"]*)\"\)\s*\.and_then\(\|v\| \{\s*if let ExprKind::Ident\(name\) = v\.kind \{\s*Some\(name\.to_string\(\)\)", st)
    mi = re.search(r"HashMap::from_iter\(vec!\[\(\"([^\"]*)\"\.to_string\(\), x\)\]\)", st)
    if not (mk and mi):
        raise ExtractError("query_def: header target extraction no longer has the modelled shape")
    info["header_key_in"] = mk.group(1)
    info["header_key_out"] = mi.group(1)

    # inventory: who reads QueryDef.other
    import os
    from ..common import REPO
    readers = []
    for base in ("prqlc/prqlc/src", "prqlc/prqlc-parser/src"):
        for dp, dn, fn in os.walk(os.path.join(REPO, base)):
            for f in sorted(fn):
                if f.endswith(".rs"):
                    rel = os.path.relpath(os.path.join(dp, f), REPO)
                    t = mask(open(os.path.join(dp, f), encoding="utf-8").read())
                    if re.search(r"\.other\b", t):
                        readers.append(rel)
    info["other_readers"] = sorted(readers)
    return info


def generate():
    try:
        info = extract()
    except ExtractError as ex:
        gen_write("GenDialect", "(* EXTRACTION FAILED: %s *)\nDefinition gen_dialect_extraction_failed := tt.\n" % str(ex).replace("*)", "* )"))
        return {"error": str(ex)}
    v = "(* generated from /repo on every run by vplib/translate/gen_dialect.py -- do not edit *)\n"
    v += "From Coq Require Import List NArith.\nImport ListNotations.\nLocal Open Scope N_scope.\n\n"
    v += "Definition dialect_names : list (list N) :=\n  [ " + ";\n    ".join("%s (* %s *)" % (codes(n), n) for n in info["names"]) + " ].\n\n"
    v += "Definition default_index : nat := %d.\n" % info["default"]
    v += "Definition target_prefix : list N := %s. (* %s *)\n" % (codes(info["prefix"]), info["prefix"])
    v += "Definition target_any : list N := %s. (* %s *)\n" % (codes(info["any"]), info["any"])
    v += "Definition select_key : list N := %s. (* key read by compile_query *)\n" % codes(info["key"])
    v += "Definition header_key_in : list N := %s. (* header argument read by the parser *)\n" % codes(info["header_key_in"])
    v += "Definition header_key_out : list N := %s. (* key it is stored under *)\n" % codes(info["header_key_out"])
    v += "Definition other_readers : list (list N) :=\n  [ " + ";\n    ".join("%s (* %s *)" % (codes(n), n) for n in info["other_readers"]) + " ].\n"
    gen_write("GenDialect", v)
    return info

"""GenKeywords.v (Tie A for C09): the keyword sets and the valid_ident regex that decide whether prqlc emits an
identifier bare or quoted, read from /repo on every run:
  * sql/keywords.rs: the five const arrays, the union built by sql_keywords(), dialect_keywords() (Redshift only),
    and the shape of is_keyword (to_ascii_uppercase + membership);
  * utils/mod.rs valid_ident(): the regex, converted to two character classes (lists of code-point ranges);
  * outside /repo's text, through the harness (c09_kw): sqlparser's RESERVED_FOR_COLUMN_ALIAS / RESERVED_FOR_TABLE_ALIAS
    as keywords.rs resolves them, and the bundled SQLite's OWN keyword table (sqlite3_keyword_name) -- the
    specification side of keyword_is_quoted.
Fails closed (stub file) on anything unexpected."""
import re

from ..common import gen_write
from ..rustscan import ExtractError, read, mask, block_after

KW = "prqlc/prqlc/src/sql/keywords.rs"
UTILS = "prqlc/prqlc/src/utils/mod.rs"
ARRAYS = ["SQLITE_KEYWORDS", "POSTGRES_KEYWORDS", "DUCKDB_KEYWORDS", "BIGQUERY_KEYWORDS", "REDSHIFT_KEYWORDS"]


def norm(t):
    return re.sub(r"\s+", " ", re.sub(r"//[^\n]*", "", t)).strip()


def parse_class(body):
    """regex character class body (between [ and ]) -> list of (lo, hi) code-point ranges; ASCII literal items only"""
    items = []
    i = 0
    while i < len(body):
        c = body[i]
        if c == "\\":
            if i + 1 >= len(body) or body[i + 1] not in "$_.-*+?()[]{}|^/\\":
                raise ExtractError("valid_ident: unsupported escape in class: %r" % body[i:i + 2])
            c = body[i + 1]
            i += 2
        else:
            if c in "[]^" or ord(c) > 126:
                raise ExtractError("valid_ident: unsupported class item %r" % c)
            i += 1
        if i + 1 < len(body) and body[i] == "-" and body[i + 1] != "]":
            hi = body[i + 1]
            if hi == "\\" or ord(hi) > 126:
                raise ExtractError("valid_ident: unsupported range end")
            items.append((ord(c), ord(hi)))
            i += 2
        else:
            items.append((ord(c), ord(c)))
    for lo, hi in items:
        if lo > hi:
            raise ExtractError("valid_ident: empty range")
    return items


def extract(kwdump):
    info = {}
    src = read(KW)
    m = mask(src)
    for name in ARRAYS:
        mm = re.search(r"const\s+%s\s*:\s*&\[&str\]\s*=\s*&\[" % name, m)
        if not mm:
            raise ExtractError("keywords.rs: const %s not found" % name)
        s, e = block_after(src, m, r"const\s+%s\s*:\s*&\[&str\]\s*=\s*&\[" % name, which="[")
        # block_after found the first '[' after the match end-1: that is the array's own bracket
        body = src[s:e]
        words = re.findall(r'"([^"]*)"', re.sub(r"//[^\n]*", "", body))
        leftover = re.sub(r'"[^"]*"|//[^\n]*|[\s,]', "", body)
        if leftover:
            raise ExtractError("keywords.rs: %s has unexpected content %r" % (name, leftover[:40]))
        for w in words:
            if not re.fullmatch(r"[A-Z0-9_]+", w):
                raise ExtractError("keywords.rs: keyword %r in %s is not upper-case ASCII (is_keyword upper-cases the identifier)" % (w, name))
        if not words:
            raise ExtractError("keywords.rs: %s is empty" % name)
        info[name] = words
    s, e = block_after(src, m, r"fn\s+is_keyword\b[^{]*\{")
    if norm(src[s:e]) != "let ident = ident.to_ascii_uppercase(); sql_keywords().contains(ident.as_str()) || dialect_keywords(dialect).contains(ident.as_str())":
        raise ExtractError("is_keyword changed")
    s, e = block_after(src, m, r"fn\s+dialect_keywords\b[^{]*\{")
    if norm(src[s:e]) != "match dialect { Dialect::Redshift => redshift_keywords(), _ => empty_keywords(), }":
        raise ExtractError("dialect_keywords changed")
    s, e = block_after(src, m, r"fn\s+redshift_keywords\b[^{]*\{")
    if "m.extend(REDSHIFT_KEYWORDS);" not in norm(src[s:e]) or norm(src[s:e]).count("extend") != 1:
        raise ExtractError("redshift_keywords changed")
    s, e = block_after(src, m, r"fn\s+empty_keywords\b[^{]*\{")
    if "EMPTY.get_or_init(HashSet::new)" not in norm(src[s:e]):
        raise ExtractError("empty_keywords changed")
    s, e = block_after(src, m, r"fn\s+sql_keywords\b[^{]*\{")
    sk = norm(src[s:e])
    ext = re.findall(r"m\.extend\(\s*([A-Z_]+|RESERVED_FOR_COLUMN_ALIAS \.iter\(\) \.map\(\|x\| ALL_KEYWORDS\[reverse_index\[x\]\]\),|RESERVED_FOR_TABLE_ALIAS \.iter\(\) \.map\(\|x\| ALL_KEYWORDS\[reverse_index\[x\]\]\),)\s*\)", sk)
    ext = [x.split(" ")[0] for x in ext]
    if ext != ["SQLITE_KEYWORDS", "POSTGRES_KEYWORDS", "DUCKDB_KEYWORDS", "BIGQUERY_KEYWORDS", "RESERVED_FOR_COLUMN_ALIAS", "RESERVED_FOR_TABLE_ALIAS"] or sk.count("extend(") != 6:
        raise ExtractError("sql_keywords(): the union is no longer the modelled one: %s" % ext)
    if "ALL_KEYWORDS_INDEX .iter() .enumerate() .map(|(idx, kw)| (kw, idx))" not in sk:
        raise ExtractError("sql_keywords(): reverse index changed")

    u = read(UTILS)
    mu = mask(u)
    s, e = block_after(u, mu, r"fn\s+valid_ident\b[^{]*\{")
    body = u[s:e]
    rx = re.findall(r'Regex::new\(r"([^"]*)"\)', body)
    if len(rx) != 1:
        raise ExtractError("valid_ident: regex literal not found")
    rm = re.fullmatch(r"\^\(\(\\\*\)\|\(\^\[((?:\\.|[^\]\\])+)\]\[((?:\\.|[^\]\\])+)\]\*\)\)\$", rx[0])
    if not rm:
        raise ExtractError("valid_ident: regex no longer has the shape ^((\\*)|(^[start][rest]*))$ : %s" % rx[0])
    info["regex"] = rx[0]
    info["start"] = parse_class(rm.group(1))
    info["rest"] = parse_class(rm.group(2))
    g = read("prqlc/prqlc/src/sql/gen_expr.rs")
    mg = mask(g)
    s, e = block_after(g, mg, r"fn\s+translate_ident_part\b[^{]*\{")
    # since fix 68466ba: the quoted form doubles the quote character before sqlparser's Display (emit_ident_quoted)
    want = ("let is_bare = valid_ident().is_match(&ident); "
            "let quoted = |ident: String| { let q = ctx.dialect.ident_quote(); sql_ast::Ident::with_quote(q, ident.replace(q, &format!(\"{q}{q}\"))) }; "
            "match ctx.dialect.ident_quoting_style() { IdentQuotingStyle::ConditionallyQuoted => { "
            "if is_bare && !keywords::is_keyword(&ident, &ctx.dialect_enum) { sql_ast::Ident::new(ident) } else { quoted(ident) } } "
            "IdentQuotingStyle::AlwaysQuoted => quoted(ident), }")
    if norm(g[s:e]) != want:
        raise ExtractError("translate_ident_part is no longer the modelled function")

    for k in ("column_alias", "table_alias", "sqlite"):
        if not isinstance(kwdump.get(k), list) or not kwdump[k]:
            raise ExtractError("harness c09_kw: %s missing" % k)
        for w in kwdump[k]:
            if not re.fullmatch(r"[A-Z0-9_]+", w):
                raise ExtractError("harness c09_kw: odd keyword %r" % w)
    info["column_alias"] = kwdump["column_alias"]
    info["table_alias"] = kwdump["table_alias"]
    info["sqlite_engine"] = kwdump["sqlite"]
    info["sqlite_version"] = kwdump.get("sqlite_version", "")
    return info


def codes(s):
    return "[" + ";".join(str(ord(c)) for c in s) + "]"


def lst(name, words, comment=""):
    out = "Definition %s : list (list N) :=%s\n  [ " % (name, (" (* %s *)" % comment) if comment else "")
    out += ";\n    ".join("%s (* %s *)" % (codes(w), w) for w in words)
    return out + " ].\n\n"


def generate():
    try:
        from ..common import harness1
        kwdump = harness1("c09_kw", {})
        info = extract(kwdump)
    except ExtractError as ex:
        gen_write("GenKeywords", "(* EXTRACTION FAILED: %s *)\nDefinition gen_keywords_extraction_failed := tt.\n" % str(ex).replace("*)", "* )"))
        return {"error": str(ex)}
    v = "(* generated from /repo (and, for the lists that live in dependencies, through the harness) on every run by\n   vplib/translate/gen_keywords.py -- do not edit *)\n"
    v += "From Coq Require Import List NArith.\nImport ListNotations.\nLocal Open Scope N_scope.\n\n"
    for name in ARRAYS:
        v += lst(name.lower(), info[name], "sql/keywords.rs " + name)
    v += lst("sqlparser_column_alias", info["column_alias"], "sqlparser::keywords::RESERVED_FOR_COLUMN_ALIAS")
    v += lst("sqlparser_table_alias", info["table_alias"], "sqlparser::keywords::RESERVED_FOR_TABLE_ALIAS")
    v += "(* sql_keywords(): the union consulted for every dialect *)\n"
    v += "Definition common_keywords : list (list N) :=\n  sqlite_keywords ++ postgres_keywords ++ duckdb_keywords ++ bigquery_keywords ++ sqlparser_column_alias ++ sqlparser_table_alias.\n\n"
    v += "(* dialect_keywords(): extra keywords per dialect name *)\n"
    v += "Definition dialect_keywords : list (list N * list (list N)) := [ (%s, redshift_keywords) ]. (* redshift *)\n\n" % codes("redshift")
    v += lst("sqlite_engine_keywords", info["sqlite_engine"], "sqlite3_keyword_name of the bundled SQLite " + info["sqlite_version"])
    v += "(* valid_ident: %s  -- star, or one character of ident_start followed by characters of ident_rest *)\n" % info["regex"].replace("*)", "* )")
    v += "Definition ident_start : list (N * N) := [ " + "; ".join("(%d, %d)" % r for r in info["start"]) + " ].\n"
    v += "Definition ident_rest : list (N * N) := [ " + "; ".join("(%d, %d)" % r for r in info["rest"]) + " ].\n"
    gen_write("GenKeywords", v)
    return info

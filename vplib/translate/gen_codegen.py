"""GenCodegen.v: the formatter's tables (binding_strength, associativity, can_bind_left, keyword set, identifier
classes) from prqlc/src/codegen/ast.rs, the operator spellings from parser/pr/ops.rs, the expression parser's Pratt
levels / operator tokens from parser/expr.rs (+ the multi-char operator spellings and keyword list of lexer/mod.rs),
and source pins of the algorithmic functions the hand-written model restates.  Regenerated on every run; fail closed."""
import hashlib
import re

from ..common import gen_write
from ..rustscan import ExtractError, read, mask, block_after, match_arms, split_top, enum_variants

AST = "prqlc/prqlc/src/codegen/ast.rs"
CGM = "prqlc/prqlc/src/codegen/mod.rs"
OPS = "prqlc/prqlc-parser/src/parser/pr/ops.rs"
EXPR = "prqlc/prqlc-parser/src/parser/expr.rs"
LEX = "prqlc/prqlc-parser/src/lexer/mod.rs"
LR = "prqlc/prqlc-parser/src/lexer/lr.rs"
IDENT = "prqlc/prqlc-parser/src/parser/pr/ident.rs"
STMT = "prqlc/prqlc-parser/src/parser/stmt.rs"
PMOD = "prqlc/prqlc-parser/src/parser/mod.rs"
LIB = "prqlc/prqlc/src/lib.rs"
CTY = "prqlc/prqlc/src/codegen/types.rs"
PTY = "prqlc/prqlc-parser/src/parser/types.rs"


def codes(s):
    return "[" + ";".join(str(ord(c)) for c in s) + "]"


def hook_spans(mb):
    """[(start, end)] of the `#[cfg(prqlc_verif)]`-guarded statements / items in masked text (strings and comments blank)"""
    spans = []
    for mm in re.finditer(r"#\s*\[\s*cfg\s*\(\s*prqlc_verif\s*\)\s*\]", mb):
        if spans and mm.start() < spans[-1][1]:
            continue
        i, depth, opened_block = mm.end(), 0, False
        while i < len(mb):
            c = mb[i]
            if c in "([{":
                if c == "{" and depth == 0:
                    opened_block = True
                depth += 1
            elif c in ")]}":
                depth -= 1
                if depth < 0:
                    raise ExtractError("cfg(prqlc_verif) guard at offset %d: statement not delimited" % mm.start())
                if depth == 0 and c == "}" and opened_block and not re.match(r"\s*[;.)?,]", mb[i + 1:i + 40]):
                    i += 1
                    break
            elif c == ";" and depth == 0:
                i += 1
                break
            i += 1
        else:
            raise ExtractError("cfg(prqlc_verif) guard at offset %d: statement not delimited" % mm.start())
        spans.append((mm.start(), i))
    return spans


def fn_text(rel, pattern, strip_comments=True):
    """normalised text of the body of the first item matching `pattern` (comments removed, whitespace collapsed)"""
    src = read(rel)
    m = mask(src)
    s, e = block_after(src, m, pattern)
    body = src[s:e]
    mb = m[s:e]
    # verification hooks are add-only, never compiled in normal builds: drop every statement / item guarded by
    # #[cfg(prqlc_verif)] (attribute up to the `;` at nesting depth 0, or the closing brace of a block item)
    for a, b in reversed(hook_spans(mb)):
        body = body[:a] + " " * (b - a) + body[b:]
        mb = mb[:a] + " " * (b - a) + mb[b:]
    if strip_comments:
        # keep string contents (from src) but drop comments (blank in mask, and not inside a string literal)
        out = []
        i = 0
        while i < len(body):
            if body.startswith("//", i) and mb[i] == " ":
                j = body.find("\n", i)
                i = len(body) if j < 0 else j
                continue
            out.append(body[i])
            i += 1
        body = "".join(out)
    return re.sub(r"\s+", " ", body).strip()


def strum_texts(rel, enum):
    """[(variant, to_string text)] of an enum whose variants carry #[strum(to_string = "..")]"""
    out = []
    for v, attrs in enum_variants(rel, enum):
        m = re.search(r'strum\(to_string\s*=\s*"([^"]*)"\)', attrs)
        if not m:
            raise ExtractError("%s::%s has no strum(to_string) attribute" % (enum, v))
        out.append((v, m.group(1)))
    return out


def ops_of_pattern(pat, enum, variants):
    """`pr::BinOp::Mul | pr::BinOp::DivInt` -> ['Mul', 'DivInt']; '_' -> None"""
    pat = pat.strip()
    if pat == "_":
        return None
    out = []
    for alt in pat.split("|"):
        m = re.match(r"^\s*(?:pr::)?%s::(\w+)\s*$" % enum, alt)
        if not m or m.group(1) not in variants:
            raise ExtractError("unexpected %s pattern: %r" % (enum, alt))
        out.append(m.group(1))
    return out


def extract():
    info = {}
    binops = strum_texts(OPS, "BinOp")
    unops = strum_texts(OPS, "UnOp")
    bnames = [v for v, _ in binops]
    unames = [v for v, _ in unops]
    info["binops"], info["unops"] = binops, unops

    # ---- binding_strength
    src = read(AST)
    m = mask(src)
    s, e = block_after(src, m, r"fn\s+binding_strength\s*\(\s*expr\s*:\s*&pr::ExprKind\s*\)\s*->\s*u8\s*\{\s*match\s+expr\s*")
    arms = match_arms(src, m, s, e)
    kinds = {}
    bin_strength = {}
    for pat, body in arms:
        pat1 = re.sub(r"\s+", " ", pat)
        mk = re.match(r"^pr::ExprKind::(\w+)\((?:_|\.\.)\)$", pat1)
        if mk:
            if not re.match(r"^\d+$", body):
                raise ExtractError("binding_strength arm %s: body is not a number: %r" % (pat1, body[:40]))
            kinds[mk.group(1)] = int(body)
        elif re.match(r"^pr::ExprKind::Binary\(pr::BinaryExpr \{ op, \.\. \}\)$", pat1):
            mb = mask(body)
            bs, be = block_after(body, mb, r"match\s+op\s*")
            for p2, b2 in match_arms(body, mb, bs, be):
                ops = ops_of_pattern(p2, "BinOp", bnames)
                if ops is None or not re.match(r"^\d+$", b2.strip()):
                    raise ExtractError("binding_strength Binary arm not understood: %r => %r" % (p2, b2[:30]))
                for o in ops:
                    if o in bin_strength:
                        raise ExtractError("binding_strength: BinOp %s listed twice" % o)
                    bin_strength[o] = int(b2)
        elif pat1 == "_":
            if not re.match(r"^\d+$", body):
                raise ExtractError("binding_strength default arm is not a number")
            kinds["_"] = int(body)
        else:
            raise ExtractError("binding_strength: arm not understood: %r" % pat1)
    if set(bin_strength) != set(bnames):
        raise ExtractError("binding_strength does not cover every BinOp: missing %s" % sorted(set(bnames) - set(bin_strength)))
    for k in ("Ident", "Unary", "Range", "FuncCall", "Func", "_"):
        if k not in kinds:
            raise ExtractError("binding_strength: no arm for %s" % k)
    if set(kinds) - {"Ident", "Unary", "Range", "FuncCall", "Func", "_"}:
        raise ExtractError("binding_strength: unmodelled arms %s" % sorted(set(kinds) - {"Ident", "Unary", "Range", "FuncCall", "Func", "_"}))
    info["bin_strength"] = [bin_strength[o] for o in bnames]
    info["kind_strength"] = kinds

    # ---- associativity
    s, e = block_after(src, m, r"fn\s+associativity\s*\(\s*expr\s*:\s*&pr::ExprKind\s*\)\s*->\s*super::Position\s*\{\s*match\s+expr\s*")
    arms = match_arms(src, m, s, e)
    posn = {"Unspecified": 0, "Left": 1, "Right": 2}
    assoc = {}
    outer_default = None
    for pat, body in arms:
        pat1 = re.sub(r"\s+", " ", pat)
        if re.match(r"^pr::ExprKind::Binary\(pr::BinaryExpr \{ op, \.\. \}\)$", pat1):
            mb = mask(body)
            bs, be = block_after(body, mb, r"match\s+op\s*")
            inner_default = None
            for p2, b2 in match_arms(body, mb, bs, be):
                mp = re.match(r"^super::Position::(\w+)$", b2.strip())
                if not mp or mp.group(1) not in posn:
                    raise ExtractError("associativity: arm body not understood: %r" % b2[:40])
                ops = ops_of_pattern(p2, "BinOp", bnames)
                if ops is None:
                    inner_default = posn[mp.group(1)]
                else:
                    for o in ops:
                        assoc[o] = posn[mp.group(1)]
            for o in bnames:
                if o not in assoc:
                    if inner_default is None:
                        raise ExtractError("associativity: BinOp %s not covered" % o)
                    assoc[o] = inner_default
        elif pat1 == "_":
            mp = re.match(r"^super::Position::(\w+)$", body.strip())
            if not mp:
                raise ExtractError("associativity default arm not understood")
            outer_default = posn[mp.group(1)]
        else:
            raise ExtractError("associativity: arm not understood: %r" % pat1)
    if outer_default != 0 or len(assoc) != len(bnames):
        raise ExtractError("associativity: non-binary kinds are no longer Unspecified, or Binary arm missing")
    info["bin_assoc"] = [assoc[o] for o in bnames]

    # ---- can_bind_left
    body = fn_text(AST, r"fn\s+can_bind_left\s*\(")
    mc = re.match(r"^matches!\( expr, pr::ExprKind::Unary\(pr::UnaryExpr \{ op: ([^,]*), \.\. \}\) \)$", body)
    if not mc:
        raise ExtractError("can_bind_left no longer has the modelled shape: %r" % body[:120])
    cbl = ops_of_pattern(mc.group(1), "UnOp", unames)
    info["cbl"] = [u in cbl for u in unames]

    # ---- context strengths forced at restricted positions (commits 95d15ad, 2a611aa): numbers read from the text,
    #      the surrounding statements must have exactly the modelled shape
    body = fn_text(AST, r"impl\s+WriteSource\s+for\s+pr::Expr\s*")
    ma = re.match(
        r'^fn write\(&self, mut opt: WriteOpt\) -> Option<String> \{ let mut r = String::new\(\); '
        r'if self\.alias\.is_some\(\) && opt\.context_strength > (\d+) \{ let mut inner = opt\.clone\(\); '
        r'inner\.context_strength = 0; inner\.unbound_expr = false; inner\.consume_width\(2\)\?; '
        r'return Some\(format!\("\(\{\}\)", self\.write\(inner\)\?\)\); \} '
        r'if let Some\(alias\) = &self\.alias \{ r \+= opt\.consume\(&write_ident_part\(alias\)\)\?; r \+= opt\.consume\(" = "\)\?; '
        r'opt\.unbound_expr = false; \} if !needs_parenthesis\(self, &opt\) \{ r \+= &self\.kind\.write\(opt\.clone\(\)\)\?; \} else \{', body)
    if not ma:
        raise ExtractError("pr::Expr::write no longer begins with the modelled alias handling")
    info["alias_ctx"] = int(ma.group(1))
    body = fn_text(AST, r"impl\s+WriteSource\s+for\s+pr::ExprKind\s*")
    mn = re.search(
        r'let no_alias = \|node: &pr::Expr, opt: &WriteOpt\| \{ let mut opt = opt\.clone\(\); if node\.alias\.is_some\(\) \{ '
        r'opt\.context_strength = opt\.context_strength\.max\((\d+)\); \} opt \};', body)
    if not mn:
        raise ExtractError("ExprKind::write: the no_alias closure of the FuncCall arm no longer has the modelled shape")
    if (body.count("no_alias(") != 2
            or "write_within( func_call.name.as_ref(), self, no_alias(func_call.name.as_ref(), &opt), )?" not in body
            or "let arg = write_within(arg, self, no_alias(arg, &opt))?;" not in body):
        raise ExtractError("ExprKind::write: no_alias is no longer applied to exactly the callee and the named-argument values")
    info["noalias_ctx"] = int(mn.group(1))
    ml = re.search(
        r'let mut opt_default = opt\.clone\(\); opt_default\.context_strength = opt_default\.context_strength\.max\((\d+)\); '
        r'r \+= opt\.consume\(&param\.default_value\.as_ref\(\)\.unwrap\(\)\.write\(opt_default\)\?\)\?;', body)
    mb = re.search(
        r'opt\.context_strength = opt\.context_strength\.max\((\d+)\); if let Some\(body\) = c\.body\.write\(opt\.clone\(\)\) \{', body)
    if not ml or not mb or body.count("context_strength.max(") != 3:
        raise ExtractError("ExprKind::write: the Func arm no longer raises the context of default values and of the body in the modelled way")
    info["lambda_default_ctx"], info["lambda_body_ctx"] = int(ml.group(1)), int(mb.group(1))
    body = fn_text(AST, r"impl\s+WriteSource\s+for\s+pr::SwitchCase\s*")
    mcs = re.match(
        r'^fn write\(&self, mut opt: WriteOpt\) -> Option<String> \{ let mut r = String::new\(\); '
        r'opt\.context_strength = opt\.context_strength\.max\((\d+)\); r \+= &self\.condition\.write\(opt\.clone\(\)\)\?; '
        r'r \+= " => "; r \+= &self\.value\.write\(opt\)\?; Some\(r\) \}$', body)
    if not mcs:
        raise ExtractError("SwitchCase::write no longer has the modelled shape")
    info["case_ctx"] = int(mcs.group(1))
    body = fn_text(AST, r"impl\s+WriteSource\s+for\s+pr::Stmt\s*")
    man = re.search(
        r'for annotation in &self\.annotations \{ r \+= "@"; let mut opt_annotation = opt\.clone\(\); '
        r'opt_annotation\.context_strength = opt_annotation\.context_strength\.max\((\d+)\); '
        r'r \+= &annotation\.expr\.write\(opt_annotation\)\?;', body)
    if not man:
        raise ExtractError("Stmt::write: annotations are no longer written at a raised context strength in the modelled way")
    info["annotation_ctx"] = int(man.group(1))

    # ---- keywords() and valid_prql_ident
    body = fn_text(AST, r"fn\s+keywords\s*\(\)")
    mk = re.search(r"HashSet::from_iter\(\[(.*?)\]\)", body)
    if not mk:
        raise ExtractError("keywords(): list not found")
    kws = re.findall(r'"([^"]*)"', mk.group(1))
    if not kws or re.sub(r'"[^"]*"|[\s,]', "", mk.group(1)):
        raise ExtractError("keywords(): list not understood")
    info["fmt_keywords"] = kws
    body = fn_text(AST, r"fn\s+valid_prql_ident\s*\(\)")
    mr = re.search(r'Regex::new\(r"([^"]*)"\)', body)
    if not mr:
        raise ExtractError("valid_prql_ident: regex not found")
    rx = mr.group(1)
    # since commit 328740d the wildcard alternative `\*|` is gone: a name spelled `*` keeps its backticks
    mshape = re.match(r"^\^\[([^\]]*)\]\[([^\]]*)\]\*\$$", rx)
    if not mshape:
        raise ExtractError("valid_prql_ident: regex no longer has the shape ^[..][..]*$ : %s" % rx)
    info["fmt_ident_start"] = char_class(mshape.group(1))
    info["fmt_ident_rest"] = char_class(mshape.group(2))
    body = fn_text(AST, r"pub\s+fn\s+write_ident_part\s*\(")
    if body != "if valid_prql_ident().is_match(s) && !keywords().contains(s) { s.into() } else { format!(\"`{s}`\").into() }":
        raise ExtractError("write_ident_part no longer has the modelled shape: %r" % body)

    # ---- display_ident_part (expression identifiers)
    body = fn_text(IDENT, r"pub\s+fn\s+display_ident_part\s*\(")
    mshape = re.match(
        r'^const RESERVED: &\[&str\] = &\[(.*?)\]; '
        r"fn forbidden_start\(c: char\) -> bool \{ !\(c\.is_ascii_alphabetic\(\) \|\| c == '_'\) \} "
        r"fn forbidden_subsequent\(c: char\) -> bool \{ !\(c\.is_ascii_alphabetic\(\) \|\| c\.is_ascii_digit\(\) \|\| c == '_'\) \} "
        r"let needs_escape = s\.is_empty\(\) \|\| s\.starts_with\(forbidden_start\) \|\| \(s\.len\(\) > 1 && s\.chars\(\)\.skip\(1\)\.any\(forbidden_subsequent\)\) \|\| RESERVED\.contains\(&s\); "
        r'if needs_escape \{ write!\(f, "`\{s\}`"\) \} else \{ write!\(f, "\{s\}"\) \}$', body)
    if not mshape:
        raise ExtractError("display_ident_part no longer has the modelled shape")
    res = re.findall(r'"([^"]*)"', mshape.group(1))
    if not res or re.sub(r'"[^"]*"|[\s,]', "", mshape.group(1)):
        raise ExtractError("display_ident_part: RESERVED list not understood")
    info["disp_reserved"] = res
    info["disp_ident_start"] = char_class("a-zA-Z_")
    info["disp_ident_rest"] = char_class("a-zA-Z0-9_")

    # ---- lexer: keyword list, multi-char operator spellings
    lex = read(LEX)
    ml = mask(lex)
    s, e = block_after(lex, ml, r"fn\s+keyword\s*<")
    kb = lex[s:e]
    s2, e2 = block_after(kb, mask(kb), r"choice\s*\(", "(")
    inner = kb[s2:e2]
    lk = re.findall(r'just\("([^"]*)"\)', inner)
    if not lk or re.sub(r'just\("[^"]*"\)|[\s,()]', "", inner):
        raise ExtractError("lexer keyword(): list not understood")
    info["lex_keywords"] = lk
    s, e = block_after(lex, ml, r"fn\s+multi_char_operators\s*<")
    mb = lex[s:e]
    toks = dict((k, t) for t, k in re.findall(r'just\("([^"]*)"\)(?:\s*\.then_ignore\(end_expr\(\)\))?\s*\.to\(TokenKind::(\w+)\)', mb))
    if len(toks) < 10:
        raise ExtractError("multi_char_operators: not understood")
    mctl = re.search(r'one_of\("([^"]*)"\)\.map\(TokenKind::Control\)', lex)
    if not mctl:
        raise ExtractError("lexer: single-character control set not found")
    controls = mctl.group(1)

    # ---- parser: operator groups and pratt levels
    ex = read(EXPR)
    mx = mask(ex)

    def group(fname, enum, variants):
        s, e = block_after(ex, mx, r"fn\s+%s\s*<" % fname)
        b = ex[s:e]
        out = []
        for mm in re.finditer(r"ctrl\('(.)'\)\s*\.to\(%s::(\w+)\)|TokenKind::(\w+)\s*,\s*\.\.\s*\}\s*=>\s*%s::(\w+)" % (enum, enum), b):
            if mm.group(1):
                if mm.group(1) not in controls:
                    raise ExtractError("%s: ctrl('%s') is not a lexer control character" % (fname, mm.group(1)))
                out.append((mm.group(1), mm.group(2)))
            else:
                if mm.group(3) not in toks:
                    raise ExtractError("%s: TokenKind::%s has no spelling in multi_char_operators" % (fname, mm.group(3)))
                out.append((toks[mm.group(3)], mm.group(4)))
        n_expected = len(re.findall(r"%s::\w+" % enum, b))
        if len(out) != n_expected or not out:
            raise ExtractError("%s: %d operator mappings read, %d mentioned" % (fname, len(out), n_expected))
        for _, v in out:
            if v not in variants:
                raise ExtractError("%s: unknown %s::%s" % (fname, enum, v))
        return out

    s, e = block_after(ex, mx, r"\.pratt\s*\(", "(")
    inner_s, inner_e = block_after(ex[s:e], mx[s:e], r"^\s*", "(")
    tup_src, tup_m = ex[s:e][inner_s:inner_e], mx[s:e][inner_s:inner_e]
    levels = []
    par_map = []
    for item, item_m in split_top(tup_src, tup_m, 0, len(tup_src)):
        mi = re.match(r"^\s*infix\(\s*(left|right)\((\d+)\)\s*,\s*(operator_\w+)\(\)\s*,", item)
        if not mi:
            raise ExtractError("pratt table: item not understood: %r" % item.strip()[:60])
        if "ExprKind::Binary(BinaryExpr" not in item:
            raise ExtractError("pratt table: fold of %s does not build ExprKind::Binary" % mi.group(3))
        g = group(mi.group(3), "BinOp", bnames)
        for text, v in g:
            levels.append((v, int(mi.group(2)), mi.group(1) == "right"))
            par_map.append((text, v))
    if sorted(v for v, _, _ in levels) != sorted(bnames):
        raise ExtractError("pratt table does not cover every BinOp exactly once")
    lv = dict((v, (l, r)) for v, l, r in levels)
    info["par_level"] = [lv[o][0] for o in bnames]
    info["par_rassoc"] = [lv[o][1] for o in bnames]
    info["par_bin"] = [(t, bnames.index(v)) for t, v in par_map]
    ug = group("operator_unary", "UnOp", unames)
    if sorted(v for _, v in ug) != sorted(unames):
        raise ExtractError("operator_unary does not cover every UnOp exactly once")
    info["par_un"] = [(t, unames.index(v)) for t, v in ug]
    # layering: let term = unary(term); let term = range(term); term.pratt(
    sb, eb = block_after(ex, mx, r"pub\(crate\)\s+fn\s+expr\s*<")
    body = re.sub(r"\s+", " ", mx[sb:eb])
    if not re.search(r"let term = unary\(term\); let term = range\(term\); term\.pratt\(", body):
        raise ExtractError("expr(): layering unary -> range -> pratt no longer found")

    # ---- pins of the algorithmic code the hand-written model restates
    pins = {
        "needs_parenthesis": (AST, r"fn\s+needs_parenthesis\s*\("),
        "write_within": (AST, r"fn\s+write_within\s*<"),
        "Expr::write": (AST, r"impl\s+WriteSource\s+for\s+pr::Expr\s*"),
        "ExprKind::write": (AST, r"impl\s+WriteSource\s+for\s+pr::ExprKind\s*"),
        "Ident::write": (AST, r"impl\s+WriteSource\s+for\s+pr::Ident\s*"),
        "display_interpolation": (AST, r"fn\s+display_interpolation\s*\("),
        "SwitchCase::write": (AST, r"impl\s+WriteSource\s+for\s+pr::SwitchCase\s*"),
        "write_between": (CGM, r"fn\s+write_between\s*<"),
        "Literal::fmt": (LR, r"impl\s+std::fmt::Display\s+for\s+Literal\s*"),
        "quote_string": (LR, r"fn\s+quote_string\s*\("),
        "escape_all_except_quotes": (LR, r"fn\s+escape_all_except_quotes\s*\("),
        "display_ident": (IDENT, r"pub\s+fn\s+display_ident\s*\("),
        "lexer::multi_quoted_string": (LEX, r"fn\s+multi_quoted_string\s*<"),
        "lexer::parse_escape_sequence": (LEX, r"fn\s+parse_escape_sequence\s*<"),
        "lexer::number": (LEX, r"fn\s+number\s*<"),
        "lexer::ident_part": (LEX, r"pub\s+fn\s+ident_part\s*<"),
        "lexer::end_expr": (LEX, r"fn\s+end_expr\s*<"),
        "parser::unary": (EXPR, r"fn\s+unary\s*<"),
        "parser::range": (EXPR, r"fn\s+range\s*<"),
        "parser::func_call": (EXPR, r"fn\s+func_call\s*<"),
        "parser::case": (EXPR, r"fn\s+case\s*<"),
        "parser::maybe_aliased": (EXPR, r"fn\s+maybe_aliased\s*<"),
        # lambdas and the statement layer (Model/FmtStmt.v)
        "parser::lambda_func": (EXPR, r"fn\s+lambda_func\s*<"),
        "parser::expr_call": (EXPR, r"pub\(crate\)\s+fn\s+expr_call\s*<"),
        "parser::pipeline": (EXPR, r"pub\(crate\)\s+fn\s+pipeline\s*<"),
        "parser::pipe": (PMOD, r"fn\s+pipe\s*<"),
        "parser::new_line": (PMOD, r"pub\(crate\)\s+fn\s+new_line\s*<"),
        "parser::source": (STMT, r"pub\s+fn\s+source\s*<"),
        "parser::module_contents": (STMT, r"fn\s+module_contents\s*<"),
        "parser::var_def": (STMT, r"fn\s+var_def\s*<"),
        "parser::import_def": (STMT, r"fn\s+import_def\s*<"),
        "Stmt::write": (AST, r"impl\s+WriteSource\s+for\s+pr::Stmt\s*"),
        "Stmts::write": (AST, r"impl\s+WriteSource\s+for\s+Vec<pr::Stmt>\s*"),
        # the entry point: fmt_prog is Vec<Stmt>::write at WriteOpt::default(), nothing applied afterwards (seed C14/5)
        "pl_to_prql": (LIB, r"pub\s+fn\s+pl_to_prql\s*\("),
        # line breaking (compared through the stream corr-wrapped-tokens; not modelled)
        "break_line_within_parenthesis": (AST, r"fn\s+break_line_within_parenthesis\s*<"),
        "SeparatedExprs::write": (CGM, r"impl<T:\s*WriteSource>\s+WriteSource\s+for\s+SeparatedExprs<'_,\s*T>\s*"),
        "SeparatedExprs::write_inline": (CGM, r"impl<T:\s*WriteSource>\s+SeparatedExprs<'_,\s*T>\s*"),
        "WriteSource": (CGM, r"pub\s+trait\s+WriteSource\s*"),
        # type expressions (Model/FmtTy.v)
        "Ty::write": (CTY, r"impl\s+WriteSource\s+for\s+pr::Ty\s*"),
        "TyKind::write": (CTY, r"impl\s+WriteSource\s+for\s+pr::TyKind\s*"),
        "TyTupleField::write": (CTY, r"impl\s+WriteSource\s+for\s+pr::TyTupleField\s*"),
        "parser::type_expr": (PTY, r"pub\(crate\)\s+fn\s+type_expr\s*<"),
        "parser::type_def": (STMT, r"fn\s+type_def\s*<"),
    }
    got = {}
    for name, (rel, pat) in pins.items():
        got[name] = hashlib.sha1(fn_text(rel, pat).encode()).hexdigest()[:16]
    info["pins"] = got
    return info


def char_class(spec):
    """'a-zA-Z_$' -> sorted list of (lo, hi) code point ranges"""
    out = []
    i = 0
    while i < len(spec):
        c = spec[i]
        if c == "\\":
            raise ExtractError("escape in character class: not modelled")
        if i + 2 < len(spec) and spec[i + 1] == "-":
            out.append((ord(c), ord(spec[i + 2])))
            i += 3
        else:
            out.append((ord(c), ord(c)))
            i += 1
    return sorted(out)


# sha1[:16] of the normalised source of each pinned function, as read when the model was written
# (re-pinned for /repo HEAD 2a611aa: Expr::write, ExprKind::write, Ident::write, display_interpolation, SwitchCase::write,
#  parser::maybe_aliased changed with the fix commits 95d15ad 1b7b9df 4d5b01d e945e0b c8b3817 2a611aa;
#  ExprKind::write re-pinned for 212f897 (type of a named lambda parameter; types are outside the model);
#  Stmt::write re-pinned for e3202e5 (alias guard of the Main arm, mirrored by FmtStmt.fmt_value_lines) and b4fb037: saturating indent arithmetic, the model counts indentation in nat)
PINNED = {
    "needs_parenthesis": "7130b65cce8b7964",
    "write_within": "dd3053dbcfdc95d3",
    "Expr::write": "84933ce80c1edbd5",
    "ExprKind::write": "fee7d177a5d1b74d",
    "Ident::write": "eb121fd380826b6f",
    "display_interpolation": "cd78c3583840b05d",
    "SwitchCase::write": "8307a1337cef4197",
    "write_between": "c2faf8837235e62c",
    "Literal::fmt": "aa530c512dd8194a",
    "quote_string": "aa20f7be2c157083",
    "escape_all_except_quotes": "b87b30d4c5ea8949",
    "display_ident": "7bbcb13d95579ab6",
    "lexer::multi_quoted_string": "57038ddfe998cf6f",
    "lexer::parse_escape_sequence": "8209c2c0478b7d50",
    "lexer::number": "f1815612395b8958",
    "lexer::ident_part": "f0a56d6f22912259",
    "lexer::end_expr": "634c460f0bad91e6",
    "parser::unary": "5b69390682a63092",
    "parser::range": "a89354fc2c47e46a",
    "parser::func_call": "39ec820c1a8b05b4",
    "parser::case": "0c70ef9af3524b8d",
    "parser::maybe_aliased": "6f50fe3f89b345fd",
    "parser::lambda_func": "0536a283579fa01d",
    "parser::expr_call": "e834bb355005aa6f",
    "parser::pipeline": "e58d7e71d9de1acd",
    "parser::pipe": "02212bfde0e08c6e",
    "parser::new_line": "538906ec6ad6b141",
    "parser::source": "49c702f4845a4eb0",
    "parser::module_contents": "b6d940a52928f01a",
    "parser::var_def": "fc9a120c4bace214",
    "parser::import_def": "779ef6dfbd065f4e",
    "Stmt::write": "a9bd15b8ac448f64",
    "Stmts::write": "7a037f3d9fa22f69",
    "pl_to_prql": "4ca719fc039eac18",  # re-recorded at 6c9d120: hook fmt-calls (cfg-guarded statements are stripped) turned `Ok(write(..).unwrap())` into `let res = write(..).unwrap(); Ok(res)`
    "break_line_within_parenthesis": "931cc9dcbdd54a1d",
    "SeparatedExprs::write": "61c9fc8c5df4c642",
    "SeparatedExprs::write_inline": "4ab0632dd1848ec9",
    "WriteSource": "662146f7638e7945",
    "Ty::write": "c6f1432756e3cfd9",
    "TyKind::write": "e3452067c4af7f10",
    "TyTupleField::write": "3d2a40bd363ba4d4",
    "parser::type_expr": "8c2fdf8864522035",
    "parser::type_def": "a2dbf99e8306a7b3",
}


def generate():
    try:
        info = extract()
        changed = sorted(k for k, v in info["pins"].items() if PINNED.get(k) != v)
        if changed:
            info["pins_changed"] = changed
    except ExtractError as ex:
        gen_write("GenCodegen", "(* EXTRACTION FAILED: %s *)\nDefinition gen_codegen_extraction_failed := tt.\n" % str(ex).replace("*)", "* )"))
        return {"error": str(ex)}
    b, u = info["binops"], info["unops"]

    def lst(xs):
        return "[" + "; ".join(xs) + "]"

    def ranges(rs):
        return lst("(%d, %d)" % r for r in rs)
    v = "(* generated from /repo on every run by vplib/translate/gen_codegen.py -- do not edit *)\n"
    v += "From Coq Require Import List NArith Bool.\nImport ListNotations.\nLocal Open Scope N_scope.\n\n"
    v += "(* pr::BinOp / pr::UnOp in declaration order (parser/pr/ops.rs): names and Display spellings *)\n"
    v += "Definition bin_names : list (list N) :=\n  %s.\n" % lst("%s (* %s *)" % (codes(n), n) for n, _ in b)
    v += "Definition bin_text : list (list N) :=\n  %s.\n" % lst("%s (* %s *)" % (codes(t), t) for _, t in b)
    v += "Definition un_names : list (list N) := %s.\n" % lst("%s (* %s *)" % (codes(n), n) for n, _ in u)
    v += "Definition un_text : list (list N) := %s.\n\n" % lst("%s (* %s *)" % (codes(t), t) for _, t in u)
    v += "(* codegen/ast.rs binding_strength / associativity (0 Unspecified, 1 Left, 2 Right) / can_bind_left *)\n"
    v += "Definition fmt_bin_strength : list N := %s.\n" % lst(str(x) for x in info["bin_strength"])
    v += "Definition fmt_bin_assoc : list N := %s.\n" % lst(str(x) for x in info["bin_assoc"])
    ks = info["kind_strength"]
    v += "Definition fmt_unary_strength : N := %d.\nDefinition fmt_range_strength : N := %d.\nDefinition fmt_call_strength : N := %d.\n" % (ks["Unary"], ks["Range"], ks["FuncCall"])
    v += "Definition fmt_func_strength : N := %d.\nDefinition fmt_ident_strength : N := %d.\nDefinition fmt_other_strength : N := %d.\n" % (ks["Func"], ks["Ident"], ks["_"])
    v += "Definition fmt_can_bind_left : list bool := %s.\n\n" % lst("true" if x else "false" for x in info["cbl"])
    v += "(* context strengths forced at restricted positions: an aliased expression is parenthesised above fmt_alias_ctx;\n"
    v += "   aliased callee / named-argument value are written at >= fmt_noalias_ctx; case branches at >= fmt_case_ctx;\n"
    v += "   lambda default values / body and annotation expressions at >= the three last numbers *)\n"
    v += "Definition fmt_alias_ctx : N := %d.\nDefinition fmt_noalias_ctx : N := %d.\nDefinition fmt_case_ctx : N := %d.\n" % (info["alias_ctx"], info["noalias_ctx"], info["case_ctx"])
    v += "Definition fmt_lambda_default_ctx : N := %d.\nDefinition fmt_lambda_body_ctx : N := %d.\nDefinition fmt_annotation_ctx : N := %d.\n\n" % (info["lambda_default_ctx"], info["lambda_body_ctx"], info["annotation_ctx"])
    v += "(* write_ident_part: keywords() and valid_prql_ident = [start][rest]...; display_ident_part classes *)\n"
    v += "Definition fmt_keywords : list (list N) :=\n  %s.\n" % lst("%s (* %s *)" % (codes(k), k) for k in info["fmt_keywords"])
    v += "Definition fmt_ident_start : list (N * N) := %s.\nDefinition fmt_ident_rest : list (N * N) := %s.\n" % (ranges(info["fmt_ident_start"]), ranges(info["fmt_ident_rest"]))
    v += "Definition disp_ident_start : list (N * N) := %s.\nDefinition disp_ident_rest : list (N * N) := %s.\n" % (ranges(info["disp_ident_start"]), ranges(info["disp_ident_rest"]))
    v += "Definition disp_reserved : list (list N) :=\n  %s.\n\n" % lst("%s (* %s *)" % (codes(k), k) for k in info["disp_reserved"])
    v += "(* lexer/mod.rs keyword() *)\n"
    v += "Definition lex_keywords : list (list N) :=\n  %s.\n\n" % lst("%s (* %s *)" % (codes(k), k) for k in info["lex_keywords"])
    v += "(* parser/expr.rs: pratt level and associativity per BinOp; token spelling -> operator *)\n"
    v += "Definition par_level : list N := %s.\n" % lst(str(x) for x in info["par_level"])
    v += "Definition par_rassoc : list bool := %s.\n" % lst("true" if x else "false" for x in info["par_rassoc"])
    v += "Definition par_bin : list (list N * nat) := %s.\n" % lst("(%s, %d%%nat) (* %s *)" % (codes(t), i, t) for t, i in info["par_bin"])
    v += "Definition par_un : list (list N * nat) := %s.\n\n" % lst("(%s, %d%%nat) (* %s *)" % (codes(t), i, t) for t, i in info["par_un"])
    v += "(* the algorithmic functions restated by Model/Fmt*.v are textually those the model was written against *)\n"
    v += "Definition pins_changed : list (list N) := %s.\n" % lst("%s (* %s *)" % (codes(k), k) for k in info.get("pins_changed", []))
    gen_write("GenCodegen", v)
    return info

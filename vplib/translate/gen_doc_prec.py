"""GenDocPrec.v: the documented operator precedence table (the specification side of C02), read from
web/book/src/reference/syntax/operators.md on every run.  Fails closed."""
import re

from ..common import gen_write
from ..rustscan import ExtractError, read

DOC = "web/book/src/reference/syntax/operators.md"


def codes(s):
    return "[" + ";".join(str(ord(c)) for c in s) + "]"


def extract():
    src = read(DOC)
    mm = re.search(r"^## Operator precedence\s*$", src, re.M)
    if not mm:
        raise ExtractError("section '## Operator precedence' not found")
    rest = src[mm.end():]
    nxt = re.search(r"^## ", rest, re.M)
    sect = rest[: nxt.start()] if nxt else rest
    lines = [l for l in sect.split("\n") if l.strip().startswith("|")]
    if len(lines) < 3:
        raise ExtractError("precedence table not found")
    hdr = [c.strip().lower() for c in lines[0].strip().strip("|").split("|")]
    if hdr != ["group", "operators", "precedence", "associativity"]:
        raise ExtractError("table header changed: %r" % hdr)
    if not re.match(r"^\|[\s:|-]+\|$", lines[1].strip()):
        raise ExtractError("table separator row missing")
    rows = []
    for l in lines[2:]:
        body = l.strip()[1:-1] if l.strip().endswith("|") else l.strip()[1:]
        body = body.replace("\\|", "\x00")
        cells = [c.strip().replace("\x00", "|") for c in body.split("|")]
        if len(cells) != 4:
            raise ExtractError("row does not have 4 cells: %r" % l)
        group, ops, prec, assoc = cells
        spell = re.findall(r"`([^`]+)`", ops) + re.findall(r"<code>(.*?)</code>", ops)
        leftover = re.sub(r"`[^`]+`|<code>.*?</code>", "", ops).strip()
        if leftover:
            raise ExtractError("unparsed text in operators cell: %r" % leftover)
        if not re.match(r"^\d+$", prec):
            raise ExtractError("precedence is not a number: %r" % prec)
        a = {"left-to-right": "DLeft", "right-to-left": "DRight", "": "DNone", "see below": "DSeeBelow"}.get(assoc.lower())
        if a is None:
            raise ExtractError("unknown associativity text: %r" % assoc)
        rows.append((group, spell, int(prec), a))
    if not rows:
        raise ExtractError("empty precedence table")
    return {"rows": rows}


def generate():
    try:
        info = extract()
    except ExtractError as ex:
        gen_write("GenDocPrec", "(* EXTRACTION FAILED: %s *)\nDefinition gen_doc_prec_extraction_failed := tt.\n" % str(ex).replace("*)", "* )"))
        return {"error": str(ex)}
    v = "(* generated from /repo/%s on every run by vplib/translate/gen_doc_prec.py -- do not edit *)\n" % DOC
    v += "From Coq Require Import List NArith.\nImport ListNotations.\n\n"
    v += "Inductive doc_assoc := DLeft | DRight | DNone | DSeeBelow.\n"
    v += "(* (group name, operator spellings, documented precedence number (smaller binds tighter), associativity) *)\n"
    v += "Definition doc_rows : list (list N * list (list N) * nat * doc_assoc) :=\n  ([ " + ";\n    ".join(
        "(%s, [%s], %d%%nat, %s) (* %s : %s *)" % (codes(g), "; ".join(codes(s) for s in sp), p, a, g, " ".join(sp).replace("*)", "* )")) for g, sp, p, a in info["rows"]) + " ])%N.\n"
    gen_write("GenDocPrec", v)
    return info

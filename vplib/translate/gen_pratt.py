"""GenPratt.v: the PRQL expression grammar tables read from prqlc-parser on every run (Tie A):
BinOp / UnOp variants and spellings (parser/pr/ops.rs), the `.pratt((...))` levels with
associativity and operator groups, the members of each operator_*() group, the unary operator set
and the layering  unary -> range -> pratt  (parser/expr.rs).  Fails closed."""
import re

from ..common import gen_write
from .c02_util import read_code
from ..rustscan import ExtractError, enum_variants, read, mask, block_after, split_top, match_brace

OPS = "prqlc/prqlc-parser/src/parser/pr/ops.rs"
EXPR = "prqlc/prqlc-parser/src/parser/expr.rs"


def codes(s):
    return "[" + ";".join(str(ord(c)) for c in s) + "]"


def fn_block(src, m, name):
    mm = re.search(r"\bfn\s+%s\s*<" % re.escape(name), m)
    if not mm:
        mm = re.search(r"\bfn\s+%s\s*\(" % re.escape(name), m)
    if not mm:
        raise ExtractError("fn %s not found in expr.rs" % name)
    # body = first '{' after the signature's where-clause: find the '{' that follows ')' ... at depth 0
    i = mm.end()
    depth = 0
    while i < len(m):
        ch = m[i]
        if ch in "(<[":
            depth += 1
        elif ch in ")>]":
            # '->' contains '>' : ignore when preceded by '-'
            if ch == ">" and m[i - 1] == "-":
                pass
            else:
                depth -= 1
        elif ch == "{" and depth <= 0:
            j = match_brace(m, i)
            return i + 1, j
        i += 1
    raise ExtractError("body of fn %s not found" % name)


def extract():
    info = {}
    for en in ("BinOp", "UnOp"):
        vs = enum_variants(OPS, en)
        out = []
        for v, attrs in vs:
            mm = re.search(r'strum\(to_string\s*=\s*"([^"]*)"\)', attrs)
            if not mm:
                raise ExtractError("%s::%s has no strum(to_string) spelling" % (en, v))
            out.append((v, mm.group(1)))
        info[en] = out
    binops = [v for v, _ in info["BinOp"]]
    unops = [v for v, _ in info["UnOp"]]

    src = read_code(EXPR)
    m = mask(src)
    s, e = fn_block(src, m, "expr")
    body, mbody = src[s:e], m[s:e]
    # layering
    layers = []
    for mm in re.finditer(r"let\s+term\s*=\s*([a-z_]+)\s*\(\s*term\s*\)\s*;", mbody):
        layers.append((mm.start(), mm.group(1)))
    mp = re.search(r"\bterm\s*\.pratt\s*\(\s*\(", mbody)
    if not mp:
        raise ExtractError("`term.pratt((` not found in expr()")
    if len(re.findall(r"\.pratt\s*\(", mbody)) != 1:
        raise ExtractError("more than one .pratt( call in expr()")
    if any(p > mp.start() for p, _ in layers):
        raise ExtractError("a `let term = f(term)` layer appears after .pratt(")
    info["layers"] = [n for _, n in layers] + ["pratt"]
    # the pratt tuple
    open_idx = s + mp.end() - 1      # index of the inner '('
    close_idx = match_brace(m, open_idx)
    parts = split_top(src, m, open_idx + 1, close_idx)
    n_infix = len(re.findall(r"\binfix\s*\(", m[open_idx:close_idx]))
    n_other = len(re.findall(r"\b(prefix|postfix)\s*\(", m[open_idx:close_idx]))
    if n_other:
        raise ExtractError("prefix/postfix entries in .pratt(( )) are not modelled")
    levels = []
    for text, mtext in parts:
        if not mtext.strip():
            continue
        mm = re.match(r"\s*infix\s*\(\s*(left|right|none)\s*\(\s*(\d+)\s*\)\s*,\s*(operator_[a-z_]+)\s*\(\s*\)\s*,", mtext)
        if not mm:
            raise ExtractError("unrecognised .pratt entry: %r" % text.strip()[:80])
        if mm.group(1) == "none":
            raise ExtractError("non-associative pratt level is not modelled")
        # the fold closure must build Binary{left, op, right} in that order
        sq = re.sub(r"\s+", " ", mtext)
        if not re.search(r"\|\s*left\s*,\s*op\s*,\s*right\s*,\s*extra\s*\|", sq) or \
           not re.search(r"BinaryExpr \{ left: Box::new\(left\), op, right: Box::new\(right\),? \}", sq):
            raise ExtractError("pratt fold closure no longer builds BinaryExpr{left, op, right}: %r" % sq[:120])
        levels.append((int(mm.group(2)), mm.group(1) == "right", mm.group(3)))
    if len(levels) != n_infix:
        raise ExtractError("pratt entries %d != infix( count %d" % (len(levels), n_infix))
    # operator groups
    groups = {}
    for _, _, g in levels:
        gs, ge = fn_block(src, m, g)
        mem = re.findall(r"\bBinOp::([A-Za-z]+)", m[gs:ge])
        if not mem:
            raise ExtractError("%s yields no BinOp" % g)
        for x in mem:
            if x not in binops:
                raise ExtractError("%s mentions unknown BinOp::%s" % (g, x))
        groups[g] = mem
    seen = [x for g in groups.values() for x in g]
    if sorted(seen) != sorted(binops):
        raise ExtractError("operator groups do not partition BinOp: groups=%s enum=%s" % (sorted(seen), sorted(binops)))
    info["levels"] = [(lv, r, groups[g], g) for lv, r, g in levels]
    # unary
    us, ue = fn_block(src, m, "operator_unary")
    umem = re.findall(r"\bUnOp::([A-Za-z]+)", m[us:ue])
    for x in umem:
        if x not in unops:
            raise ExtractError("operator_unary mentions unknown UnOp::%s" % x)
    if not umem:
        raise ExtractError("operator_unary yields no UnOp")
    info["unary_ops"] = umem
    fs, fe = fn_block(src, m, "unary")
    sq = re.sub(r"\s+", "", m[fs:fe])
    if "expr.clone().or(operator_unary().then(expr.map(Box::new))" not in sq:
        raise ExtractError("fn unary no longer has the shape  expr | operator_unary expr")
    info["unary_nests"] = False
    rs, re_ = fn_block(src, m, "range")
    sq = re.sub(r"\s+", "", m[rs:re_])
    if "expr.clone().then(choice((" not in sq or sq.count(".ignore_then(expr") != 2:
        raise ExtractError("fn range no longer has the modelled shape (bounds are the wrapped parser itself)")
    return info


def generate():
    try:
        info = extract()
    except ExtractError as ex:
        gen_write("GenPratt", "(* EXTRACTION FAILED: %s *)\nDefinition gen_pratt_extraction_failed := tt.\n" % str(ex).replace("*)", "* )"))
        return {"error": str(ex)}
    v = "(* generated from /repo on every run by vplib/translate/gen_pratt.py -- do not edit *)\n"
    v += "From Coq Require Import List NArith.\nImport ListNotations.\n\n"
    v += "Inductive binop := " + " | ".join("B_" + n for n, _ in info["BinOp"]) + ".\n"
    v += "Inductive unop := " + " | ".join("U_" + n for n, _ in info["UnOp"]) + ".\n"
    v += "Definition binops_all : list binop := [" + "; ".join("B_" + n for n, _ in info["BinOp"]) + "].\n"
    v += "Definition unops_all : list unop := [" + "; ".join("U_" + n for n, _ in info["UnOp"]) + "].\n"
    v += "Definition binop_idx (o : binop) : nat := match o with " + " | ".join("B_%s => %d" % (n, i) for i, (n, _) in enumerate(info["BinOp"])) + " end.\n"
    v += "Definition unop_idx (o : unop) : nat := match o with " + " | ".join("U_%s => %d" % (n, i) for i, (n, _) in enumerate(info["UnOp"])) + " end.\n"
    v += "Definition binop_text (o : binop) : list N := (match o with " + " | ".join("B_%s => %s" % (n, codes(t)) for n, t in info["BinOp"]) + " end)%N.\n"
    v += "Definition unop_text (o : unop) : list N := (match o with " + " | ".join("U_%s => %s" % (n, codes(t)) for n, t in info["UnOp"]) + " end)%N.\n\n"
    v += "(* (level, right-associative?, members) in the order of the .pratt(( )) call *)\n"
    v += "Definition pratt_levels : list (nat * bool * list binop) :=\n  [ " + ";\n    ".join(
        "(%d, %s, [%s]) (* %s *)" % (lv, "true" if r else "false", "; ".join("B_" + x for x in mem), g) for lv, r, mem, g in info["levels"]) + " ].\n\n"
    v += "Definition unary_ops : list unop := [" + "; ".join("U_" + x for x in info["unary_ops"]) + "].\n"
    v += "Definition unary_nests : bool := %s. (* fn unary: expr | operator_unary expr *)\n" % ("true" if info["unary_nests"] else "false")
    v += "(* parser layers applied to `term`, innermost first *)\n"
    v += "Definition layer_order : list (list N) := ([" + "; ".join("%s (* %s *)" % (codes(n), n) for n in info["layers"]) + "])%N.\n"
    gen_write("GenPratt", v)
    return info

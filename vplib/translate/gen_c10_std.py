"""C10: std.prql (names, signatures) -> coq/Gen/GenC10Std.v.  The translator lives with its property
(vplib/props/c10_std.py); this module only makes it part of `generate_all`."""
from ..props.c10_std import generate  # noqa: F401

"""GenLiteral.v -- shim so that `all_gen` (setup / full-tree builds) regenerates the C08 table file too.
The translator itself is vplib/props/c08_gen.py (owned by property C08)."""
from ..props.c08_gen import generate  # noqa: F401

"""GenDateFormat.v: the per-dialect translation tables of chrono format items (sql/dialect.rs
`translate_chrono_item`): (Numeric kind, Pad) / Fixed kind -> the dialect's spelling, which of the known
treatments of a literal chunk the dialect uses, and exact-shape ties for the algorithms around them
(translate_prql_date_format, process_date_to_text of gen_expr.rs, the Space and default arms).
The strftime PARSER is chrono's (0.4, crates.io): it is modelled by hand in Model/DateFormat.v for the
specifiers the tables know and is part of the trusted base.  Fails closed."""
import re

from ..common import gen_write
from ..rustscan import ExtractError, mask, block_after, match_arms, match_brace
from .c02_util import read_code

DI = "prqlc/prqlc/src/sql/dialect.rs"
GE = "prqlc/prqlc/src/sql/gen_expr.rs"


def codes(s):
    return "[" + ";".join(str(ord(c)) for c in s) + "]"


def squeeze(s):
    return re.sub(r"\s+", "", s)


def nocomment(s):
    return re.sub(r"//[^\n]*", "", s)


def rust_str(lit):
    """value of a plain Rust string literal "..." with the escapes the tables use"""
    m = re.fullmatch(r'"((?:[^"\\]|\\.)*)"', lit)
    if not m:
        raise ExtractError("not a string literal: %r" % lit[:40])
    out, s, i = [], m.group(1), 0
    while i < len(s):
        if s[i] == "\\":
            c = s[i + 1]
            if c not in "\"'\\":
                raise ExtractError("unmodelled escape \\%s in %r" % (c, lit))
            out.append(c)
            i += 2
        else:
            out.append(s[i])
            i += 1
    return "".join(out)


# the known treatments of Item::Literal(literal), by their exact (comment-free, whitespace-free) text
LITERAL_VARIANTS = {
    # postgres, redshift: quote a chunk that has an alphanumeric character with "..."; else ' -> '' and " -> \"
    'ifliteral.chars().any(|c|c.is_ascii_alphanumeric()){format!("\\"{literal}\\"")}else{literal.replace(\'\\\'\',"\'\'").replace(\'"\',"\\\\\\"")}': 0,
    # mssql: quote with "..."; else " -> \" , ' -> "'" , % -> \%
    'ifliteral.chars().any(|c|c.is_ascii_alphanumeric()){format!("\\"{literal}\\"")}else{literal.replace(\'"\',"\\\\\\"").replace(\'\\\'\',"\\"\\\'\\"").replace(\'%\',"\\\\%")}': 1,
    # mysql, duckdb: ' -> '' and % -> %%
    'literal.replace(\'\\\'\',"\'\'").replace(\'%\',"%%")': 2,
    # after fixes/C02-N10 (the quote is escaped once, by translate_literal): postgres-like, mysql-like, clickhouse
    'ifliteral.chars().any(|c|c.is_ascii_alphanumeric()){format!("\\"{literal}\\"")}else{literal.replace(\'"\',"\\\\\\"")}': 4,
    'literal.replace(\'%\',"%%")': 5,
    'ifliteral.chars().any(|c|c.is_ascii_alphanumeric()){format!("\'{literal}\'")}else{literal.replace(\'\\\'\',"\'\'")}': 6,
    # clickhouse: quote with '...'; else ' -> \'\'
    'ifliteral.chars().any(|c|c.is_ascii_alphanumeric()){format!("\'{literal}\'")}else{literal.replace(\'\\\'\',"\\\\\'\\\\\'")}': 3,
}


def extract():
    src = read_code(DI)
    m = mask(src)
    info = {"dialects": [], "shape_errors": []}
    for mm in re.finditer(r"impl\s+DialectHandler\s+for\s+(\w+)Dialect\s*\{", m):
        a = mm.end() - 1
        b = match_brace(m, a)
        sub, msub = src[a:b], m[a:b]
        fm = re.search(r"\bfn\s+translate_chrono_item\b[^{]*\{", msub)
        if not fm:
            continue
        fs = fm.end() - 1
        fe = match_brace(msub, fs)
        body, mbody = sub[fs + 1:fe], msub[fs + 1:fe]
        mt = re.search(r"Ok\s*\(\s*match\s+item\s*\{", mbody)
        if not mt and re.fullmatch(r'Err\(Error::new_simple\("[^"]*",?\)\)', squeeze(body)):
            info.setdefault("rejecting", []).append(mm.group(1).lower())      # this dialect rejects every item
            continue
        if not mt or squeeze(mbody[:mt.start()]) != "":
            raise ExtractError("%s::translate_chrono_item is no longer `Ok(match item { .. })`" % mm.group(1))
        ma = mt.end() - 1
        mb = match_brace(mbody, ma)
        if squeeze(mbody[mb + 1:]) != ")":
            raise ExtractError("%s::translate_chrono_item: code after the match" % mm.group(1))
        table, lit_variant, space_ok, default_ok = [], None, False, False
        for pat, val in match_arms(body, mbody, ma + 1, mb):
            p = squeeze(nocomment(pat))
            v = nocomment(val).strip()
            mn = re.fullmatch(r"Item::Numeric\(Numeric::(\w+),Pad::(\w+)\)", p)
            mf = re.fullmatch(r"Item::Fixed\(Fixed::(\w+)\)", p)
            if mn or mf:
                ms = re.fullmatch(r'("(?:[^"\\]|\\.)*")\.to_string\(\)', v.rstrip(","))
                if not ms:
                    raise ExtractError("%s: unrecognised value %r" % (mm.group(1), v[:50]))
                key = ("Numeric:%s:%s" % mn.groups()) if mn else "Fixed:%s" % mf.group(1)
                if any(k == key for k, _ in table):
                    raise ExtractError("%s: %s matched twice" % (mm.group(1), key))
                table.append((key, rust_str(ms.group(1))))
            elif p == "Item::Literal(literal)":
                sq = squeeze(v).rstrip(",")
                if sq.startswith("{") and sq.endswith("}"):
                    sq = sq[1:-1]
                if sq not in LITERAL_VARIANTS:
                    raise ExtractError("%s: unknown treatment of Item::Literal: %s" % (mm.group(1), sq[:120]))
                lit_variant = LITERAL_VARIANTS[sq]
            elif p == "Item::Space(spaces)":
                space_ok = squeeze(v).rstrip(",") == "spaces.to_string()"
            elif p == "_":
                default_ok = squeeze(val) == '{returnErr(Error::new_simple("PRQLdoesn\'tsupportthisformatspecifier",))}'
            else:
                raise ExtractError("%s::translate_chrono_item: unmodelled arm %r" % (mm.group(1), pat[:60]))
        if lit_variant is None or not space_ok or not default_ok:
            raise ExtractError("%s::translate_chrono_item: Literal / Space / default arm missing or changed" % mm.group(1))
        info["dialects"].append((mm.group(1).lower(), table, lit_variant))
    if not info["dialects"]:
        raise ExtractError("no translate_chrono_item implementation found")
    # trait default: every other dialect rejects date formatting; the driver maps every item and joins
    ts, te = block_after(src, m, r"\btrait\s+DialectHandler\b")
    tq = squeeze(src[ts:te])
    if 'fntranslate_prql_date_format(&self,prql_date_format:&str)->Result<String>{Ok(StrftimeItems::new(prql_date_format).map(|item|self.translate_chrono_item(item)).collect::<Result<Vec<_>>>()?.join(""))}' not in re.sub(r"///[^\n]*", "", src[ts:te]).replace("\n", "").replace(" ", ""):
        info["shape_errors"].append("translate_prql_date_format no longer maps every chrono item and joins")
    if 'fntranslate_chrono_item(&self,_item:Item)->Result<String>{Err(Error::new_simple("Dateformattingisnotyetsupportedforthisdialect",))}' not in tq:
        info["shape_errors"].append("the default translate_chrono_item no longer rejects")
    g = read_code(GE)
    gm = mask(g)
    ps, pe = block_after(g, gm, r"\bfn\s+process_date_to_text\s*\([^{]*\{")
    pq = squeeze(g[ps:pe])
    want = ["ifleg", ]
    if not ("iflet[date_format_exp@rq::Expr{kind:rq::ExprKind::Literal(Literal::String(date_format)),..},col_expr]=args{" in pq
            and "ctx.dialect.translate_prql_date_format(date_format)" in pq
            and "args:vec![rq::Expr{kind:rq::ExprKind::Literal(Literal::String(" in pq
            and "col_expr.clone(),]" in pq
            and "Ok(super::operators::translate_operator_expr(expr,ctx)?.into_ast())" in pq):
        info["shape_errors"].append("process_date_to_text no longer has the modelled body")
    return info


def generate():
    try:
        info = extract()
    except ExtractError as ex:
        gen_write("GenDateFormat", "(* EXTRACTION FAILED: %s *)\nDefinition gen_date_format_extraction_failed := tt.\n" % str(ex).replace("*)", "* )"))
        return {"error": str(ex)}
    v = "(* generated from /repo/%s on every run by vplib/translate/gen_date_format.py -- do not edit *)\n" % DI
    v += "From Coq Require Import List NArith.\nImport ListNotations.\nLocal Open Scope N_scope.\n\n"
    v += "(* (dialect, [(chrono item, the dialect's spelling)], treatment of a literal chunk: 0 postgres-like, 1 mssql, 2 mysql-like, 3 clickhouse; 4 5 6 = 0 2 3 without the SQL pre-escaping of a quote) *)\n"
    v += "Definition date_tables : list (list N * list (list N * list N) * N) :=\n  [ "
    rows = []
    for name, table, lv in info["dialects"]:
        rows.append("(%s (* %s *),\n     [%s], %d)" % (codes(name), name, ";\n      ".join("(%s, %s) (* %s -> %s *)" % (codes(k), codes(s), k, s.replace("*)", "* )")) for k, s in table), lv))
    v += ";\n    ".join(rows) + " ].\n"
    for e in info["shape_errors"]:
        v += "(* CHANGED: %s *)\n" % e
    v += "Definition date_format_shapes_ok : bool := %s.\n" % ("false" if info["shape_errors"] else "true")
    gen_write("GenDateFormat", v)
    if info["shape_errors"]:
        info["error"] = "hand-modelled algorithm(s) changed text: " + "; ".join(info["shape_errors"])
    return info

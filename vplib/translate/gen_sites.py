"""GenSites.v (C12, C13): inventory of panic-capable sites of the library code of prqlc and prqlc-parser,
as counts per (file, kind), read from /repo on every run (Tie A), plus the normalised text of the
small functions that Model/RangeArith.v, Model/Span.v and Model/Checked.v restate by hand, the literal
arguments of Error::new_simple(..) and the variants of `enum Reason`.

kinds: unwrap  expect  panic  unreachable  todo  unimplemented  assert  debug_assert  index  index_lit
       arith (only inside the modelled functions: + - * on integers)

Excluded: #[cfg(test)] and #[cfg(prqlc_verif)] (verification hook) items and the files they declare, */test.rs, */tests/*, the CLI (prqlc/src/cli,
main.rs: not a library entry point; the harness builds prqlc without the `cli` feature).

`python3 -m vplib.translate.gen_sites --baseline` rewrites coq/Model/SitesBaseline.v from the current
/repo (done once, on the unchanged tree; the file is committed)."""
import os
import re
import sys

from ..common import gen_write, REPO, ROOT
from ..rustscan import ExtractError, mask, match_brace

BASES = ["prqlc/prqlc/src", "prqlc/prqlc-parser/src"]
KINDS = ["unwrap", "expect", "panic", "unreachable", "todo", "unimplemented", "assert", "debug_assert", "index", "index_lit", "arith"]

# (name, file, regex locating the item header in masked text, what to take: "fn" body)
MODELLED = [
    ("range_of_ranges", "prqlc/prqlc/src/sql/gen_expr.rs", r"fn\s+range_of_ranges\s*\("),
    ("unpack_as_int_literal", "prqlc/prqlc/src/sql/gen_expr.rs", r"fn\s+unpack_as_int_literal\s*\("),
    ("try_range_into_int", "prqlc/prqlc/src/sql/gen_expr.rs", r"fn\s+try_range_into_int\s*\("),
    ("or_map", "prqlc/prqlc/src/utils/mod.rs", r"impl<T>\s+OrMap<T>\s+for\s+Option<T>"),
    ("id_skip", "prqlc/prqlc/src/utils/id_gen.rs", r"fn\s+skip\s*\("),
    ("id_gen", "prqlc/prqlc/src/utils/id_gen.rs", r"pub\s+fn\s+gen\s*\(&mut self\)\s*->\s*T"),
    ("composed", "prqlc/prqlc/src/error_message.rs", r"pub\s+fn\s+composed\s*\("),
    ("compose_location", "prqlc/prqlc/src/error_message.rs", r"fn\s+compose_location\s*\("),
    ("source_tree_new", "prqlc/prqlc/src/lib.rs", r"pub\s+fn\s+new<I>\s*\("),
    ("convert_lexer_error", "prqlc/prqlc-parser/src/lexer/mod.rs", r"fn\s+convert_lexer_error\s*\("),
    ("parse_lr_to_pr", "prqlc/prqlc-parser/src/parser/mod.rs", r"pub\s+fn\s+parse_lr_to_pr\s*\("),
    ("span_add", "prqlc/prqlc-parser/src/span.rs", r"impl\s+Add<usize>\s+for\s+Span"),
    ("span_sub", "prqlc/prqlc-parser/src/span.rs", r"impl\s+Sub<usize>\s+for\s+Span"),
    ("interp_call", "prqlc/prqlc-parser/src/parser/expr.rs", r"fn\s+interpolation<'a,\s*I>\s*\("),
    ("reason_display", "prqlc/prqlc-parser/src/error.rs", r"impl\s+std::fmt::Display\s+for\s+Reason"),
]
# statement-level excerpts (anchored regex over whitespace-normalised source; group 1 is pinned)
EXCERPTS = [
    ("limit_offset", "prqlc/prqlc/src/sql/gen_query.rs",
     r"(let take = range_of_ranges\(ranges\)\?; let too_large = [^;]*; let offset = match take\.start \{[^{}]*\}; let limit = match take\.end \{[^{}]*\};)"),
    ("interp_rebase", "prqlc/prqlc-parser/src/parser/interpolation.rs",
     r"(let span = Span \{ start: .*?, end: .*?, source_id: span_base\.source_id, \};)"),
]


def codes(s):
    return "[" + ";".join(str(ord(c)) for c in s) + "]"


def strip_cfg_test(src, m):
    """blank out every item or statement that follows #[cfg(test)] or #[cfg(prqlc_verif)] (verification hooks are
    add-only code behind that cfg and are not part of the product): mod {...}, fn {...}, a bare block {...},
    `mod x;`, `use ...;`, `let ... ;`.
    Returns (src', masked', [names of modules declared `#[cfg(test)] mod x;`])"""
    out_s, out_m = list(src), list(m)
    declared = []
    n = len(m)
    for mm in re.finditer(r"#\[cfg\((test|prqlc_verif)\)\]", m):
        i = mm.end()
        while i < n and m[i].isspace():
            i += 1
        # further attributes on the same item
        while m.startswith("#[", i):
            i = match_brace(m, i + 1) + 1
            while i < n and m[i].isspace():
                i += 1
        if i >= n:
            raise ExtractError("#[cfg(..)] without an item")
        if m[i] == "{":
            end = match_brace(m, i) + 1
        elif re.match(r"(pub(\([^)]*\))?\s+)?(unsafe\s+|async\s+|const\s+)*(mod|fn|impl|struct|enum|trait)\b", m[i:i + 60]):
            j = i
            while j < n and m[j] not in ";{":
                j += 1
            if j >= n:
                raise ExtractError("#[cfg(..)] item without body")
            if m[j] == ";":
                end = j + 1
                d = re.search(r"\bmod\s+([A-Za-z_0-9]+)\s*$", m[i:j])
                if d and mm.group(1) == "test":
                    declared.append(d.group(1))
            else:
                end = match_brace(m, j) + 1
        else:
            # a statement / use declaration: up to the first ';' outside brackets
            depth = 0
            j = i
            while j < n:
                ch = m[j]
                if ch in "([{":
                    depth += 1
                elif ch in ")]}":
                    depth -= 1
                    if depth < 0:
                        raise ExtractError("#[cfg(..)] statement runs past its block")
                elif ch == ";" and depth == 0:
                    break
                j += 1
            if j >= n:
                raise ExtractError("#[cfg(..)] statement without ';'")
            end = j + 1
        for k in range(mm.start(), end):
            if out_s[k] != "\n":
                out_s[k] = " "
                out_m[k] = " "
    return "".join(out_s), "".join(out_m), declared


def list_files():
    files = []
    for base in BASES:
        root = os.path.join(REPO, base)
        if not os.path.isdir(root):
            raise ExtractError("missing source directory " + base)
        for dp, dn, fn in os.walk(root):
            dn.sort()
            for f in sorted(fn):
                if not f.endswith(".rs"):
                    continue
                rel = os.path.relpath(os.path.join(dp, f), REPO)
                files.append(rel)
    return files


def excluded(rel, test_decl):
    parts = rel.split("/")
    if "cli" in parts and rel.startswith("prqlc/prqlc/src/cli"):
        return True
    if rel == "prqlc/prqlc/src/main.rs":
        return True
    if parts[-1] in ("test.rs", "tests.rs") or "tests" in parts[:-1] or "test" in parts[:-1]:
        return True
    if rel in test_decl:
        return True
    return False


INT_LIT = re.compile(r"^\s*\d+\s*$")


def count_kinds(m):
    c = dict.fromkeys(KINDS, 0)
    c["unwrap"] = len(re.findall(r"\.\s*unwrap\s*\(\s*\)", m))
    c["expect"] = len(re.findall(r"\.\s*expect\s*\(", m))
    c["panic"] = len(re.findall(r"(?<![A-Za-z0-9_])panic!", m))
    c["unreachable"] = len(re.findall(r"(?<![A-Za-z0-9_])unreachable!", m))
    c["todo"] = len(re.findall(r"(?<![A-Za-z0-9_])todo!", m))
    c["unimplemented"] = len(re.findall(r"(?<![A-Za-z0-9_])unimplemented!", m))
    c["assert"] = len(re.findall(r"(?<![A-Za-z0-9_])assert(?:_eq|_ne)?!", m))
    c["debug_assert"] = len(re.findall(r"(?<![A-Za-z0-9_])debug_assert(?:_eq|_ne)?!", m))
    # index / slice expressions: '[' directly after an identifier character, ')' , ']' or '?'
    for mm in re.finditer(r"(?<=[A-Za-z0-9_\)\]\?])\[", m):
        i = mm.start()
        # a lifetime / generic / attribute / macro bracket never has an identifier char right before '['
        # except for macros `name![` (has '!' before) -- excluded by the look-behind.
        # `&'a [T]`, `-> [T; N]` have a space before '['.  Keyword before '[' (e.g. `in [`, `return [`): space too.
        try:
            j = match_brace(m, i)
        except ExtractError:
            raise ExtractError("unbalanced [ in index scan")
        inner = m[i + 1:j]
        if INT_LIT.match(inner):
            c["index_lit"] += 1
        else:
            c["index"] += 1
    return c


def arith_count(body_masked):
    """binary + - * between operands in a function body (masked): excludes `->`, `+=`/`-=` are counted
    (they overflow the same way), unary minus and deref `*x` after an operator/paren/comma are not."""
    t = body_masked
    n = 0
    for mm in re.finditer(r"[+\-*]", t):
        i = mm.start()
        ch = t[i]
        if ch == "-" and t[i + 1:i + 2] == ">":
            continue
        # operand on the left: identifier/number/closing bracket, ignoring spaces
        k = i - 1
        while k >= 0 and t[k] in " \n\t":
            k -= 1
        if k < 0 or not (t[k].isalnum() or t[k] in "_)]"):
            continue
        # `as *const`, `impl Add<..> for` etc. do not occur in the modelled functions; `&mut *x` excluded above
        n += 1
    return n


def norm(text):
    return re.sub(r"\s+", " ", text).strip()


def item_body(src, m, pattern, rel):
    mm = re.search(pattern, m)
    if not mm:
        raise ExtractError("%s: modelled item not found: %s" % (rel, pattern))
    i = m.find("{", mm.end() - 1)
    if i < 0:
        raise ExtractError("%s: no body after %s" % (rel, pattern))
    # skip a `where` clause / return type: the first '{' at bracket depth 0 after the header's ')'
    j = match_brace(m, i)
    return src[mm.start():j + 1], m[i:j + 1]


def extract():
    files = list_files()
    texts = {}
    test_decl = set()
    for rel in files:
        src = open(os.path.join(REPO, rel), encoding="utf-8").read()
        m = mask(src)
        s2, m2, declared = strip_cfg_test(src, m)
        d = os.path.dirname(rel)
        for name in declared:
            test_decl.add(os.path.join(d, name + ".rs"))
            test_decl.add(os.path.join(d, name, "mod.rs"))
        texts[rel] = (s2, m2)
    sites = []
    total = dict.fromkeys(KINDS, 0)
    kept = []
    for rel in files:
        if excluded(rel, test_decl):
            continue
        kept.append(rel)
        s2, m2 = texts[rel]
        c = count_kinds(m2)
        for k in KINDS:
            if k != "arith" and c[k]:
                sites.append((rel, k, c[k]))
                total[k] += c[k]
    if len(kept) < 40:
        raise ExtractError("only %d library source files found" % len(kept))
    modelled = []
    arith = {}
    for name, rel, pat in MODELLED:
        if rel not in texts:
            raise ExtractError("modelled function %s: file %s missing" % (name, rel))
        s2, m2 = texts[rel]
        text, body_m = item_body(s2, m2, pat, rel)
        # comments are not part of the pin: rebuild from masked text but keep string contents from src
        mm = re.search(pat, m2)
        i0 = mm.start()
        raw = s2[i0:i0 + len(text)]
        msk = m2[i0:i0 + len(text)]
        # drop comments: positions where masked is blank but raw is not, outside string literals
        keep = []
        instr = False
        for a, b in zip(raw, msk):
            if b == '"':
                instr = not instr
                keep.append(a)
            elif instr:
                keep.append(a)
            else:
                keep.append(b)
        modelled.append((name, norm("".join(keep))))
        arith[rel] = arith.get(rel, 0) + arith_count(body_m)
    for name, rel, pat in EXCERPTS:
        if rel not in texts:
            raise ExtractError("excerpt %s: file %s missing" % (name, rel))
        s2, m2 = texts[rel]
        # comment-free, whitespace-normalised text
        flat = norm(m2)
        mm = re.search(pat, flat)
        if not mm:
            raise ExtractError("excerpt %s no longer has the modelled shape in %s" % (name, rel))
        modelled.append((name, mm.group(1)))
        arith[rel] = arith.get(rel, 0) + arith_count(mm.group(1))
    for rel, n in sorted(arith.items()):
        if n:
            sites.append((rel, "arith", n))
            total["arith"] += n
    # Error::new_simple("literal") arguments (reason_nonempty) -- over kept files, original text
    lits = []
    for rel in kept:
        s2, m2 = texts[rel]
        for mm in re.finditer(r"new_simple\s*\(\s*\"", m2):
            q = mm.end() - 1
            e = m2.find('"', q + 1)
            if e < 0:
                raise ExtractError("unterminated literal in %s" % rel)
            lits.append((rel, s2[q + 1:e]))
    # enum Reason variants
    es, em = texts["prqlc/prqlc-parser/src/error.rs"]
    mm = re.search(r"pub\s+enum\s+Reason\s*\{", em)
    if not mm:
        raise ExtractError("enum Reason not found")
    j = match_brace(em, mm.end() - 1)
    body = em[mm.end():j]
    variants = []
    depth = 0
    for tok in re.finditer(r"[{}(),]|[A-Za-z_][A-Za-z0-9_]*", body):
        t = tok.group(0)
        if t in "{(":
            depth += 1
        elif t in "})":
            depth -= 1
        elif depth == 0 and t != "," and t[0].isupper():
            variants.append(t)
    if not variants:
        raise ExtractError("enum Reason: no variants")
    return {"sites": sorted(sites), "modelled": modelled, "total": total, "files": kept,
            "simple_literals": lits, "reason_variants": variants}


def render(info):
    v = "(* generated from /repo on every run by vplib/translate/gen_sites.py -- do not edit *)\n"
    v += "From Coq Require Import List NArith.\nImport ListNotations.\nLocal Open Scope N_scope.\n\n"
    v += "(* (file, kind, count) -- only non-zero counts; totals: %s *)\n" % ", ".join("%s=%d" % (k, info["total"][k]) for k in KINDS)
    v += "Definition sites : list (list N * list N * N) :=\n  [ " + ";\n    ".join(
        "(%s, %s, %d) (* %s %s *)" % (codes(f), codes(k), n, f, k) for f, k, n in info["sites"]) + " ].\n\n"
    v += "(* comment-free, whitespace-normalised text of the functions restated by hand in Model/ *)\n"
    v += "Definition modelled : list (list N * list N) :=\n  [ " + ";\n    ".join(
        "(%s, %s) (* %s *)" % (codes(n), codes(t), n) for n, t in info["modelled"]) + " ].\n\n"
    v += "Definition simple_literals : list (list N) :=\n  [ " + ";\n    ".join(
        "%s (* %s *)" % (codes(t), f) for f, t in info["simple_literals"]) + " ].\n\n"
    v += "Definition reason_variants : list (list N) :=\n  [ " + "; ".join(
        "%s (* %s *)" % (codes(t), t) for t in info["reason_variants"]) + " ].\n"
    return v


def generate():
    try:
        info = extract()
    except ExtractError as ex:
        gen_write("GenSites", "(* EXTRACTION FAILED: %s *)\nDefinition gen_sites_extraction_failed := tt.\n" % str(ex).replace("*)", "* )"))
        return {"error": str(ex)}
    gen_write("GenSites", render(info))
    return info


def write_baseline():
    info = extract()
    v = "(* C12: recorded baseline of the panic-site inventory and of the text of the hand-modelled functions,\n"
    v += "   taken from the unchanged tree by `python3 -m vplib.translate.gen_sites --baseline`.\n"
    v += "   Props/C12.v states  within GenSites.sites baseline = true  and  same_text GenSites.modelled modelled_expected = true:\n"
    v += "   a new unwrap/expect/panic!/todo!/assert!/index in library code, or an edit to a modelled function,\n"
    v += "   is an unproved obligation until this table is re-recorded (after re-reading the new code). *)\n"
    v += "From Coq Require Import List NArith Bool.\nFrom PV Require Import Lib.ListX.\nImport ListNotations.\nLocal Open Scope N_scope.\n\n"
    v += "Definition baseline : list (str * str * N) :=\n  [ " + ";\n    ".join(
        "(%s, %s, %d) (* %s %s *)" % (codes(f), codes(k), n, f, k) for f, k, n in info["sites"]) + " ].\n\n"
    v += "Definition modelled_expected : list (str * str) :=\n  [ " + ";\n    ".join(
        "(%s,\n     %s) (* %s: %s *)" % (codes(n), codes(t), n, t.replace("*)", "* )").replace("(*", "( *")) for n, t in info["modelled"]) + " ].\n\n"
    v += "Definition reason_variants_expected : list str :=\n  [ " + "; ".join(
        "%s (* %s *)" % (codes(t), t) for t in info["reason_variants"]) + " ].\n\n"
    v += BASELINE_FUNS
    open(os.path.join(ROOT, "coq", "Model", "SitesBaseline.v"), "w").write(v)
    print("baseline written: %d (file, kind) rows, totals %s" % (len(info["sites"]), info["total"]))


BASELINE_FUNS = """(* recorded count for (file, kind); 0 when absent *)
Fixpoint lookup (f k : str) (tbl : list (str * str * N)) : N :=
  match tbl with
  | [] => 0
  | (f', k', n) :: rest => if leqb f f' && leqb k k' then n else lookup f k rest
  end.

(* every current count is at most the recorded one *)
Definition within (sites base : list (str * str * N)) : bool :=
  forallb (fun e => match e with (f, k, n) => N.leb n (lookup f k base) end) sites.

(* rows whose count exceeds the baseline (for reporting) *)
Definition exceeding (sites base : list (str * str * N)) : list (str * str * N) :=
  filter (fun e => match e with (f, k, n) => negb (N.leb n (lookup f k base)) end) sites.

Fixpoint same_text (a b : list (str * str)) : bool :=
  match a, b with
  | [], [] => true
  | (n, t) :: a', (n', t') :: b' => leqb n n' && leqb t t' && same_text a' b'
  | _, _ => false
  end.

Fixpoint same_list (a b : list str) : bool :=
  match a, b with
  | [], [] => true
  | x :: a', y :: b' => leqb x y && same_list a' b'
  | _, _ => false
  end.

Definition nonempty_all (l : list str) : bool := forallb (fun s => match s with [] => false | _ => true end) l.
"""

if __name__ == "__main__":
    if "--baseline" in sys.argv:
        write_baseline()
    else:
        r = generate()
        print({k: (v if k in ("total", "error") else len(v)) for k, v in r.items()})

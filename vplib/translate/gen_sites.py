"""GenSites.v (C12, C13): inventory of panic-capable sites of the library code of prqlc and prqlc-parser,
as counts per (file, kind), read from /repo on every run (Tie A), plus the normalised text of the
small functions that Model/RangeArith.v, Model/Span.v and Model/Checked.v restate by hand, the literal
arguments of Error::new_simple(..) and the variants of `enum Reason`.

kinds: unwrap  expect  panic  unreachable  todo  unimplemented  assert  debug_assert  index  index_lit
       arith (only inside the modelled functions: + - * on integers)

Excluded: #[cfg(test)] and #[cfg(prqlc_verif)] (verification hook) items and the files they declare, */test.rs, */tests/*, the CLI (prqlc/src/cli,
main.rs: not a library entry point; the harness builds prqlc without the `cli` feature).

`python3 -m vplib.translate.gen_sites --baseline` rewrites coq/Model/SitesBaseline.v from the current
/repo (done once, on the unchanged tree; the file is committed)."""
import os
import re
import sys

from ..common import gen_write, REPO, ROOT
from ..rustscan import ExtractError, mask, match_brace

BASES = ["prqlc/prqlc/src", "prqlc/prqlc-parser/src"]
KINDS = ["unwrap", "expect", "panic", "unreachable", "todo", "unimplemented", "assert", "debug_assert", "index", "index_lit", "arith"]

# (name, file, regex locating the item header in masked text, what to take: "fn" body)
MODELLED = [
    ("range_of_ranges", "prqlc/prqlc/src/sql/gen_expr.rs", r"fn\s+range_of_ranges\s*\("),
    ("unpack_as_int_literal", "prqlc/prqlc/src/sql/gen_expr.rs", r"fn\s+unpack_as_int_literal\s*\("),
    ("try_range_into_int", "prqlc/prqlc/src/sql/gen_expr.rs", r"fn\s+try_range_into_int\s*\("),
    ("or_map", "prqlc/prqlc/src/utils/mod.rs", r"impl<T>\s+OrMap<T>\s+for\s+Option<T>"),
    ("id_skip", "prqlc/prqlc/src/utils/id_gen.rs", r"fn\s+skip\s*\("),
    ("id_gen", "prqlc/prqlc/src/utils/id_gen.rs", r"pub\s+fn\s+gen\s*\(&mut self\)\s*->\s*T"),
    ("composed", "prqlc/prqlc/src/error_message.rs", r"pub\s+fn\s+composed\s*\("),
    ("compose_location", "prqlc/prqlc/src/error_message.rs", r"fn\s+compose_location\s*\("),
    ("source_tree_new", "prqlc/prqlc/src/lib.rs", r"pub\s+fn\s+new<I>\s*\("),
    ("convert_lexer_error", "prqlc/prqlc-parser/src/lexer/mod.rs", r"fn\s+convert_lexer_error\s*\("),
    ("parse_lr_to_pr", "prqlc/prqlc-parser/src/parser/mod.rs", r"pub\s+fn\s+parse_lr_to_pr\s*\("),
    ("span_add", "prqlc/prqlc-parser/src/span.rs", r"impl\s+Add<usize>\s+for\s+Span"),
    ("span_sub", "prqlc/prqlc-parser/src/span.rs", r"impl\s+Sub<usize>\s+for\s+Span"),
    ("interp_call", "prqlc/prqlc-parser/src/parser/expr.rs", r"fn\s+interpolation<'a,\s*I>\s*\("),
    ("reason_display", "prqlc/prqlc-parser/src/error.rs", r"impl\s+std::fmt::Display\s+for\s+Reason"),
    # the id loader around IdGenerator::skip (Model/RangeArith.v id_load)
    ("id_load", "prqlc/prqlc/src/utils/id_gen.rs", r"pub\s+fn\s+load\s*\("),
    ("id_fold_cid", "prqlc/prqlc/src/utils/id_gen.rs", r"fn\s+fold_cid\s*\("),
    ("id_fold_table", "prqlc/prqlc/src/utils/id_gen.rs", r"fn\s+fold_table\s*\(&mut self"),
    # negation of a frame bound (Model/RangeArith.v parse_bound / frame_bounds)
    ("try_into_window_frame", "prqlc/prqlc/src/sql/gen_expr.rs", r"fn\s+try_into_window_frame\s*\("),
    # the formatter's width arithmetic (Model/WidthArith.v)
    ("write_or_expand", "prqlc/prqlc/src/codegen/mod.rs", r"fn\s+write_or_expand\s*\("),
    ("consume_width", "prqlc/prqlc/src/codegen/mod.rs", r"fn\s+consume_width\s*\("),
    ("reset_line", "prqlc/prqlc/src/codegen/mod.rs", r"fn\s+reset_line\s*\("),
    ("consume", "prqlc/prqlc/src/codegen/mod.rs", r"fn\s+consume<S"),
    ("write_opt_default", "prqlc/prqlc/src/codegen/mod.rs", r"impl\s+Default\s+for\s+WriteOpt"),
    ("write_opt_new_width", "prqlc/prqlc/src/codegen/mod.rs", r"fn\s+new_width\s*\("),
    ("pl_to_prql", "prqlc/prqlc/src/lib.rs", r"pub\s+fn\s+pl_to_prql\s*\("),
    # guards of the sites reviewed at the last re-baselining (Model/ReviewedSites.v)
    ("ident_prepend", "prqlc/prqlc-parser/src/parser/pr/ident.rs", r"pub\s+fn\s+prepend\s*\("),
    ("only_equals", "prqlc/prqlc/src/sql/pq/preprocess.rs", r"fn\s+only_equals\s*\("),
    ("used_behind", "prqlc/prqlc/src/sql/pq/preprocess.rs", r"fn\s+used_behind\s*\("),
    ("lookup_cid", "prqlc/prqlc/src/semantic/lowering.rs", r"fn\s+lookup_cid\s*\("),
    ("non_finite_literals", "prqlc/prqlc-parser/src/lexer/mod.rs", r"fn\s+non_finite_literals\s*\("),
    # closure application (Model/Closure.v)
    ("fold_function_inner", "prqlc/prqlc/src/semantic/resolver/functions.rs", r"fn\s+fold_function_inner\s*\("),
    ("materialize_function", "prqlc/prqlc/src/semantic/resolver/functions.rs", r"fn\s+materialize_function\s*\("),
    ("apply_args_to_closure", "prqlc/prqlc/src/semantic/resolver/functions.rs", r"pub\s+fn\s+apply_args_to_closure\s*\("),
    ("unpack", "prqlc/prqlc/src/semantic/resolver/transforms.rs", r"fn\s+unpack<const\s+P:\s*usize>\s*\("),
    ("desugar_pipeline", "prqlc/prqlc/src/semantic/ast_expand.rs", r"fn\s+desugar_pipeline\s*\("),
    # the layout protocol of the formatter (Model/FmtLayout.v)
    ("expr_write", "prqlc/prqlc/src/codegen/ast.rs", r"impl\s+WriteSource\s+for\s+pr::Expr\s*\{"),
    ("needs_parenthesis", "prqlc/prqlc/src/codegen/ast.rs", r"fn\s+needs_parenthesis\s*\("),
    ("write_within", "prqlc/prqlc/src/codegen/ast.rs", r"fn\s+write_within<T:\s*WriteSource>\s*\("),
    ("break_line_within_parenthesis", "prqlc/prqlc/src/codegen/ast.rs", r"fn\s+break_line_within_parenthesis<T:\s*WriteSource>\s*\("),
    ("write_between", "prqlc/prqlc/src/codegen/mod.rs", r"fn\s+write_between<S:\s*ToString>\s*\("),
    ("separated_exprs_write", "prqlc/prqlc/src/codegen/mod.rs", r"impl<T:\s*WriteSource>\s+WriteSource\s+for\s+SeparatedExprs<'_,\s*T>"),
    ("write_inline", "prqlc/prqlc/src/codegen/mod.rs", r"fn\s+write_inline\s*\("),
    ("stmts_write", "prqlc/prqlc/src/codegen/ast.rs", r"impl\s+WriteSource\s+for\s+Vec<pr::Stmt>"),
]
# pinned functions whose `+=` / `+` build Strings, not integers: not counted under `arith`
TEXT_BUILDING = {"expr_write", "break_line_within_parenthesis", "separated_exprs_write", "write_between", "stmts_write", "needs_parenthesis", "write_within"}
# statement-level excerpts (anchored regex over whitespace-normalised, comment-free source; group 1 is pinned;
# the last field says whether string literal contents are kept (True) or blanked (False) in the text searched)
EXCERPTS = [
    ("limit_offset", "prqlc/prqlc/src/sql/gen_query.rs",
     r"(let take = range_of_ranges\(ranges\)\.with_span_fallback\(take_span\)\?; let too_large = [^;]*; let offset = match take\.start \{[^{}]*\}; let limit = match take\.end \{[^{}]*\};)", False),
    ("interp_rebase", "prqlc/prqlc-parser/src/parser/interpolation.rs",
     r"(let span = Span \{ start: .*?, end: .*?, source_id: span_base\.source_id, \};)", False),
    ("static_eval_neg", "prqlc/prqlc/src/semantic/resolver/static_eval.rs",
     r"(\"std\.neg\" => match &args\[0\]\.kind \{ ExprKind::Literal\(Literal::Integer\(val\)\) => \{.*?\} ExprKind::Literal\(Literal::Float\(val\)\) => [^,]*, _ => \(\), \},)", True),
    ("names_relative", "prqlc/prqlc/src/semantic/resolver/names.rs",
     r"(let mut found = None; if ident\.name != \"\*\" \{ let path = self\.current_module_path\.clone\(\); for n in \(1\.\.=path\.len\(\)\)\.rev\(\) \{ let rel = ident\.clone\(\)\.prepend\(path\[\.\.n\]\.to_vec\(\)\); .*? break; \} \} \})", True),
    ("names_core_relative", "prqlc/prqlc/src/semantic/resolver/names.rs",
     r"(let path = self\.current_module_path\.clone\(\); let mut res = self\.resolve_ident_core\(&ident\.clone\(\)\.prepend\(path\.clone\(\)\), None\); for n in \(0\.\.path\.len\(\)\)\.rev\(\) \{ if res\.is_ok\(\) \{ break; \} res = self\.resolve_ident_core\(&ident\.clone\(\)\.prepend\(path\[\.\.n\]\.to_vec\(\)\), None\); \} res)", True),
    ("distinct_enumerate", "prqlc/prqlc/src/sql/pq/preprocess.rs",
     r"(for \(position, transform\) in pipeline\.clone\(\)\.into_iter\(\)\.enumerate\(\) \{)", False),
    ("distinct_rest_behind", "prqlc/prqlc/src/sql/pq/preprocess.rs",
     r"(&& only_these_used\(&pipeline\[position \+ 1\.\.\], &partition, ctx\);)", False),
    ("except_enumerate", "prqlc/prqlc/src/sql/pq/preprocess.rs",
     r"(let used_behind = used_behind\(&pipeline\); let mut res = Vec::with_capacity\(pipeline\.len\(\)\); for \(position, t\) in pipeline\.into_iter\(\)\.enumerate\(\) \{)", False),
    ("intersect_enumerate", "prqlc/prqlc/src/sql/pq/preprocess.rs",
     r"(let used_behind = used_behind\(&pipeline\); let mut res = Vec::with_capacity\(pipeline\.len\(\)\); let mut pipeline = pipeline\.into_iter\(\)\.enumerate\(\)\.peekable\(\); while let Some\(\(position, t\)\) = pipeline\.next\(\) \{)", False),
]


GUARD = "prqlc_verif"
HOOK_LINES = {}     # id(src) -> line numbers inside #[cfg(prqlc_verif)] items (filled by strip_cfg_test)


def codes(s):
    return "[" + ";".join(str(ord(c)) for c in s) + "]"


def strip_cfg_test(src, m):
    """blank out every item or statement that follows #[cfg(test)] or #[cfg(prqlc_verif)] (verification hooks are
    add-only code behind that cfg and are not part of the product): mod {...}, fn {...}, a bare block {...},
    `mod x;`, `use ...;`, `let ... ;`.
    Returns (src', masked', [names of modules declared `#[cfg(test)] mod x;`])"""
    out_s, out_m = list(src), list(m)
    declared = []
    hook_lines = set()
    n = len(m)
    for mm in re.finditer(r"#\[cfg\((test|prqlc_verif)\)\]", m):
        i = mm.end()
        while i < n and m[i].isspace():
            i += 1
        # further attributes on the same item
        while m.startswith("#[", i):
            i = match_brace(m, i + 1) + 1
            while i < n and m[i].isspace():
                i += 1
        if i >= n:
            raise ExtractError("#[cfg(..)] without an item")
        if m[i] == "{":
            end = match_brace(m, i) + 1
        elif re.match(r"(pub(\([^)]*\))?\s+)?(unsafe\s+|async\s+|const\s+)*(mod|fn|impl|struct|enum|trait)\b", m[i:i + 60]):
            j = i
            while j < n and m[j] not in ";{":
                j += 1
            if j >= n:
                raise ExtractError("#[cfg(..)] item without body")
            if m[j] == ";":
                end = j + 1
                d = re.search(r"\bmod\s+([A-Za-z_0-9]+)\s*$", m[i:j])
                if d and mm.group(1) == "test":
                    declared.append(d.group(1))
            else:
                end = match_brace(m, j) + 1
        elif re.match(r"(if|while|for|loop|match|unsafe)\b", m[i:i + 8]):
            # an expression statement that ends with its block (`#[cfg(..)] if c { .. } else { .. }`): there is no ';',
            # the statement is over at the closing brace of the last block of the if/else chain
            j = i
            while True:
                depth = 0
                while j < n and not (m[j] == "{" and depth == 0):
                    if m[j] in "([":
                        depth += 1
                    elif m[j] in ")]":
                        depth -= 1
                    elif m[j] in ";}" and depth <= 0:
                        raise ExtractError("#[cfg(..)] block statement without a block")
                    j += 1
                if j >= n:
                    raise ExtractError("#[cfg(..)] block statement without a block")
                j = match_brace(m, j) + 1
                k = j
                while k < n and m[k].isspace():
                    k += 1
                if re.match(r"else\b", m[k:k + 5]):
                    j = k + 4
                    continue
                break
            end = j
        else:
            # a statement / use declaration: up to the first ';' outside brackets
            depth = 0
            j = i
            while j < n:
                ch = m[j]
                if ch in "([{":
                    depth += 1
                elif ch in ")]}":
                    depth -= 1
                    if depth < 0:
                        raise ExtractError("#[cfg(..)] statement runs past its block")
                elif ch == ";" and depth == 0:
                    break
                j += 1
            if j >= n:
                raise ExtractError("#[cfg(..)] statement without ';'")
            end = j + 1
        if mm.group(1) == GUARD:
            hook_lines.update(range(src.count("\n", 0, mm.start()) + 1, src.count("\n", 0, end) + 2))
        for k in range(mm.start(), end):
            if out_s[k] != "\n":
                out_s[k] = " "
                out_m[k] = " "
    HOOK_LINES[id(src)] = hook_lines
    return "".join(out_s), "".join(out_m), declared


def list_files():
    files = []
    for base in BASES:
        root = os.path.join(REPO, base)
        if not os.path.isdir(root):
            raise ExtractError("missing source directory " + base)
        for dp, dn, fn in os.walk(root):
            dn.sort()
            for f in sorted(fn):
                if not f.endswith(".rs"):
                    continue
                rel = os.path.relpath(os.path.join(dp, f), REPO)
                files.append(rel)
    return files


def excluded(rel, test_decl):
    parts = rel.split("/")
    if "cli" in parts and rel.startswith("prqlc/prqlc/src/cli"):
        return True
    if rel == "prqlc/prqlc/src/main.rs":
        return True
    if parts[-1] in ("test.rs", "tests.rs") or "tests" in parts[:-1] or "test" in parts[:-1]:
        return True
    if rel in test_decl:
        return True
    return False


INT_LIT = re.compile(r"^\s*\d+\s*$")


def count_kinds(m):
    c = dict.fromkeys(KINDS, 0)
    c["unwrap"] = len(re.findall(r"\.\s*unwrap\s*\(\s*\)", m))
    c["expect"] = len(re.findall(r"\.\s*expect\s*\(", m))
    c["panic"] = len(re.findall(r"(?<![A-Za-z0-9_])panic!", m))
    c["unreachable"] = len(re.findall(r"(?<![A-Za-z0-9_])unreachable!", m))
    c["todo"] = len(re.findall(r"(?<![A-Za-z0-9_])todo!", m))
    c["unimplemented"] = len(re.findall(r"(?<![A-Za-z0-9_])unimplemented!", m))
    c["assert"] = len(re.findall(r"(?<![A-Za-z0-9_])assert(?:_eq|_ne)?!", m))
    c["debug_assert"] = len(re.findall(r"(?<![A-Za-z0-9_])debug_assert(?:_eq|_ne)?!", m))
    # index / slice expressions: '[' directly after an identifier character, ')' , ']' or '?'
    for mm in re.finditer(r"(?<=[A-Za-z0-9_\)\]\?])\[", m):
        i = mm.start()
        # a lifetime / generic / attribute / macro bracket never has an identifier char right before '['
        # except for macros `name![` (has '!' before) -- excluded by the look-behind.
        # `&'a [T]`, `-> [T; N]` have a space before '['.  Keyword before '[' (e.g. `in [`, `return [`): space too.
        try:
            j = match_brace(m, i)
        except ExtractError:
            raise ExtractError("unbalanced [ in index scan")
        inner = m[i + 1:j]
        if INT_LIT.match(inner):
            c["index_lit"] += 1
        else:
            c["index"] += 1
    return c


def arith_count(body_masked):
    """binary + - * between operands in a function body (masked): excludes `->`, `+=`/`-=` are counted
    (they overflow the same way), unary minus and deref `*x` after an operator/paren/comma are not."""
    t = body_masked
    n = 0
    for mm in re.finditer(r"[+\-*]", t):
        i = mm.start()
        ch = t[i]
        if ch == "-" and t[i + 1:i + 2] == ">":
            continue
        # operand on the left: identifier/number/closing bracket, ignoring spaces
        k = i - 1
        while k >= 0 and t[k] in " \n\t":
            k -= 1
        if k < 0 or not (t[k].isalnum() or t[k] in "_)]"):
            continue
        # `as *const`, `impl Add<..> for` etc. do not occur in the modelled functions; `&mut *x` excluded above
        n += 1
    return n


def comment_free(raw, msk):
    """raw text with comments blanked (as in the masked text) and string literal contents kept"""
    keep = []
    instr = False
    for a, b in zip(raw, msk):
        if b == '"':
            instr = not instr
            keep.append(a)
        elif instr:
            keep.append(a)
        else:
            keep.append(b)
    return "".join(keep)


def norm(text):
    return re.sub(r"\s+", " ", text).strip()


def item_body(src, m, pattern, rel):
    mm = re.search(pattern, m)
    if not mm:
        raise ExtractError("%s: modelled item not found: %s" % (rel, pattern))
    i = m.find("{", mm.end() - 1)
    if i < 0:
        raise ExtractError("%s: no body after %s" % (rel, pattern))
    # skip a `where` clause / return type: the first '{' at bracket depth 0 after the header's ')'
    j = match_brace(m, i)
    return src[mm.start():j + 1], m[i:j + 1]


def extract():
    files = list_files()
    texts = {}
    hook_lines = {}
    test_decl = set()
    for rel in files:
        src = open(os.path.join(REPO, rel), encoding="utf-8").read()
        m = mask(src)
        s2, m2, declared = strip_cfg_test(src, m)
        if HOOK_LINES.get(id(src)):
            hook_lines[rel] = sorted(HOOK_LINES[id(src)])
        HOOK_LINES.pop(id(src), None)
        d = os.path.dirname(rel)
        for name in declared:
            test_decl.add(os.path.join(d, name + ".rs"))
            test_decl.add(os.path.join(d, name, "mod.rs"))
        texts[rel] = (s2, m2)
    sites = []
    total = dict.fromkeys(KINDS, 0)
    kept = []
    for rel in files:
        if excluded(rel, test_decl):
            continue
        kept.append(rel)
        s2, m2 = texts[rel]
        c = count_kinds(m2)
        for k in KINDS:
            if k != "arith" and c[k]:
                sites.append((rel, k, c[k]))
                total[k] += c[k]
    if len(kept) < 40:
        raise ExtractError("only %d library source files found" % len(kept))
    modelled = []
    arith = {}
    for name, rel, pat in MODELLED:
        if rel not in texts:
            raise ExtractError("modelled function %s: file %s missing" % (name, rel))
        s2, m2 = texts[rel]
        text, body_m = item_body(s2, m2, pat, rel)
        # comments are not part of the pin: rebuild from masked text but keep string contents from src
        mm = re.search(pat, m2)
        i0 = mm.start()
        modelled.append((name, norm(comment_free(s2[i0:i0 + len(text)], m2[i0:i0 + len(text)]))))
        if name not in TEXT_BUILDING:
            arith[rel] = arith.get(rel, 0) + arith_count(body_m)
    for name, rel, pat, keep_strings in EXCERPTS:
        if rel not in texts:
            raise ExtractError("excerpt %s: file %s missing" % (name, rel))
        s2, m2 = texts[rel]
        # comment-free, whitespace-normalised text
        flat = norm(comment_free(s2, m2)) if keep_strings else norm(m2)
        found = list(re.finditer(pat, flat))
        if not found:
            raise ExtractError("excerpt %s no longer has the modelled shape in %s" % (name, rel))
        if len(found) > 1:
            raise ExtractError("excerpt %s is ambiguous in %s (%d matches)" % (name, rel, len(found)))
        modelled.append((name, found[0].group(1)))
        arith[rel] = arith.get(rel, 0) + arith_count(re.sub(r'"[^"]*"', '""', found[0].group(1)))
    for rel, n in sorted(arith.items()):
        if n:
            sites.append((rel, "arith", n))
            total["arith"] += n
    # Error::new_simple("literal") arguments (reason_nonempty) -- over kept files, original text
    lits = []
    for rel in kept:
        s2, m2 = texts[rel]
        for mm in re.finditer(r"new_simple\s*\(\s*\"", m2):
            q = mm.end() - 1
            e = m2.find('"', q + 1)
            if e < 0:
                raise ExtractError("unterminated literal in %s" % rel)
            lits.append((rel, s2[q + 1:e]))
    # enum Reason variants
    es, em = texts["prqlc/prqlc-parser/src/error.rs"]
    mm = re.search(r"pub\s+enum\s+Reason\s*\{", em)
    if not mm:
        raise ExtractError("enum Reason not found")
    j = match_brace(em, mm.end() - 1)
    body = em[mm.end():j]
    variants = []
    depth = 0
    for tok in re.finditer(r"[{}(),]|[A-Za-z_][A-Za-z0-9_]*", body):
        t = tok.group(0)
        if t in "{(":
            depth += 1
        elif t in "})":
            depth -= 1
        elif depth == 0 and t != "," and t[0].isupper():
            variants.append(t)
    if not variants:
        raise ExtractError("enum Reason: no variants")
    return {"sites": sorted(sites), "modelled": modelled, "total": total, "files": kept,
            "simple_literals": lits, "reason_variants": variants, "hook_lines": hook_lines}


def render(info):
    v = "(* generated from /repo on every run by vplib/translate/gen_sites.py -- do not edit *)\n"
    v += "From Coq Require Import List NArith.\nImport ListNotations.\nLocal Open Scope N_scope.\n\n"
    v += "(* (file, kind, count) -- only non-zero counts; totals: %s *)\n" % ", ".join("%s=%d" % (k, info["total"][k]) for k in KINDS)
    v += "Definition sites : list (list N * list N * N) :=\n  [ " + ";\n    ".join(
        "(%s, %s, %d) (* %s %s *)" % (codes(f), codes(k), n, f, k) for f, k, n in info["sites"]) + " ].\n\n"
    v += "(* comment-free, whitespace-normalised text of the functions restated by hand in Model/ *)\n"
    v += "Definition modelled : list (list N * list N) :=\n  [ " + ";\n    ".join(
        "(%s, %s) (* %s *)" % (codes(n), codes(t), n) for n, t in info["modelled"]) + " ].\n\n"
    v += "Definition simple_literals : list (list N) :=\n  [ " + ";\n    ".join(
        "%s (* %s *)" % (codes(t), f) for f, t in info["simple_literals"]) + " ].\n\n"
    v += "Definition reason_variants : list (list N) :=\n  [ " + "; ".join(
        "%s (* %s *)" % (codes(t), t) for t in info["reason_variants"]) + " ].\n"
    return v


def generate():
    try:
        info = extract()
    except ExtractError as ex:
        gen_write("GenSites", "(* EXTRACTION FAILED: %s *)\nDefinition gen_sites_extraction_failed := tt.\n" % str(ex).replace("*)", "* )"))
        return {"error": str(ex)}
    gen_write("GenSites", render(info))
    return info


def write_baseline():
    info = extract()
    v = "(* C12: recorded baseline of the panic-site inventory and of the text of the hand-modelled functions,\n"
    v += "   taken from the unchanged tree by `python3 -m vplib.translate.gen_sites --baseline`.\n"
    v += "   Props/C12.v states  within GenSites.sites baseline = true  and  same_text GenSites.modelled modelled_expected = true:\n"
    v += "   a new unwrap/expect/panic!/todo!/assert!/index in library code, or an edit to a modelled function,\n"
    v += "   is an unproved obligation until this table is re-recorded (after re-reading the new code). *)\n"
    v += REVIEW_NOTE
    v += "From Coq Require Import List NArith Bool.\nFrom PV Require Import Lib.ListX.\nImport ListNotations.\nLocal Open Scope N_scope.\n\n"
    v += "Definition baseline : list (str * str * N) :=\n  [ " + ";\n    ".join(
        "(%s, %s, %d) (* %s %s *)" % (codes(f), codes(k), n, f, k) for f, k, n in info["sites"]) + " ].\n\n"
    v += "Definition modelled_expected : list (str * str) :=\n  [ " + ";\n    ".join(
        "(%s,\n     %s) (* %s: %s *)" % (codes(n), codes(t), n, t.replace("*)", "* )").replace("(*", "( *")) for n, t in info["modelled"]) + " ].\n\n"
    v += "Definition reason_variants_expected : list str :=\n  [ " + "; ".join(
        "%s (* %s *)" % (codes(t), t) for t in info["reason_variants"]) + " ].\n\n"
    v += BASELINE_FUNS
    open(os.path.join(ROOT, "coq", "Model", "SitesBaseline.v"), "w").write(v)
    print("baseline written: %d (file, kind) rows, totals %s" % (len(info["sites"]), info["total"]))


REVIEW_NOTE = """(* REVIEW LOG of the last re-recording (/repo at 6c9d120, final; the last batch -- 66bf387 af135b8 17f83f2 cd7d532 and three hooks -- changes no count, the pin of pl_to_prql follows the fmt-calls hook de8cd03; the commits after 696874e -- 19e2c2a ae779df 3318626 2f7a440 819c36b d86674e -- change no (file, kind) count; the commits after d060422 -- fdf832c same_tokens guard in sql/mod.rs (a call into sqlparser's tokenizer, `.ok()`, no unwrap / index), 0301a92, f30b660, 79abe54, 696874e -- add no site).  Rows that grew since the
   baseline of b55902d, every added site read in its context; each is restated with its guard in Model/ReviewedSites.v
   and proved unreachable in Proofs/ReviewedSitesProofs.v (theorems c12_reviewed_* of Props/C12.v), its text pinned in
   `modelled_expected`:
     semantic/resolver/names.rs   index 0 -> 2, unwrap 11 -> 10   resolve_ident (d92afac added a loop with
                                  `rel.pop_front().1.unwrap()`; 7f02b48 rewrote both loops: no unwrap, the sites are the
                                  slices `path[..n]` with n in (1..=path.len()).rev() resp. (0..path.len()).rev(),
                                  so n <= path.len())      (c12_reviewed_names_relative, c12_reviewed_names_core_relative)
     sql/pq/preprocess.rs         index_lit 6 -> 8  `args[0]`, `args[1]` in only_equals (e9c9719) under
                                  `args.len() == 2`                                        (c12_reviewed_only_equals)
     sql/pq/preprocess.rs         index 10 -> 14    `pipeline[position + 1..]` in distinct (bc8ad7d), `res[position]`
                                  in used_behind, `used_behind[position]` in except and intersect (21d8d82): position
                                  comes from enumerate() over the pipeline the table was sized by
                                                                (c12_reviewed_rest_behind, c12_reviewed_table_at)
     sql/pq/preprocess.rs         unwrap 10 -> 11   `ctx.anchor.relation_instances.get(with).unwrap()` in
                                  only_these_used (bc8ad7d): `with` is the RIId of a SqlTransform::Join; RIIds are made
                                  only by AnchorContext::create_relation_instance, which inserts the instance, and
                                  nothing removes from relation_instances (same reliance as the three existing
                                  `relation_instances.get(..).unwrap()` of this file).  NOT modelled: an invariant of
                                  the anchor context, not a local guard.
     prqlc-parser lexer/mod.rs    index 2 -> 4      `source[..t.span.start]`, `source[..t.span.end]` in non_finite_literals
                                  (d8fda67): byte offsets of a token, i.e. character boundaries of the source the
                                  tokens were lexed from                                (c12_reviewed_token_prefix_chars)
     semantic/lowering.rs         unwrap 41 -> 40 (287b286 removed two, 7911778 added one): `name.as_single().unwrap()`
                                  in lookup_cid on a value built as RelationColumn::Single(Some(..)) a few lines
                                  above                                                    (c12_reviewed_lookup_cid_name)
   Rows that shrank: lowering.rs panic 1 -> 0 (7911778) and unwrap 40 -> 39 (e6f83f8), utils/id_gen.rs unwrap 1 -> 0
   (79f4a51), postprocess.rs index 7 -> 6, sql/gen_query.rs index_lit 2 -> 1 (1f1ce08), resolver/transforms.rs unwrap 50 -> 44
   (efa86fc, finding C12-N15), sql/gen_expr.rs unwrap 9 -> 8 (9c40b5a).  006e33c (lowering.rs), bb7bbd5 (std.sql.prql), 6cdd79f (generated column
   names) add no site.  arith 11 -> 13: the newly modelled functions (codegen/mod.rs consume -- reset_line's product is a
   saturating_mul since b4fb037 --, preprocess.rs `position + 1`), restated in Model/WidthArith.v / Model/ReviewedSites.v.
   Code under #[cfg(prqlc_verif)] (the verification hooks) is not scanned: it is not compiled in normal builds. *)
"""

BASELINE_FUNS = """(* recorded count for (file, kind); 0 when absent *)
Fixpoint lookup (f k : str) (tbl : list (str * str * N)) : N :=
  match tbl with
  | [] => 0
  | (f', k', n) :: rest => if leqb f f' && leqb k k' then n else lookup f k rest
  end.

(* every current count is at most the recorded one *)
Definition within (sites base : list (str * str * N)) : bool :=
  forallb (fun e => match e with (f, k, n) => N.leb n (lookup f k base) end) sites.

(* rows whose count exceeds the baseline (for reporting) *)
Definition exceeding (sites base : list (str * str * N)) : list (str * str * N) :=
  filter (fun e => match e with (f, k, n) => negb (N.leb n (lookup f k base)) end) sites.

Fixpoint same_text (a b : list (str * str)) : bool :=
  match a, b with
  | [], [] => true
  | (n, t) :: a', (n', t') :: b' => leqb n n' && leqb t t' && same_text a' b'
  | _, _ => false
  end.

Fixpoint same_list (a b : list str) : bool :=
  match a, b with
  | [], [] => true
  | x :: a', y :: b' => leqb x y && same_list a' b'
  | _, _ => false
  end.

Definition nonempty_all (l : list str) : bool := forallb (fun s => match s with [] => false | _ => true end) l.
"""

if __name__ == "__main__":
    if "--baseline" in sys.argv:
        write_baseline()
    else:
        r = generate()
        print({k: (v if k in ("total", "error") else len(v)) for k, v in r.items()})

"""GenUnpack.v (C12): the arity table of the special functions of the resolver.

 * from prqlc/prqlc/src/semantic/resolver/transforms.rs, `resolve_special_func`: every match arm `"name" [| "name2"] => { .. }`
   with the N of the `unpack::<N>(func.args)` it contains (0 when the arm does not unpack; at most one unpack per arm);
 * from prqlc/prqlc/src/semantic/std.prql: every declaration `let NAME = [func] PARAMS -> [<ty>] internal INAME` whose
   INAME does not start with `std.` (those become RqOperator without passing resolve_special_func), with the number of
   named parameters (`name:default`) and of positional parameters.

Model/Closure.v models what reaches `unpack`; Props/C12.v states over this table that N = named + positional for every
arm (`unpack_table_ok`).  Fails closed: any shape it does not recognise raises ExtractError and a stub is written."""
import re

from ..common import gen_write
from ..rustscan import ExtractError, mask, match_brace, read

TRANSFORMS = "prqlc/prqlc/src/semantic/resolver/transforms.rs"
STD = "prqlc/prqlc/src/semantic/std.prql"


def codes(s):
    return "[" + ";".join(str(ord(c)) for c in s) + "]"


def arms():
    src = read(TRANSFORMS)
    m = mask(src)
    mm = re.search(r"pub\s+fn\s+resolve_special_func\s*\(", m)
    if not mm:
        raise ExtractError("resolve_special_func not found")
    b0 = m.find("{", mm.end())
    b1 = match_brace(m, b0)
    hd = re.search(r"let\s+\(kind,\s*input\)\s*=\s*match\s+internal_name\.as_str\(\)\s*\{", m[b0:b1])
    if not hd:
        raise ExtractError("resolve_special_func: `match internal_name.as_str()` not found")
    i = b0 + hd.end() - 1
    j = match_brace(m, i)
    out = []
    k = i + 1
    seen_default = False
    while True:
        while k < j and m[k].isspace():
            k += 1
        if k >= j:
            break
        # pattern:  "a" | "b" =>   or   _ =>     (string contents are blanked in the masked text: read them from src)
        pm = re.match(r'((?:"[^"]*"\s*\|\s*)*"[^"]*"|_)\s*=>\s*\{', m[k:j])
        if not pm:
            raise ExtractError("resolve_special_func: unrecognised match arm at offset %d: %r" % (k, src[k:k + 60]))
        pat_src = src[k:k + len(pm.group(1))]
        body_open = k + pm.end() - 1
        body_close = match_brace(m, body_open)
        body = m[body_open:body_close + 1]
        ns = re.findall(r"unpack::<\s*(\d+)\s*>\s*\(\s*func\.args\s*\)", body)
        if len(re.findall(r"unpack\s*::", body)) != len(ns) or len(ns) > 1:
            raise ExtractError("resolve_special_func: arm %s has an unpack of an unknown shape" % pat_src)
        if pat_src == "_":
            seen_default = True
        else:
            for name in re.findall(r'"([^"]*)"', pat_src):
                out.append((name, int(ns[0]) if ns else 0, 1 if ns else 0))
        k = body_close + 1
        while k < j and (m[k].isspace() or m[k] == ","):
            k += 1
    if not seen_default or len(out) < 10:
        raise ExtractError("resolve_special_func: %d arms, default arm %s" % (len(out), seen_default))
    # unpack's definition: `func_args.try_into().expect(..)` on [Expr; P]
    um = re.search(r"fn\s+unpack<const\s+P:\s*usize>\(func_args:\s*Vec<Expr>\)\s*->\s*\[Expr;\s*P\]\s*\{\s*func_args\.try_into\(\)\.expect\(", m)
    if not um:
        raise ExtractError("fn unpack no longer has the modelled shape")
    # every unpack::<N> of the file must be inside an arm of resolve_special_func
    total_unpacks = len(re.findall(r"unpack::<", m))
    in_arms = len(re.findall(r"unpack::<", m[i:j]))
    if total_unpacks != in_arms:
        raise ExtractError("%d unpack::<N> call(s) outside resolve_special_func" % (total_unpacks - in_arms))
    return out


def strip_types(s):
    """remove `<...>` type annotations (nested) together with the whitespace in front of them"""
    out = []
    depth = 0
    for ch in s:
        if ch == "<":
            depth += 1
            while out and out[-1].isspace() and depth == 1:
                out.pop()
            continue
        if ch == ">" and depth:
            depth -= 1
            continue
        if depth == 0:
            out.append(ch)
    if depth:
        raise ExtractError("std.prql: unbalanced type annotation in %r" % s[:60])
    return "".join(out)


def std_decls():
    src = read(STD)
    # drop comments (`#` to end of line; no string literal of std.prql declarations contains `#`)
    lines = [re.sub(r"#.*$", "", l) for l in src.split("\n")]
    text = "\n".join(lines)
    out = []
    # one chunk per declaration: from a line starting with `let` to the next line starting with let / module / type / } / @
    starts = [mm.start() for mm in re.finditer(r"(?m)^\s*(?:let|module|type|\}|@)", text)] + [len(text)]
    for a, b in zip(starts, starts[1:]):
        chunk = text[a:b]
        if not re.match(r"\s*let\b", chunk):
            continue
        mm = re.fullmatch(r"\s*let\s+(`[^`]+`|[A-Za-z_][A-Za-z_0-9]*)\s*=\s*(.*?)->\s*(?:<[^>\n]*>\s*)?internal\s+([A-Za-z_][A-Za-z_0-9.]*)\s*", chunk, re.S)
        if not mm:
            if re.search(r"\binternal\s+[A-Za-z_]", chunk):
                raise ExtractError("std.prql: declaration with `internal` of an unknown shape: %r" % chunk.strip()[:80])
            continue
        name, params, iname = mm.group(1), mm.group(2), mm.group(3)
        if "->" in params:
            raise ExtractError("std.prql: declaration of %s has two arrows" % name)
        if iname.startswith("std."):
            continue
        p = strip_types(params)
        p = re.sub(r"^\s*func\b", "", p)
        toks = p.split()
        named = sum(1 for t in toks if ":" in t)
        for t in toks:
            if not re.fullmatch(r"(`[^`]+`|[A-Za-z_][A-Za-z_0-9.]*)(:\S+)?", t):
                raise ExtractError("std.prql: parameter %r of %s has an unknown shape" % (t, name))
        out.append((name.strip("`"), iname, named, len(toks) - named))
    if len(out) < 15:
        raise ExtractError("std.prql: only %d internal declarations found" % len(out))
    return out


def extract():
    return {"arms": arms(), "decls": std_decls()}


def render(info):
    v = "(* generated from /repo on every run by vplib/translate/gen_unpack.py -- do not edit *)\n"
    v += "From Coq Require Import List NArith.\nImport ListNotations.\nLocal Open Scope N_scope.\n\n"
    v += "(* (internal name, N of unpack::<N>, 1 if the arm unpacks) -- the arms of resolve_special_func *)\n"
    v += "Definition arms : list (list N * N * N) :=\n  [ " + ";\n    ".join(
        "(%s, %d, %d) (* %s *)" % (codes(n), k, u, n) for n, k, u in info["arms"]) + " ].\n\n"
    v += "(* (declared name, internal name, named parameters, positional parameters) -- std.prql, internal names outside std. *)\n"
    v += "Definition decls : list (list N * list N * N * N) :=\n  [ " + ";\n    ".join(
        "(%s, %s, %d, %d) (* %s -> internal %s *)" % (codes(n), codes(i), a, b, n, i) for n, i, a, b in info["decls"]) + " ].\n"
    return v


def generate():
    try:
        info = extract()
    except ExtractError as ex:
        gen_write("GenUnpack", "(* EXTRACTION FAILED: %s *)\nDefinition gen_unpack_extraction_failed := tt.\n" % str(ex).replace("*)", "* )"))
        return {"error": str(ex)}
    gen_write("GenUnpack", render(info))
    return info


if __name__ == "__main__":
    r = generate()
    if "error" in r:
        print(r)
    else:
        for a in r["arms"]:
            print("arm ", a)
        for d in r["decls"]:
            print("decl", d)

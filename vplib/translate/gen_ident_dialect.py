"""GenIdentDialect.v (Tie A for C09): per dialect, the identifier quote character and quoting style, read from
sql/dialect.rs on every run (trait defaults of DialectHandler, the overrides of each impl block, the
Dialect -> handler map), plus the name-generator prefixes of sql/pq/context.rs.  Fails closed."""
import re

from ..common import gen_write
from ..rustscan import ExtractError, read, mask, block_after, match_arms, enum_variants

DIALECT = "prqlc/prqlc/src/sql/dialect.rs"


def norm(t):
    return re.sub(r"\s+", " ", re.sub(r"//[^\n]*", "", t)).strip()


def fn_in(body, mbody, name):
    """normalised body text of `fn name(` inside a trait/impl block, or None"""
    mm = re.search(r"fn\s+%s\s*\(" % name, mbody)
    if not mm:
        return None
    s, e = block_after(body, mbody, r"fn\s+%s\s*\([^{]*\{" % name)
    return norm(body[s:e])


def quote_of(txt):
    mm = re.fullmatch(r"'(\\?.)'", txt)
    if not mm:
        raise ExtractError("ident_quote body is not a char literal: %r" % txt)
    c = mm.group(1)
    c = c[1] if c.startswith("\\") else c
    if c not in "\"'`":
        raise ExtractError("ident_quote %r: sqlparser's Ident Display only escapes for \" ' ` (and panics otherwise)" % c)
    return ord(c)


def style_of(txt):
    mm = re.fullmatch(r"IdentQuotingStyle::(AlwaysQuoted|ConditionallyQuoted)", txt)
    if not mm:
        raise ExtractError("ident_quoting_style body not understood: %r" % txt)
    return mm.group(1) == "AlwaysQuoted"


def extract():
    info = {}
    src = read(DIALECT)
    m = mask(src)
    variants = [v for v, _ in enum_variants(DIALECT, "Dialect")]
    sv = [v for v, _ in enum_variants(DIALECT, "IdentQuotingStyle")]
    if sorted(sv) != ["AlwaysQuoted", "ConditionallyQuoted"]:
        raise ExtractError("IdentQuotingStyle variants changed: %s" % sv)
    s, e = block_after(src, m, r"trait\s+DialectHandler\b[^{]*\{")
    tb, tm = src[s:e], m[s:e]
    dq = fn_in(tb, tm, "ident_quote")
    ds = fn_in(tb, tm, "ident_quoting_style")
    if dq is None or ds is None:
        raise ExtractError("DialectHandler: ident_quote / ident_quoting_style defaults missing")
    default = (quote_of(dq), style_of(ds))
    # handler map
    s, e = block_after(src, m, r"fn\s+handler\s*\(&self\)[^{]*\{")
    s2, e2 = block_after(src[s:e], m[s:e], r"match\s+self\s*\{")
    hmap = {}
    for pat, body in match_arms(src[s:e], m[s:e], s2, e2):
        mm = re.fullmatch(r"Box::new\((\w+)\)", body.strip())
        if not mm:
            raise ExtractError("handler(): arm body %r" % body)
        for alt in pat.split("|"):
            am = re.fullmatch(r"Dialect::(\w+)", alt.strip())
            if not am:
                raise ExtractError("handler(): arm pattern %r" % pat)
            hmap[am.group(1)] = mm.group(1)
    if sorted(hmap) != sorted(variants):
        raise ExtractError("handler() does not cover exactly the Dialect variants")
    per = {}
    for st in sorted(set(hmap.values())):
        if len(re.findall(r"impl\s+DialectHandler\s+for\s+%s\b" % st, m)) != 1:
            raise ExtractError("expected exactly one impl DialectHandler for %s" % st)
        s, e = block_after(src, m, r"impl\s+DialectHandler\s+for\s+%s\b[^{]*\{" % st)
        ib, im = src[s:e], m[s:e]
        q = fn_in(ib, im, "ident_quote")
        sty = fn_in(ib, im, "ident_quoting_style")
        per[st] = (quote_of(q) if q is not None else default[0], style_of(sty) if sty is not None else default[1])
    info["dialects"] = [(v.lower(), per[hmap[v]][0], per[hmap[v]][1]) for v in variants]

    ctx = read("prqlc/prqlc/src/sql/pq/context.rs")
    mc = re.search(r'col_name:\s*NameGenerator::new\("([^"]*)"\),\s*table_name:\s*NameGenerator::new\("([^"]*)"\),', ctx)
    if not mc:
        raise ExtractError("context.rs: NameGenerator prefixes not found")
    info["col_prefix"], info["table_prefix"] = mc.group(1), mc.group(2)
    ig = read("prqlc/prqlc/src/utils/id_gen.rs")
    mi = mask(ig)
    s, e = block_after(ig, mi, r"impl\s+NameGenerator\s*\{")
    if 'format!("{}{}", self.prefix, self.id.gen())' not in norm(ig[s:e]):
        raise ExtractError("NameGenerator::gen changed")
    s, e = block_after(ig, mi, r"pub\s+fn\s+gen\s*\(&mut self\)\s*->\s*T\s*\{")
    if norm(ig[s:e]) != "let id = self.next_id; self.next_id += 1; T::from(id)":
        raise ExtractError("IdGenerator::gen changed")
    # the three places where generated names are made collision-free
    pp = read("prqlc/prqlc/src/sql/pq/postprocess.rs")
    mp = mask(pp)
    s, e = block_after(pp, mp, r"fn\s+assign_names\b[^{]*\{")
    an = norm(pp[s:e])
    if ("let mut names = HashSet::new(); for decl in decls.sorted_by_key(|d| d.id.get()) { while decl.name.is_none() || names.contains(decl.name.as_ref().unwrap()) { "
            "decl.name = Some(Ident::from_name(ctx.anchor.table_name.gen())); } names.insert(decl.name.clone().unwrap()); }") not in an:
        raise ExtractError("assign_names: the regenerate-until-unused loop is no longer the modelled one")
    if norm("while name .as_ref() .map_or(true, |n| self.relation_instance_names.contains(n)) { *name = Some(self.ctx.anchor.table_name.gen()); } self.relation_instance_names.insert(name.clone().unwrap());") not in norm(re.sub(r"//[^\n]*", "", pp)):
        raise ExtractError("RelVarNameAssigner: the regenerate-until-unused loop is no longer the modelled one")
    an2 = norm(read("prqlc/prqlc/src/sql/pq/anchor.rs"))
    an2 = norm(read("prqlc/prqlc/src/sql/pq/anchor.rs"))      # norm() drops // comments
    if ("if let Some(new) = &mut new_name { if used_new_names.contains(new) { while used_new_names.contains(new) { *new = ctx.col_name.gen(); } ctx.column_names.insert(*old_cid, new.clone()); } "
            "used_new_names.insert(new.clone()); ctx.column_names.insert(new_cid, new.clone()); }") not in an2:
        raise ExtractError("anchor_split: the rename-on-duplicate step is no longer the modelled one")
    return info


def codes(s):
    return "[" + ";".join(str(ord(c)) for c in s) + "]"


def generate():
    try:
        info = extract()
    except ExtractError as ex:
        gen_write("GenIdentDialect", "(* EXTRACTION FAILED: %s *)\nDefinition gen_ident_dialect_extraction_failed := tt.\n" % str(ex).replace("*)", "* )"))
        return {"error": str(ex)}
    v = "(* generated from /repo on every run by vplib/translate/gen_ident_dialect.py -- do not edit *)\n"
    v += "From Coq Require Import List NArith.\nImport ListNotations.\nLocal Open Scope N_scope.\n\n"
    v += "(* (dialect name, ident_quote, ident_quoting_style = AlwaysQuoted) in the order of enum Dialect *)\n"
    v += "Definition ident_dialects : list (list N * N * bool) :=\n  [ " + ";\n    ".join(
        "(%s, %d, %s) (* %s *)" % (codes(n), q, "true" if a else "false", n) for n, q, a in info["dialects"]) + " ].\n\n"
    v += "Definition col_prefix : list N := %s. (* %s *)\n" % (codes(info["col_prefix"]), info["col_prefix"])
    v += "Definition table_prefix : list N := %s. (* %s *)\n" % (codes(info["table_prefix"]), info["table_prefix"])
    gen_write("GenIdentDialect", v)
    return info

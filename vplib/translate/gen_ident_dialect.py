"""GenIdentDialect.v (Tie A for C09): per dialect, the identifier quote character and quoting style, read from
sql/dialect.rs on every run (trait defaults of DialectHandler, the overrides of each impl block, the
Dialect -> handler map), plus the name-generator prefixes of sql/pq/context.rs.
Also pins, on code text with comments / string contents / #[cfg(prqlc_verif)] hook items blanked, every function that
Model/NameGen.v mirrors (gen_table_name, assign_names with the reserved set, RelVarNameAssigner, ensure_column_name, the
anchor_split step, translate_select_item's alias loop) and the inventory of all calls of the two generators.  Fails closed."""
import re

from ..common import gen_write
from ..rustscan import ExtractError, read, mask, block_after, match_arms, match_brace, enum_variants

DIALECT = "prqlc/prqlc/src/sql/dialect.rs"


def norm(t):
    return re.sub(r"\s+", " ", re.sub(r"//[^\n]*", "", t)).strip()


def fn_in(body, mbody, name):
    """normalised body text of `fn name(` inside a trait/impl block, or None"""
    mm = re.search(r"fn\s+%s\s*\(" % name, mbody)
    if not mm:
        return None
    s, e = block_after(body, mbody, r"fn\s+%s\s*\([^{]*\{" % name)
    return norm(body[s:e])


def hook_spans(m):
    """[(start, end)] of the #[cfg(prqlc_verif)] items (attribute + the statement / block / let-with-block it guards) in masked text"""
    spans = []
    for mm in re.finditer(r"#\[cfg\(prqlc_verif\)\]", m):
        k, depth, end = mm.end(), 0, None
        while k < len(m):
            ch = m[k]
            if ch == "{" and depth == 0:
                end = match_brace(m, k)
                j = end + 1
                while j < len(m) and m[j].isspace():
                    j += 1
                if j < len(m) and m[j] == ";":      # `let x = { ... };`
                    end = j
                break
            if ch in "([":
                depth += 1
            elif ch in ")]":
                depth -= 1
            elif ch == ";" and depth == 0:
                end = k
                break
            k += 1
        if end is None:
            raise ExtractError("unterminated cfg(prqlc_verif) item")
        spans.append((mm.start(), end + 1))
    return spans


def code(rel):
    """masked text (comments and string/char contents blanked) of a source file with the verification hooks blanked"""
    m = mask(read(rel))
    out = list(m)
    for a, b in hook_spans(m):
        for k in range(a, b):
            if out[k] != "\n":
                out[k] = " "
    return "".join(out)


def body_of(c, pattern):
    """normalised body of the first fn matching `pattern` in masked code"""
    s, e = block_after(c, c, pattern)
    return norm(c[s:e])


def quote_of(txt):
    mm = re.fullmatch(r"'(\\?.)'", txt)
    if not mm:
        raise ExtractError("ident_quote body is not a char literal: %r" % txt)
    c = mm.group(1)
    c = c[1] if c.startswith("\\") else c
    if c not in "\"'`":
        raise ExtractError("ident_quote %r: sqlparser's Ident Display only escapes for \" ' ` (and panics otherwise)" % c)
    return ord(c)


def style_of(txt):
    mm = re.fullmatch(r"IdentQuotingStyle::(AlwaysQuoted|ConditionallyQuoted)", txt)
    if not mm:
        raise ExtractError("ident_quoting_style body not understood: %r" % txt)
    return mm.group(1) == "AlwaysQuoted"


def extract():
    info = {}
    src = read(DIALECT)
    m = mask(src)
    variants = [v for v, _ in enum_variants(DIALECT, "Dialect")]
    sv = [v for v, _ in enum_variants(DIALECT, "IdentQuotingStyle")]
    if sorted(sv) != ["AlwaysQuoted", "ConditionallyQuoted"]:
        raise ExtractError("IdentQuotingStyle variants changed: %s" % sv)
    s, e = block_after(src, m, r"trait\s+DialectHandler\b[^{]*\{")
    tb, tm = src[s:e], m[s:e]
    dq = fn_in(tb, tm, "ident_quote")
    ds = fn_in(tb, tm, "ident_quoting_style")
    if dq is None or ds is None:
        raise ExtractError("DialectHandler: ident_quote / ident_quoting_style defaults missing")
    default = (quote_of(dq), style_of(ds))
    # handler map
    s, e = block_after(src, m, r"fn\s+handler\s*\(&self\)[^{]*\{")
    s2, e2 = block_after(src[s:e], m[s:e], r"match\s+self\s*\{")
    hmap = {}
    for pat, body in match_arms(src[s:e], m[s:e], s2, e2):
        mm = re.fullmatch(r"Box::new\((\w+)\)", body.strip())
        if not mm:
            raise ExtractError("handler(): arm body %r" % body)
        for alt in pat.split("|"):
            am = re.fullmatch(r"Dialect::(\w+)", alt.strip())
            if not am:
                raise ExtractError("handler(): arm pattern %r" % pat)
            hmap[am.group(1)] = mm.group(1)
    if sorted(hmap) != sorted(variants):
        raise ExtractError("handler() does not cover exactly the Dialect variants")
    per = {}
    for st in sorted(set(hmap.values())):
        if len(re.findall(r"impl\s+DialectHandler\s+for\s+%s\b" % st, m)) != 1:
            raise ExtractError("expected exactly one impl DialectHandler for %s" % st)
        s, e = block_after(src, m, r"impl\s+DialectHandler\s+for\s+%s\b[^{]*\{" % st)
        ib, im = src[s:e], m[s:e]
        q = fn_in(ib, im, "ident_quote")
        sty = fn_in(ib, im, "ident_quoting_style")
        per[st] = (quote_of(q) if q is not None else default[0], style_of(sty) if sty is not None else default[1])
    info["dialects"] = [(v.lower(), per[hmap[v]][0], per[hmap[v]][1]) for v in variants]

    # ---- name generation.  Everything below is pinned on code text with comments, string contents and
    # #[cfg(prqlc_verif)] hook items blanked (hooks are add-only logging, not part of the program).
    ctx = read("prqlc/prqlc/src/sql/pq/context.rs")
    mc = re.search(r'col_name:\s*NameGenerator::new\("([^"]*)"\),\s*table_name:\s*NameGenerator::new\("([^"]*)"\),\s*\.\.Default::default\(\)', ctx)
    if not mc:
        raise ExtractError("context.rs: NameGenerator prefixes not found (or the other fields are no longer defaulted)")
    info["col_prefix"], info["table_prefix"] = mc.group(1), mc.group(2)
    ig = read("prqlc/prqlc/src/utils/id_gen.rs")
    mi = mask(ig)
    s, e = block_after(ig, mi, r"impl\s+NameGenerator\s*\{")
    if 'format!("{}{}", self.prefix, self.id.gen())' not in norm(ig[s:e]):
        raise ExtractError("NameGenerator::gen changed")
    s, e = block_after(ig, mi, r"pub\s+fn\s+gen\s*\(&mut self\)\s*->\s*T\s*\{")
    if norm(ig[s:e]) != "let id = self.next_id; self.next_id += 1; T::from(id)":
        raise ExtractError("IdGenerator::gen changed")

    cx = code("prqlc/prqlc/src/sql/pq/context.rs")
    pp = code("prqlc/prqlc/src/sql/pq/postprocess.rs")
    an = code("prqlc/prqlc/src/sql/pq/anchor.rs")
    ge = code("prqlc/prqlc/src/sql/gen_expr.rs")

    # (1) AnchorContext::gen_table_name (99a89d3): Model/NameGen.v gen_unreserved
    GEN_UNRESERVED = "loop { let name = self.table_name.gen(); if !self.reserved_table_names.contains(&name.to_lowercase()) { return name; } }"
    if body_of(cx, r"pub\s+fn\s+gen_table_name\s*\(&mut self\)\s*->\s*String\s*\{") != GEN_UNRESERVED:
        raise ExtractError("AnchorContext::gen_table_name is no longer the modelled loop")
    if not re.search(r"pub reserved_table_names: HashSet<String>,", cx):
        raise ExtractError("AnchorContext::reserved_table_names is no longer a HashSet<String>")
    # (2) assign_names: the reserved set, the closure (same loop as (1)) and the regenerate-until-unused loop
    ASSIGN = ("let user_names: Vec<String> = (ctx.anchor.table_decls.values()) .filter_map(|d| d.name.as_ref().map(|i| i.name.to_lowercase())) .chain( "
              "(ctx.anchor.relation_instances.values()) .filter_map(|i| i.table_ref.name.as_ref().map(|n| n.to_lowercase())), ) .collect(); "
              "ctx.anchor.reserved_table_names.extend(user_names); "
              "let mut table_name = std::mem::take(&mut ctx.anchor.table_name); let reserved = ctx.anchor.reserved_table_names.clone(); "
              "let mut gen_name = || loop { let name = table_name.gen(); if !reserved.contains(&name.to_lowercase()) { break name; } }; "
              "let decls = ctx.anchor.table_decls.values_mut(); let mut names = HashSet::new(); "
              "for decl in decls.sorted_by_key(|d| d.id.get()) { while decl.name.is_none() || names.contains(decl.name.as_ref().unwrap()) { "
              "decl.name = Some(Ident::from_name(gen_name())); } names.insert(decl.name.clone().unwrap()); } "
              "ctx.anchor.table_name = table_name; "
              "RelVarNameAssigner { ctx, relation_instance_names: Default::default(), } .fold_sql_query(query) .unwrap()")
    if body_of(pp, r"fn\s+assign_names\b[^{]*\{") != ASSIGN:
        raise ExtractError("assign_names: reserved names / the regenerate-until-unused loop are no longer the modelled ones")
    # (3) RelVarNameAssigner::fold_rel: alias inferred from the table name, then the same loop with (1) inlined
    RELVAR = ("if name.is_none() { *name = match &rel.kind { RelationExprKind::Ref(tid) => { let table_decl = &self.ctx.anchor.table_decls[tid]; "
              "table_decl.name.as_ref().map(|i| i.name.clone()) } _ => None, }; } "
              "while name .as_ref() .map_or(true, |n| self.relation_instance_names.contains(n)) { "
              "*name = Some(loop { let candidate = self.ctx.anchor.table_name.gen(); let reserved = &self.ctx.anchor.reserved_table_names; "
              "if !reserved.contains(&candidate.to_lowercase()) { break candidate; } }); } "
              "self.relation_instance_names.insert(name.clone().unwrap());")
    if RELVAR not in norm(pp):
        raise ExtractError("RelVarNameAssigner: the regenerate-until-unused loop is no longer the modelled one")
    if "let outer_names = std::mem::take(&mut self.relation_instance_names); let res = self.fold_sql_transforms(pipeline)?; self.relation_instance_names = outer_names;" not in norm(pp):
        raise ExtractError("RelVarNameAssigner: the scope of relation_instance_names (one atomic pipeline) changed")
    # The repair of F33b (6cdd79f) gives the column generator a reserved set like the table generator's.  Only the repaired
    # shape is accepted (GenIdentDialect.col_names_reserved = true, an obligation of Props/C09.v); the unrepaired shape is still
    # described below so that the error message says what is missing.
    repaired = re.search(r"\breserved_column_names\b", cx) is not None
    info["col_names_reserved"] = repaired
    if not repaired:
        raise ExtractError("the column-name generator no longer skips reserved column names (repair 6cdd79f of finding F33b is gone)")
    ENSURE_HEAD = ("let decl = &self.column_decls[&cid]; if let ColumnDecl::RelationColumn(_, _, col) = decl { match col { "
                   "RelationColumn::Single(Some(name)) => { let entry = self.column_names.entry(cid); return Some(entry.or_insert_with(|| name.clone())); } "
                   "RelationColumn::Wildcard => return None, _ => {} } } ")
    # (4) ensure_column_name: Model/NameGen.v ensure_column_name (generation without a look at the names in use; made unique at (5) / (6))
    ENSURE = ENSURE_HEAD + ("if !self.column_names.contains_key(&cid) { let name = self.gen_col_name(); self.column_names.insert(cid, name); } self.column_names.get(&cid)"
                            if repaired else "let entry = self.column_names.entry(cid); Some(entry.or_insert_with(|| self.col_name.gen()))")
    if body_of(cx, r"fn\s+ensure_column_name\b[^{]*\{") != ENSURE:
        raise ExtractError("ensure_column_name is no longer the modelled function")
    GEN = "ctx.gen_col_name()" if repaired else "ctx.col_name.gen()"
    # (5) anchor_split: per column of the split (75c6718)
    SPLIT = ("let old_name = ctx.ensure_column_name(*old_cid).cloned(); let mut new_name = old_name; "
             "if let Some(new) = &mut new_name { if used_new_names.contains(new) { while used_new_names.contains(new) { *new = %s; } "
             "ctx.column_names.insert(*old_cid, new.clone()); } used_new_names.insert(new.clone()); ctx.column_names.insert(new_cid, new.clone()); }" % GEN)
    if SPLIT not in norm(an) or "let mut used_new_names = HashSet::new(); for old_cid in cols_at_split {" not in norm(an):
        raise ExtractError("anchor_split: the rename-on-duplicate step is no longer the modelled one")
    # (6) translate_select_item: the alias of an unnamed column (755de8e)
    GENA = "ctx.anchor.gen_col_name()" if repaired else "ctx.anchor.col_name.gen()"
    ALIAS = ("let ident = expected.cloned().unwrap_or_else(|| { let mut name = %s; "
             "while ctx.anchor.column_names.values().any(|n| *n == name) { name = %s; } name });" % (GENA, GENA))
    if ALIAS not in norm(ge):
        raise ExtractError("translate_select_item: the generated alias is no longer regenerated until unused")
    if repaired:
        # (6b) the reserved column names: gen_col_name (same loop as (1)), and what QueryLoader puts into the set: the columns
        # of every table reference and the declared columns of every relation of the RQ, lower-cased
        if body_of(cx, r"pub\s+fn\s+gen_col_name\s*\(&mut self\)\s*->\s*String\s*\{") != \
                "loop { let name = self.col_name.gen(); if !self.reserved_column_names.contains(&name.to_lowercase()) { return name; } }":
            raise ExtractError("AnchorContext::gen_col_name is not the modelled loop")
        if body_of(cx, r"fn\s+reserve_column_name\b[^{]*\{") != "if let RelationColumn::Single(Some(name)) = col { self.reserved_column_names.insert(name.to_lowercase()); }":
            raise ExtractError("AnchorContext::reserve_column_name changed")
        s0 = cx.find("impl RqFold for QueryLoader")
        if s0 < 0:
            raise ExtractError("impl RqFold for QueryLoader not found")
        s, e = block_after(cx[s0:], cx[s0:], r"impl RqFold for QueryLoader\s*\{")
        if norm(cx[s0:][s:e]) != ("fn fold_compute(&mut self, compute: Compute) -> Result<Compute> { self.context.register_compute(compute.clone()); Ok(compute) } "
                                   "fn fold_relation(&mut self, relation: Relation) -> Result<Relation> { for col in &relation.columns { self.context.reserve_column_name(col); } fold_relation(self, relation) } "
                                   "fn fold_table_ref(&mut self, table_ref: TableRef) -> Result<TableRef> { for (col, _) in &table_ref.columns { self.context.reserve_column_name(col); } Ok(table_ref) }"):
            raise ExtractError("QueryLoader no longer reserves the column names of every relation and table reference")
    # (7) inventory: no other place draws from the two generators or touches the reserved set
    sites = {}
    import os
    from ..common import REPO
    root = os.path.join(REPO, "prqlc/prqlc/src")
    for dp, _, fs in os.walk(root):
        for f in sorted(fs):
            if not f.endswith(".rs"):
                continue
            rel = os.path.relpath(os.path.join(dp, f), REPO)
            c = code(rel)
            for what in (r"\bcol_name\s*\.\s*gen\s*\(", r"\btable_name\s*\.\s*gen\s*\(", r"\bgen_table_name\s*\(", r"\bgen_col_name\s*\(", r"\breserved_table_names\b",
                         r"\breserved_column_names\b", r"\breserve_column_name\s*\(", r"NameGenerator::new\s*\("):
                k = len(re.findall(what, c))
                if k:
                    sites[(rel[len("prqlc/prqlc/src/"):], what)] = k
    CG, TG = r"\bcol_name\s*\.\s*gen\s*\(", r"\btable_name\s*\.\s*gen\s*\("
    EXPECT = {
        ("sql/pq/context.rs", TG): 1, ("sql/pq/postprocess.rs", TG): 2,
        ("sql/pq/context.rs", r"\bgen_table_name\s*\("): 1, ("sql/gen_query.rs", r"\bgen_table_name\s*\("): 1,
        ("sql/pq/context.rs", r"\breserved_table_names\b"): 2, ("sql/pq/postprocess.rs", r"\breserved_table_names\b"): 3,
        ("sql/pq/context.rs", r"NameGenerator::new\s*\("): 2,
    }
    if repaired:
        EXPECT.update({("sql/pq/context.rs", CG): 1,                                     # inside gen_col_name only
                       ("sql/pq/context.rs", r"\bgen_col_name\s*\("): 2, ("sql/pq/anchor.rs", r"\bgen_col_name\s*\("): 1, ("sql/gen_expr.rs", r"\bgen_col_name\s*\("): 2,
                       ("sql/pq/context.rs", r"\breserved_column_names\b"): 3, ("sql/pq/context.rs", r"\breserve_column_name\s*\("): 3})
    else:
        EXPECT.update({("sql/pq/context.rs", CG): 1, ("sql/pq/anchor.rs", CG): 1, ("sql/gen_expr.rs", CG): 2})
    if sites != EXPECT:
        diff = sorted(set(sites.items()) ^ set(EXPECT.items()))
        raise ExtractError("name-generation call sites changed: %s" % diff)
    return info


def codes(s):
    return "[" + ";".join(str(ord(c)) for c in s) + "]"


def generate():
    try:
        info = extract()
    except ExtractError as ex:
        gen_write("GenIdentDialect", "(* EXTRACTION FAILED: %s *)\nDefinition gen_ident_dialect_extraction_failed := tt.\n" % str(ex).replace("*)", "* )"))
        return {"error": str(ex)}
    v = "(* generated from /repo on every run by vplib/translate/gen_ident_dialect.py -- do not edit *)\n"
    v += "From Coq Require Import List NArith.\nImport ListNotations.\nLocal Open Scope N_scope.\n\n"
    v += "(* (dialect name, ident_quote, ident_quoting_style = AlwaysQuoted) in the order of enum Dialect *)\n"
    v += "Definition ident_dialects : list (list N * N * bool) :=\n  [ " + ";\n    ".join(
        "(%s, %d, %s) (* %s *)" % (codes(n), q, "true" if a else "false", n) for n, q, a in info["dialects"]) + " ].\n\n"
    v += "Definition col_prefix : list N := %s. (* %s *)\n" % (codes(info["col_prefix"]), info["col_prefix"])
    v += "Definition table_prefix : list N := %s. (* %s *)\n" % (codes(info["table_prefix"]), info["table_prefix"])
    v += "(* does the column-name generator skip reserved column names (repair of F33b in the source)? *)\n"
    v += "Definition col_names_reserved : bool := %s.\n" % ("true" if info["col_names_reserved"] else "false")
    gen_write("GenIdentDialect", v)
    return info

"""GenWindow.v (C04, Tie A): what the source says NOW about window frames, regenerated on every run.

  std_fns              sql/std.sql.prql through prqlc's own parser (harness `parsefile`): per dialect module and
                       function, the annotations window_frame / coalesce
  window_defaults      semantic/std.prql: defaults of `window`'s named parameters rows/range/expanding/rolling
  code_frame_of        semantic/resolver/transforms.rs, "window": the loop that rejects empty ranges (which arguments, the exempt
                       spelling, the message), the if/else chain -> (kind,start,end) and range_is_empty
  code_default_frame,  sql/gen_expr.rs translate_windowed / try_into_window_frame: the frame that is elided, the
  code_parse_bound,    elision condition, the bound arms (0 / 1.. / _) and the unbounded bounds
  code_emit_frame
  complexity rules     sql/pq/anchor.rs: Complexity order, infer_complexity, can_materialize, what each consumer allows
  code_scope_policy,   semantic/resolver/flatten.rs: how the partition / window fields are saved, overwritten and written back
  propagation shapes   around group bodies, window bodies and relational arguments; semantic/lowering.rs: partition/frame/sort
                       reach Compute.window
Each extractor is a small scanner over one function; anything that does not have the modelled shape raises
ExtractError and a stub is written, so the theorems of Props/C04.v that mention GenWindow stop compiling."""
import json
import os
import re

from ..common import gen_write, harness1, REPO
from ..rustscan import ExtractError, block_after, enum_variants, mask, match_arms, match_brace, read, split_top, strip_comments

STD_SQL = "prqlc/prqlc/src/sql/std.sql.prql"
STD = "prqlc/prqlc/src/semantic/std.prql"
TRANSFORMS = "prqlc/prqlc/src/semantic/resolver/transforms.rs"
GEN_EXPR = "prqlc/prqlc/src/sql/gen_expr.rs"
ANCHOR = "prqlc/prqlc/src/sql/pq/anchor.rs"
FLATTEN = "prqlc/prqlc/src/semantic/resolver/flatten.rs"
LOWERING = "prqlc/prqlc/src/semantic/lowering.rs"
PREPROCESS = "prqlc/prqlc/src/sql/pq/preprocess.rs"
GENERIC = "prqlc/prqlc/src/ir/generic.rs"
PARSER_GENERIC = "prqlc/prqlc-parser/src/generic.rs"
OPERATORS = "prqlc/prqlc/src/sql/operators.rs"


def codes(s):
    return "[" + ";".join(str(ord(c)) for c in s) + "]%N"


def norm(s):
    return re.sub(r"\s+", " ", strip_comments(s)).strip()


def fn_text(rel, name):
    src = read(rel)
    m = mask(src)
    s, e = block_after(src, m, r"fn\s+%s\s*(?:<[^>]*>)?\s*\([^{;]*\{" % re.escape(name))
    return norm(src[s:e])


# ----------------------------------------------------------------------------- std.sql.prql / std.prql
def walk_std_sql(stmts, module, prefix, out):
    for st in stmts:
        if "ModuleDef" in st:
            md = st["ModuleDef"]
            if module == "" and prefix == "" and md["name"] not in ("math", "text", "date"):
                walk_std_sql(md["stmts"], md["name"], "", out)
            else:
                walk_std_sql(md["stmts"], module, prefix + md["name"] + ".", out)
            continue
        if "VarDef" not in st:
            raise ExtractError("unexpected statement kind in std.sql.prql: %s" % list(st.keys()))
        vd = st["VarDef"]
        anns = st.get("annotations", [])
        wf, co = False, None
        if len(anns) == 1:       # find_operator_impl: exactly_one().ok()
            tup = anns[0]["expr"].get("Tuple")
            if tup is None:
                raise ExtractError("annotation of %s is not a tuple" % vd["name"])
            for item in tup:
                lit = item.get("Literal")
                if item.get("alias") == "window_frame" and lit is not None and "Boolean" in lit:
                    wf = bool(lit["Boolean"])
                if item.get("alias") == "coalesce" and lit is not None and "String" in lit:
                    co = lit["String"]
        out.append({"module": module, "name": prefix + vd["name"], "window_frame": wf, "coalesce": co})


def extract_std():
    r = harness1("parsefile", {"path": os.path.join(REPO, STD_SQL)})
    if "ok" not in r:
        raise ExtractError("prqlc cannot parse std.sql.prql: %s" % json.dumps(r)[:300])
    fns = []
    walk_std_sql(r["ok"]["stmts"], "", "", fns)
    if not fns:
        raise ExtractError("std.sql.prql: no functions found")
    # the annotation lookup itself
    t = fn_text(OPERATORS, "find_operator_impl")
    if not re.search(r'pluck_annotation\(&mut annotation, "window_frame"\) \.and_then\(\|literal\| literal\.into_boolean\(\)\.ok\(\)\) \.unwrap_or_default\(\)', t):
        raise ExtractError("find_operator_impl: window_frame annotation lookup no longer has the modelled shape")
    if not re.search(r"dialect_module.*?(?:or_else|\.or\(|if let|match)", t) and "dialect" not in t:
        raise ExtractError("find_operator_impl: dialect-module-then-root lookup not recognised")
    r = harness1("parsefile", {"path": os.path.join(REPO, STD)})
    if "ok" not in r:
        raise ExtractError("prqlc cannot parse std.prql: %s" % json.dumps(r)[:300])
    win = [st["VarDef"] for st in r["ok"]["stmts"] if "VarDef" in st and st["VarDef"].get("name") == "window"]
    if len(win) != 1:
        raise ExtractError("std.prql: expected exactly one `window`")
    fn = win[0]["value"].get("Func")
    if fn is None or fn["body"].get("Internal") != "window":
        raise ExtractError("std.prql: window is no longer `internal window`")
    named = {p["name"]: p.get("default_value") for p in fn.get("named_params", [])}
    if sorted(named) != ["expanding", "range", "rolling", "rows"] or [p["name"] for p in fn.get("params", [])] != ["pipeline", "tbl"]:
        raise ExtractError("std.prql: window's parameters are no longer rows/range/expanding/rolling + pipeline tbl: %s" % sorted(named))

    def intlit(e):
        if e is None:
            return None
        if "Literal" in e and "Integer" in e["Literal"]:
            return int(e["Literal"]["Integer"])
        if "Literal" in e and e["Literal"] == "Null":
            return None
        if "Unary" in e and e["Unary"]["op"] == "Neg":
            v = intlit(e["Unary"]["expr"])
            return None if v is None else -v
        raise ExtractError("std.prql: window default is not an integer literal: %s" % json.dumps(e)[:120])

    def rng(e):
        if e is None or "Range" not in e:
            raise ExtractError("std.prql: window default of rows/range is not a range")
        return (intlit(e["Range"].get("start")), intlit(e["Range"].get("end")))
    ex = named["expanding"]
    if ex is None or "Literal" not in ex or "Boolean" not in ex["Literal"]:
        raise ExtractError("std.prql: default of expanding is not a boolean")
    return {"fns": fns, "defaults": {"rows": rng(named["rows"]), "range": rng(named["range"]), "expanding": bool(ex["Literal"]["Boolean"]),
                                     "rolling": intlit(named["rolling"])}}


# ----------------------------------------------------------------------------- transforms.rs "window"
def coq_oz(x):
    return "None" if x is None else "(Some (%d))" % x


def tr_int(expr):
    """integer expression over `rolling` and literals with + - (fail closed)"""
    toks = re.findall(r"\s*(\d+|rolling|[+\-()])", expr)
    if "".join(toks) != re.sub(r"\s+", "", expr):
        raise ExtractError("window: integer expression not understood: %r" % expr)
    out = []
    for t in toks:
        out.append({"rolling": "rolling"}.get(t, t))
    # unary minus -> (0 - x) is not needed: Coq's Z scope reads `- rolling + 1` as (-rolling)+1 like Rust
    return "(" + " ".join(out) + ")"


def tr_bound(e):
    e = e.strip()
    if e == "None":
        return "None"
    m = re.fullmatch(r"Some\((.*)\)", e)
    if m:
        return "(Some %s)" % tr_int(m.group(1))
    m = re.fullmatch(r"(rows|range)\.(0|1)", e)
    if m:
        return "(%s %s)" % ("fst" if m.group(2) == "0" else "snd", {"rows": "rows", "range": "range_"}[m.group(1)])
    raise ExtractError("window: bound expression not understood: %r" % e)


def tr_cond(c):
    c = c.strip()
    if c == "expanding":
        return "expanding"
    m = re.fullmatch(r"rolling (>|>=|<|<=|==|!=) (-?\d+)", c)
    if m:
        op, k = m.group(1), int(m.group(2))
        return {">": "(%d <? rolling)", ">=": "(%d <=? rolling)", "<": "(rolling <? %d)", "<=": "(rolling <=? %d)", "==": "(rolling =? %d)", "!=": "(negb (rolling =? %d))"}[op] % k
    m = re.fullmatch(r"(!?)range_is_empty\(&(rows|range)\)", c)
    if m:
        x = "(range_is_empty %s)" % {"rows": "rows", "range": "range_"}[m.group(2)]
        return "(negb %s)" % x if m.group(1) else x
    raise ExtractError("window: condition not understood: %r" % c)


def extract_transforms():
    src = read(TRANSFORMS)
    m = mask(src)
    mm = re.search(r'"window"\s*=>\s*\{', src)
    if not mm:
        raise ExtractError('transforms.rs: arm "window" => { not found')
    i = mm.end() - 1
    j = match_brace(m, i)
    body = norm(src[i + 1:j])
    if not re.search(r"let \[rows, range, expanding, rolling, pipeline, tbl\] = unpack::<6>\(func\.args\);", body):
        raise ExtractError("window: argument unpacking changed")
    for nm, pat in (("expanding", r"let expanding = \{ let as_bool = expanding\.kind\.as_literal\(\)\.and_then\(\|l\| l\.as_boolean\(\)\); \*as_bool\.ok_or_else"),
                    ("rolling", r"let rolling = \{ let as_int = rolling\.kind\.as_literal\(\)\.and_then\(\|x\| x\.as_integer\(\)\); \*as_int\.ok_or_else"),
                    ("rows", r"let rows = \{ let range_tuple = try_restrict_range\(rows\)\.map_err\(.*?\)\?; into_literal_range\(range_tuple\)\? \};"),
                    ("range", r"let range = \{ let range_tuple = try_restrict_range\(range\)\.map_err\(.*?\)\?; into_literal_range\(range_tuple\)\? \};")):
        if not re.search(pat, body):
            raise ExtractError("window: reading of argument `%s` changed" % nm)
    ch = re.search(r"let \(kind, start, end\) = (if .*?\});", body)
    if not ch:
        raise ExtractError("window: `let (kind, start, end) = if ..` chain not found")
    # what stands between the reading of `range` and the decision chain: nothing (the tree before 7b31f75) or the
    # loop that rejects an empty range other than the "not given" spelling
    mrange = re.search(r"let range = \{ let range_tuple = try_restrict_range\(range\)\.map_err\(.*?\)\?; into_literal_range\(range_tuple\)\? \};", body)
    between = body[mrange.end():ch.start()].strip()
    reject = {"order": [], "not_given": None, "message": None}
    if between:
        ml = re.fullmatch(r"for \(name, r(?:, span)?\) in \[(.*?)\] \{ if range_is_empty\(r\) && \*r != \((None|Some\(-?\d+\)), (None|Some\(-?\d+\))\) \{ "
                          r"return Err\(Error::new_simple\(format!\( \"(.*?)\" \)\)(?: \.with_span\(span\))?\); \} \}", between)
        if not ml:
            raise ExtractError("window: text between the arguments and the decision chain not understood: %r" % between[:160])
        inner = re.sub(r", (rows|range)_span\)", ")", ml.group(1))          # 819c36b: the error carries the span of the argument
        pairs = re.findall(r'\("(\w+)", &(\w+)\)', inner)
        if re.sub(r"\s+", "", ", ".join('("%s", &%s)' % p for p in pairs)) != re.sub(r"\s+", "", inner) or not pairs:
            raise ExtractError("window: list of checked arguments not understood: %r" % ml.group(1))
        for nm, var in pairs:
            if nm != var or nm not in ("rows", "range"):
                raise ExtractError("window: rejection loop names `%s` for the variable `%s`" % (nm, var))

        def ob(x):
            return None if x == "None" else int(x[5:-1])
        reject = {"order": [nm for nm, _ in pairs], "not_given": (ob(ml.group(2)), ob(ml.group(3))), "message": ml.group(4)}
        if reject["message"] != "window: `{name}` is an empty range (its start is after its end)":
            raise ExtractError("window: the empty-range error message changed: %r" % reject["message"])
    chain = ch.group(1)
    branches = []

    def tuple_of(block):
        block = block.strip()
        if not (block.startswith("(") and block.endswith(")")):
            raise ExtractError("window: branch is not a tuple: %r" % block[:80])
        inner = block[1:-1]
        parts = [x.strip() for x, _ in split_top(inner, inner, 0, len(inner))]
        mk = re.fullmatch(r"WindowKind::(Rows|Range)", parts[0]) if len(parts) == 3 else None
        if not mk:
            raise ExtractError("window: branch tuple not understood: %r" % block[:80])
        return mk.group(1), tr_bound(parts[1]), tr_bound(parts[2])
    pos = 0
    while True:
        rest = chain[pos:]
        mb = re.match(r"\s*if (.*?) \{", rest)
        if mb:
            o = pos + mb.end() - 1
            c = match_brace(chain, o)
            k, a, b = tuple_of(chain[o + 1:c])
            branches.append((tr_cond(mb.group(1)), k, a, b))
            me_ = re.match(r"\s*else\b", chain[c + 1:])
            if not me_:
                raise ExtractError("window: decision chain has no final else")
            pos = c + 1 + me_.end()
            continue
        mb = re.match(r"\s*\{", rest)
        if mb:
            o = pos + mb.end() - 1
            c = match_brace(chain, o)
            if chain[c + 1:].strip():
                raise ExtractError("window: text after the final else block")
            k, a, b = tuple_of(chain[o + 1:c])
            branches.append((None, k, a, b))
            break
        raise ExtractError("window: decision chain not understood near %r" % rest[:80])
    if not re.search(r"let range = Range \{ start: start\.map\(Literal::Integer\)\.map\(Expr::new\)\.map\(Box::new\), end: end\.map\(Literal::Integer\)\.map\(Expr::new\)\.map\(Box::new\), \};", body):
        raise ExtractError("window: construction of the frame range changed")
    if not re.search(r"let transform_kind = TransformKind::Window \{ kind, range, pipeline: Box::new\(pipeline\), \};", body):
        raise ExtractError("window: construction of TransformKind::Window changed")
    rie = fn_text(TRANSFORMS, "range_is_empty")
    mr = re.fullmatch(r"match \(&range\.0, &range\.1\) \{ \(Some\(s\), Some\(e\)\) => s (>|>=) e, _ => false, \}", rie)
    if not mr:
        raise ExtractError("range_is_empty changed: %r" % rie[:120])
    ilr = fn_text(TRANSFORMS, "into_literal_range")
    if not re.search(r"ExprKind::Literal\(Literal::Null\) => Ok\(None\), ExprKind::Literal\(Literal::Integer\(i\)\) => Ok\(Some\(i\)\),", ilr):
        raise ExtractError("into_literal_range changed")
    return {"branches": branches, "empty_op": mr.group(1), "reject": reject}


# ----------------------------------------------------------------------------- gen_expr.rs
CTOR = {"CurrentRow": "SCurrentRow", "Following": "SFollowing", "Preceding": "SPreceding"}


def extract_gen_expr():
    t = fn_text(GEN_EXPR, "translate_windowed")
    md = re.search(r"let default_frame = \{ let \(kind, range\) = if window\.sort\.is_empty\(\) \{ \(WindowKind::(Rows|Range), (.*?)\) \} else \{ \( WindowKind::(Rows|Range), (.*?), \) \}; WindowFrame \{ kind, range \} \};", t)
    if not md:
        raise ExtractError("translate_windowed: default_frame no longer has the modelled shape")

    def rng(x):
        x = x.strip()
        if x == "Range::unbounded()":
            return (None, None)
        mr = re.fullmatch(r"Range \{ start: (None|Some\(.*?\)), end: (None|Some\(.*?\)), \}", x)
        if not mr:
            raise ExtractError("translate_windowed: default range not understood: %r" % x[:100])

        def b(y):
            if y == "None":
                return None
            mi = re.fullmatch(r"Some\(rq::Expr \{ kind: rq::ExprKind::Literal\(Literal::Integer\((-?\d+)\)\), span: None, \}\)", y)
            if not mi:
                raise ExtractError("translate_windowed: default bound not understood: %r" % y[:100])
            return int(mi.group(1))
        return (b(mr.group(1)), b(mr.group(2)))
    unsorted_ = (md.group(1), rng(md.group(2)))
    sorted_ = (md.group(3), rng(md.group(4)))
    g = read(GENERIC)
    if not re.search(r"pub (?:const )?fn unbounded\(\) -> Self \{\s*Range \{\s*start: None,\s*end: None,?\s*\}\s*\}", read(PARSER_GENERIC)):
        raise ExtractError("ir/generic.rs: Range::unbounded is no longer {start: None, end: None}")
    mdf = re.search(r"impl<T> Default for WindowFrame<T> \{\s*fn default\(\) -> Self \{\s*Self \{\s*kind: WindowKind::(Rows|Range),\s*range: generic::Range::unbounded\(\),\s*\}", g)
    if not mdf:
        raise ExtractError("ir/generic.rs: WindowFrame::default changed")
    if not re.search(r"let supports_frame = matches!\( expr, ExprOrSource::Source\(SourceExpr \{ window_frame: true, \.\. \}\) \);", t):
        raise ExtractError("translate_windowed: supports_frame no longer reads SourceExpr.window_frame")
    if not re.search(r"window_frame: if supports_frame && window\.frame != default_frame \{ Some\(try_into_window_frame\(window\.frame\)\?\) \} else \{ None \},", t):
        raise ExtractError("translate_windowed: the elision condition no longer has the modelled shape")
    if not re.search(r"partition_by: try_into_exprs\(window\.partition, ctx, span\)\?, order_by,", t) and not (
            re.search(r"let allow_stars = std::mem::replace\(&mut ctx\.query\.allow_stars, false\); let partition_by = try_into_exprs\(window\.partition, ctx, span\); ctx\.query\.allow_stars = allow_stars;", t)
            and re.search(r"partition_by: partition_by\?, order_by,", t)):
        raise ExtractError("translate_windowed: PARTITION BY / ORDER BY construction changed")
    if not re.search(r"let mut order_by: Vec<OrderByExpr> = \(window\.sort\) \.into_iter\(\) \.map\(\|sort\| translate_column_sort\(&sort, ctx\)\) \.try_collect\(\)\?;", t):
        raise ExtractError("translate_windowed: ORDER BY is no longer every sort key of the window, in order")
    # the rejection of a RANGE offset over a number of sort keys other than one (91a6a23): present in the modelled shape,
    # or absent (the tree before it)
    m_sup = re.search(r"let supports_frame = matches!\(.*?\);", t)
    m_ord = re.search(r"let mut order_by: Vec<OrderByExpr>", t)
    between = t[m_sup.end():m_ord.start()].strip()
    rej = None
    if between:
        mr = re.fullmatch(r"if supports_frame && window\.frame\.kind == WindowKind::Range && window\.sort\.len\(\) != 1 \{ "
                          r"let is_offset = \|bound: &Option<rq::Expr>\| \{ matches!\( bound, Some\(rq::Expr \{ kind: rq::ExprKind::Literal\(Literal::Integer\(i\)\), \.\. \}\) if \*i != 0 \) \}; "
                          r"if is_offset\(&window\.frame\.range\.start\) \|\| is_offset\(&window\.frame\.range\.end\) \{ return Err\(Error::new_simple\( \"(.*?)\", \) \.with_span\(span\)\); \} \}", between)
        if not mr:
            raise ExtractError("translate_windowed: text between supports_frame and the ORDER BY not understood: %r" % between[:200])
        rej = mr.group(1)
        if rej != "window: a `range` with an offset needs exactly one sort key":
            raise ExtractError("translate_windowed: the range-offset error message changed: %r" % rej)
    if not re.search(r'text: format!\("\{expr\} OVER \(\{window\}\)"\)', t):
        raise ExtractError("translate_windowed: OVER text changed")
    # try_into_window_frame
    src = read(GEN_EXPR)
    m = mask(src)
    s, e = block_after(src, m, r"fn\s+try_into_window_frame\s*\([^{]*\{")
    body = src[s:e]
    mb = mask(body)
    ps, pe = block_after(body, mb, r"fn\s+parse_bound\s*\([^{]*\{")
    pbody = body[ps:pe]
    pm = mask(pbody)
    ms_, me_ = block_after(pbody, pm, r"Ok\(match\s+as_int\s*\{")
    if not re.search(r"let as_int = unpack_as_int_literal\(bound\)\?;", norm(pbody)):
        raise ExtractError("parse_bound: as_int changed")
    arms = match_arms(pbody, pm, ms_, me_)
    parsed = []
    for pat, b in arms:
        pat = pat.strip()
        b = norm(b)
        if pat not in ("0", "1..", "_", "..=-1", "..0"):
            raise ExtractError("parse_bound: arm pattern not understood: %r" % pat)
        if b == "WindowFrameBound::CurrentRow":
            parsed.append((pat, "CurrentRow", None))
            continue
        mm = re.fullmatch(r"WindowFrameBound::(Following|Preceding)\(Some\(Box::new\(sql_ast::Expr::Value\( sql_ast::Value::Number\((.*?)\.to_string\(\), false\)\.into\(\), \)\)\)\)", b)
        if not mm:
            raise ExtractError("parse_bound: arm body not understood: %r" % b[:120])
        v = mm.group(2).strip()
        if v == "as_int":
            neg = False
        elif v == "(-as_int)":
            neg = True
        elif v == "as_int.unsigned_abs()":
            neg = "abs"
        else:
            raise ExtractError("parse_bound: number expression not understood: %r" % v)
        parsed.append((pat, mm.group(1), neg))
    if not parsed or parsed[-1][0] != "_" or any(p[0] == "_" for p in parsed[:-1]):
        raise ExtractError("parse_bound: the match no longer ends in exactly one catch-all arm")
    rest = norm(body[:ps - len("fn parse_bound(bound: rq::Expr) -> Result<WindowFrameBound> {")] + body[pe:])
    mu = re.search(r"units: match frame\.kind \{ WindowKind::Rows => sql_ast::WindowFrameUnits::(Rows|Range), WindowKind::Range => sql_ast::WindowFrameUnits::(Rows|Range), \}, "
                   r"start_bound: if let Some\(start\) = frame\.range\.start \{ parse_bound\(start\)\? \} else \{ WindowFrameBound::(Preceding|Following)\(None\) \}, "
                   r"end_bound: Some\(if let Some\(end\) = frame\.range\.end \{ parse_bound\(end\)\? \} else \{ WindowFrameBound::(Preceding|Following)\(None\) \}\),", rest)
    if not mu:
        raise ExtractError("try_into_window_frame: frame construction no longer has the modelled shape")
    return {"default_unsorted": unsorted_, "default_sorted": sorted_, "arms": parsed, "units": (mu.group(1), mu.group(2)),
            "open_start": mu.group(3), "open_end": mu.group(4), "pl_default": mdf.group(1), "range_offset_rejection": rej is not None}


# ----------------------------------------------------------------------------- anchor.rs
CX = {"Plain": "CPlain", "NonGroup": "CNonGroup", "Windowed": "CWindowed", "Aggregation": "CAggregation"}


def extract_anchor():
    order = [v for v, _ in enum_variants(ANCHOR, "Complexity")]
    if sorted(order) != sorted(CX):
        raise ExtractError("Complexity variants changed: %s" % order)
    src = read(ANCHOR)
    if not re.search(r"#\[derive\([^)]*PartialOrd[^)]*Ord[^)]*\)\]\s*pub enum Complexity", src):
        raise ExtractError("Complexity no longer derives PartialOrd/Ord")
    ml = re.search(r"const fn lowest\(\) -> Self \{\s*Self::(\w+)\s*\}", src)
    mh = re.search(r"const fn highest\(\) -> Self \{\s*Self::(\w+)\s*\}", src)
    if not (ml and mh):
        raise ExtractError("Complexity::lowest/highest changed")
    ic = fn_text(ANCHOR, "infer_complexity")
    mi = re.fullmatch(r"use Complexity::\*; if compute\.window\.is_some\(\) \{ (\w+) \} else if compute\.is_aggregation \{ (\w+) \} else \{ infer_complexity_expr\(&compute\.expr\) \}", ic)
    if not mi:
        raise ExtractError("infer_complexity changed: %r" % ic[:160])
    cm = fn_text(ANCHOR, "can_materialize")
    mc = re.search(r"\.fold\(Complexity::highest\(\), \|c, r\| \{ Complexity::min\(c, r\.max_complexity\) \}\); let can_materialize = complexity (<=|<) required;", cm)
    if not mc:
        raise ExtractError("can_materialize changed")
    fc = fn_text(ANCHOR, "from_cids")
    md = re.search(r"max_complexity: Complexity::(lowest|highest)\(\),", fc)
    if not md:
        raise ExtractError("Requirements::from_cids default complexity changed")
    gr = fn_text(ANCHOR, "get_requirements")
    mcp = re.search(r"Super\(Transform::Compute\(compute\)\) if previous_requirements\.is_required\(&compute\.id\) => \{ let requirements = Requirements::from_expr\(&compute\.expr\)\.allow_up_to\( "
                    r"match infer_complexity\(compute\) \{ Complexity::(\w+) => Complexity::(\w+), _ => Complexity::(\w+), \}, \);", gr)
    if not mcp:
        raise ExtractError("get_requirements: Compute arm changed")
    mwin = re.search(r"if let Some\(window\) = &compute\.window \{ let window_cids = window \.partition \.iter\(\) \.chain\(window\.sort\.iter\(\)\.map\(\|s\| &s\.column\)\); requirements\.append\(Requirements::from_cids\(window_cids\)\)", gr)
    if not mwin:
        raise ExtractError("get_requirements: window partition/sort requirements changed")
    mf = re.search(r'Super\(Transform::Filter\(expr\)\) => \{ Requirements::from_expr\(expr\)\.allow_up_to\(if !following\.contains\("Aggregate"\) \{ Complexity::(\w+) \} else \{ Complexity::(\w+) \}\) \}', gr)
    if not mf:
        raise ExtractError("get_requirements: Filter arm changed")
    msrt = re.search(r'Super\(Transform::Sort\(sorts\)\) if !following\.contains\("Aggregate"\) => \{ Requirements::from_cids\(sorts\.iter\(\)\.map\(\|s\| &s\.column\)\) \.allow_up_to\(Complexity::(\w+)\) \.should_select\(true\) \}', gr)
    if not msrt:
        raise ExtractError("get_requirements: Sort arm changed")
    magg = re.search(r"Super\(Transform::Aggregate \{ partition, \.\. \}\) => Requirements::from_cids\(partition\.iter\(\)\),", gr)
    mjoin = re.search(r"SqlTransform::Join \{ filter, \.\. \} => Requirements::from_expr\(filter\),", gr)
    if not (magg and mjoin):
        raise ExtractError("get_requirements: Aggregate/Join arms changed")
    mtk = re.search(r"Super\(Transform::Take\(rq::Take \{ range, sort, \.\. \}\)\) => \[&range\.start, &range\.end\] \.into_iter\(\) \.flatten\(\) \.map\(Requirements::from_expr\) "
                    r"\.fold\(Requirements::default\(\), Requirements::append\) \.append\( Requirements::from_cids\(sort\.iter\(\)\.map\(\|s\| &s\.column\)\) \.allow_up_to\(Complexity::(\w+)\) \.should_select\(true\), \),", gr)
    if not mtk:
        raise ExtractError("get_requirements: Take arm changed")
    mdo = re.search(r"SqlTransform::DistinctOn\(partition\) => Requirements::from_cids\(partition\.iter\(\)\) \.allow_up_to\(Complexity::(lowest|highest)\(\)\),", gr)
    if not mdo:
        raise ExtractError("get_requirements: DistinctOn arm changed")
    if not re.search(r'SqlTransform::Sort\(sorts\) if !following\.contains\("Aggregate"\) => \{ Requirements::from_cids\(sorts\.iter\(\)\.map\(\|s\| &s\.column\)\) \}', gr):
        raise ExtractError("get_requirements: SqlTransform::Sort arm changed")
    if not gr.strip().endswith("SqlTransform::Join { filter, .. } => Requirements::from_expr(filter), _ => Requirements::default(), }"):
        raise ExtractError("get_requirements: the match no longer ends with the Join arm and `_ => Requirements::default()`")
    narms = len(re.findall(r" => ", gr.split("match transform {", 1)[1])) if "match transform {" in gr else -1
    if narms != 11:      # the 9 arms modelled in Model/WinAtomic.v requirements + the 2 of the inner match on infer_complexity
        raise ExtractError("get_requirements: %d `=>` where 11 are modelled (an arm was added or removed)" % narms)
    sob = fn_text(ANCHOR, "split_off_back")
    for what, pat in (
            ("requirements are taken per transform and appended", r"let required = get_requirements\(&transform, &following_transforms, &inputs_required\); .*? inputs_required = inputs_required\.append\(required\.clone\(\)\);"),
            ("a materialized compute hands its own allowance on", r"inputs_required = inputs_required \.append\(required\.allow_up_to\(max_complexity\)\.should_select\(false\)\);"),
            ("the walk pops the pipeline from the back and stops at a required split", r"'pipeline: while let Some\(transform\) = pipeline\.pop\(\) \{ let split = is_split_required\(&transform, &mut following_transforms\); if split \{ .*? pipeline\.push\(transform\); break; \}"),
            ("the computes of an Aggregate must be materializable", r"SqlTransform::Super\(Transform::Aggregate \{ compute, \.\. \}\) => \{ for cid in compute \{ let decl = &ctx\.column_decls\[cid\]; if let ColumnDecl::Compute\(compute\) = decl \{ if !can_materialize\(compute, &inputs_required\)\.0 \{ pipeline\.push\(transform\); break 'pipeline; \} \} \} \}"),
            ("the initial requirement is the output at the highest complexity", r"let mut inputs_required = Requirements::from_cids\(output\.iter\(\)\) \.allow_up_to\(Complexity::highest\(\)\) \.should_select\(true\);")):
        if not re.search(pat, sob):
            raise ExtractError("split_off_back: %s -- no longer has the modelled shape" % what)
    if not re.search(r"let mut inputs_required = Requirements::from_cids\(output\.iter\(\)\) \.allow_up_to\(Complexity::highest\(\)\) \.should_select\(true\);", sob):
        raise ExtractError("split_off_back: output requirements changed")
    if not re.search(r"let \(can_mat, max_complexity\) = can_materialize\(compute, &inputs_required\); if can_mat \{ .*? \} else \{ pipeline\.push\(transform\); break; \}", sob):
        raise ExtractError("split_off_back: a compute that cannot be materialized no longer ends the SELECT")
    lo, hi = ml.group(1), mh.group(1)
    dflt = lo if md.group(1) == "lowest" else hi
    return {"order": order, "lowest": lo, "highest": hi, "windowed": mi.group(1), "aggregation": mi.group(2), "can_mat_op": mc.group(1), "default": dflt,
            "compute_plain_key": mcp.group(1), "compute_plain": mcp.group(2), "compute_other": mcp.group(3),
            "filter_no_agg": mf.group(1), "filter_agg": mf.group(2), "sort": msrt.group(1), "take_sort": mtk.group(1),
            "distinct_on": lo if mdo.group(1) == "lowest" else hi}


# ----------------------------------------------------------------------------- preprocess.rs reorder
def extract_reorder():
    """which preceding transforms a Compute is pulled in front of (reorder): the arms of `should_swap`"""
    src = read(PREPROCESS)
    m = mask(src)
    s, e = block_after(src, m, r"fn\s+reorder\s*\([^{]*\{")
    body = src[s:e]
    if re.search(r"fn\s+reorder_inner\s*\(", src):
        # `reorder` is a wrapper that logs (cfg prqlc_verif only) around `reorder_inner`: without the statements
        # under #[cfg(prqlc_verif)] it must do nothing else
        w = re.sub(r"#\[cfg\(prqlc_verif\)\] [^;]*;", "", norm(body)).strip()
        if re.sub(r"\s+", " ", w) != "pipeline = reorder_inner(pipeline); pipeline":
            raise ExtractError("reorder: the wrapper around reorder_inner does more than call it: %r" % w[:160])
        s, e = block_after(src, m, r"fn\s+reorder_inner\s*\(mut pipeline: Vec<SqlTransform>\) -> Vec<SqlTransform>\s*\{")
        body = src[s:e]
    mb = mask(body)
    ms_, me_ = block_after(body, mb, r"let\s+should_swap\s*=\s*match\s+prev\s*\{")
    arms = match_arms(body, mb, ms_, me_)
    out = {"sort": None, "take": None, "other": None, "never": None}
    for pat, b in arms:
        pat, b = norm(pat), norm(b)
        if pat == "SqlTransform::From(_) | SqlTransform::Join { .. } | Super(Compute(_))" and b == "false":
            out["never"] = True
        elif pat == "Super(Sort(_))" and b in ("true", "false"):
            out["sort"] = b == "true"
        elif pat == "_" and b in ("true", "false"):
            out["other"] = b == "true"
        elif pat == "Super(Take(_))" and b in ("true", "false"):
            out["take"] = ("all", None) if b == "true" else ("none", None)
        else:
            mt = re.fullmatch(r"Super\(Take\(_\)\) if infer_complexity\(compute\) (==|<=|<|!=|>=|>) Complexity::(\w+)", pat)
            if mt and b == "true" and mt.group(2) in CX:
                out["take"] = (mt.group(1), mt.group(2))
            else:
                raise ExtractError("reorder: arm not understood: %r => %r" % (pat[:100], b[:40]))
    if out["never"] is None or out["sort"] is None or out["other"] is None or out["take"] is None:
        raise ExtractError("reorder: should_swap no longer has the arms From/Join/Compute, Sort, Take, _")
    rest = norm(body)
    if not re.search(r"if should_swap \{ pipeline\.swap\(compute_i, prev_i\); \} else \{ break; \}", rest):
        raise ExtractError("reorder: the swap loop changed")
    # the loops Model/WinReorder.v mirrors: positions 1.., bubbling over at most i - 1 predecessors (never over position 0)
    if not re.search(r"for i in 1\.\.pipeline\.len\(\) \{ if !matches!\(&pipeline\[i\], Super\(Compute\(_\)\)\) \{ continue; \} "
                     r"for j in 0\.\.\(i - 1\) \{ let compute_i = i - j; let prev_i = compute_i - 1; "
                     r"let compute = pipeline\[compute_i\] \.as_super\(\) \.unwrap\(\) \.as_compute\(\) \.unwrap\(\); let prev = &pipeline\[prev_i\]; let should_swap = match prev \{", rest):
        raise ExtractError("reorder: the two loops (for i in 1..len, for j in 0..(i - 1)) no longer have the modelled shape")
    if not rest.endswith("else { break; } } } pipeline"):
        raise ExtractError("reorder: the function no longer ends by returning the pipeline")
    return out


# ----------------------------------------------------------------------------- flatten.rs / lowering.rs (shapes)
def occurrences(text, field):
    """every use of self.<field> in flatten.rs, as `self.<field><what follows up to the next ; , ) or space>`"""
    return sorted(re.findall(r"self\.%s\b(?:\.\w+\([^()]*\)| = [^;]*)?" % field, text))


def extract_propagation():
    fl = norm(read(FLATTEN))
    checks = {
        "sort sets the order for downstream transforms": r"TransformKind::Sort \{ by \} => \{ let by = fold_column_sorts\(self, by\)\?; let input = self\.fold_expr\(\*t\.input\)\?; self\.sort\.clone_from\(&by\);",
        "every transform call gets partition, frame and sort": r"ExprKind::TransformCall\(TransformCall \{ input: Box::new\(input\), kind: Box::new\(kind\), partition: self\.partition\.clone\(\), frame: self\.window\.clone\(\), sort, \}\)",
        "sort is dropped only behind join/append": r"let sort = if matches!\(kind, TransformKind::Join \{ \.\. \} \| TransformKind::Append\(_\)\) \{ vec!\[\] \} else \{ self\.sort\.clone\(\) \};",
        "the walk starts from Flattener::default()": r"#\[derive\(Default, Debug\)\] pub struct Flattener \{.*?partition: Option<Box<Expr>>,.*?window: WindowFrame,.*?\} impl Flattener \{ pub fn fold\(expr: Expr\) -> Expr \{ let mut f = Flattener::default\(\); f\.fold_expr\(expr\)\.unwrap\(\) \} \}",
    }
    for what, pat in checks.items():
        if not re.search(pat, fl):
            raise ExtractError("flatten.rs: %s -- no longer has the modelled shape" % what)
    pol = {}
    # group: the partition is set for the body; restored (592b6f8) or reset (before) behind it
    g_new = r"self\.replace_map\.insert\(param_id, input\); let outer_partition = self\.partition\.replace\(by\); self\.sort\.clear\(\); let pipeline = self\.fold_expr\(\*pipeline\.body\)\?; self\.replace_map\.remove\(&param_id\); self\.partition = outer_partition; self\.sort\.clear\(\);"
    g_old = r"self\.replace_map\.insert\(param_id, input\); self\.partition = Some\(by\); self\.sort\.clear\(\); let pipeline = self\.fold_expr\(\*pipeline\.body\)\?; self\.replace_map\.remove\(&param_id\); self\.partition = None; self\.sort\.clear\(\);"
    w_new = r"self\.replace_map\.insert\(param_id, tbl\); let outer_window = std::mem::replace\(&mut self\.window, WindowFrame \{ kind, range \}\); let pipeline = self\.fold_expr\(\*pipeline\.body\)\?; self\.window = outer_window;"
    w_old = r"self\.replace_map\.insert\(param_id, tbl\); self\.window = WindowFrame \{ kind, range \}; let pipeline = self\.fold_expr\(\*pipeline\.body\)\?; self\.window = WindowFrame::default\(\);"
    if not re.search(r"TransformKind::Group \{ by, pipeline \} => \{.*?let input = self\.fold_expr\(\*t\.input\)\?;.*?" + g_new.split("; ")[0], fl) and not re.search(g_old, fl):
        raise ExtractError("flatten.rs: group sets the partition for its inner pipeline -- no longer has the modelled shape")
    uses_p, uses_w = [], []
    if re.search(g_new, fl):
        pol["group_exit"] = "ExitRestore"
        uses_p += ["self.partition.replace(by)", "self.partition = outer_partition"]
    elif re.search(g_old, fl):
        pol["group_exit"] = "ExitReset"
        uses_p += ["self.partition = Some(by)", "self.partition = None"]
    else:
        raise ExtractError("flatten.rs: group sets the partition for its inner pipeline -- no longer has the modelled shape")
    if re.search(w_new, fl):
        pol["window_exit"] = "ExitRestore"
        uses_w += ["self.window", "self.window = outer_window"]          # &mut self.window inside mem::replace
    elif re.search(w_old, fl):
        pol["window_exit"] = "ExitReset"
        uses_w += ["self.window = WindowFrame { kind, range }", "self.window = WindowFrame::default()"]
    else:
        raise ExtractError("flatten.rs: window sets the frame for its inner pipeline -- no longer has the modelled shape")
    # the input of a group / window is folded BEFORE the field is overwritten (it belongs to the enclosing scope)
    if not re.search(r"TransformKind::Group \{ by, pipeline \} => \{ .*?let input = self\.fold_expr\(\*t\.input\)\?; let pipeline = pipeline\.kind\.into_func\(\)\.unwrap\(\);", fl) \
            or not re.search(r"TransformKind::Window \{ kind, range, pipeline, \} => \{ let tbl = self\.fold_expr\(\*t\.input\)\?; let pipeline = pipeline\.kind\.into_func\(\)\.unwrap\(\);", fl):
        raise ExtractError("flatten.rs: the input of a group / window is folded before its body -- no longer has the modelled shape")
    # relational arguments (join / append / loop)
    msub = re.search(r"let has_sub_pipeline = matches!\( kind, TransformKind::Join \{ \.\. \} \| TransformKind::Append\(_\) \| TransformKind::Loop\(_\) \); "
                     r"if has_sub_pipeline \{ let sort = std::mem::take\(&mut self\.sort\); let sort_undone = std::mem::replace\(&mut self\.sort_undone, false\); (.*?)"
                     r"let kind = fold_transform_kind\(self, kind\)\?; self\.sort = sort; self\.sort_undone = sort_undone; (.*?)\(input, kind\) \} else \{ \(input, fold_transform_kind\(self, kind\)\?\) \}", fl)
    if not msub:
        raise ExtractError("flatten.rs: relational arguments are folded as pipelines of their own -- no longer has the modelled shape")
    save = [x.strip() for x in msub.group(1).split(";") if x.strip()]
    back = [x.strip() for x in msub.group(2).split(";") if x.strip()]
    SAVE = {"let partition = self.partition.take()": "partition", "let window = std::mem::take(&mut self.window)": "window"}
    BACK = {"self.partition = partition": "partition", "self.window = window": "window"}
    if any(x not in SAVE for x in save) or any(x not in BACK for x in back) or sorted(SAVE[x] for x in save) != sorted(BACK[x] for x in back):
        raise ExtractError("flatten.rs: what a relational argument saves (%r) and writes back (%r) is not understood" % (save, back))
    iso = {SAVE[x] for x in save}
    pol["sub_partition"], pol["sub_window"] = "partition" in iso, "window" in iso
    if pol["sub_partition"]:
        uses_p += ["self.partition.take()", "self.partition = partition"]
    if pol["sub_window"]:
        uses_w += ["self.window", "self.window = window"]
    # an aggregate ends the sort in effect: outside a group (8d54bf7), inside a group as well (f809321)
    m_es_old = re.search(r"ends_sort = self\.partition\.is_none\(\) && matches!\(kind, TransformKind::Aggregate \{ \.\. \}\);", fl)
    m_es_new = re.search(r"ends_sort = matches!\(kind, TransformKind::Aggregate \{ \.\. \}\);", fl)
    if m_es_old or m_es_new:
        if not re.search(r"let mut ends_sort = false;", fl) or not re.search(r"\}; if ends_sort \{ self\.sort\.clear\(\); \} ExprKind::TransformCall\(", fl):
            raise ExtractError("flatten.rs: an aggregate ends the sort -- no longer has the modelled shape")
        if m_es_old:
            uses_p += ["self.partition.is_none()"]
    elif "ends_sort" in fl:
        raise ExtractError("flatten.rs: ends_sort is computed in a way that is not understood")
    pol["aggregate_ends_sort"] = bool(m_es_old or m_es_new)
    pol["grouped_aggregate_ends_sort"] = bool(m_es_new)
    # nothing else touches the two fields
    uses_p += ["self.partition.clone()"]
    uses_w += ["self.window.clone()"]
    if occurrences(fl, "partition") != sorted(uses_p):
        raise ExtractError("flatten.rs: self.partition is used in a way that is not modelled: %r" % occurrences(fl, "partition"))
    if occurrences(fl, "window") != sorted(uses_w):
        raise ExtractError("flatten.rs: self.window is used in a way that is not modelled: %r" % occurrences(fl, "window"))
    lw = norm(read(LOWERING))
    checks = {
        "the current window is built from the transform call's frame, partition and sort": r"let window = rq::Window \{ frame: WindowFrame \{ kind: transform_call\.frame\.kind, range: self\.lower_range\(transform_call\.frame\.range\)\?, \}, partition: if let Some\(partition\) = transform_call\.partition \{ self\.declare_as_columns\(\*partition, false\)\? \} else \{ vec!\[\] \}, sort: self\.lower_sorts\(transform_call\.sort\)\?, \}; self\.window = Some\(window\);",
        "a column that needs a window takes the current one": r"let window = if needs_window \{ self\.window\.clone\(\) \} else \{ None \};",
        "a windowed sub-expression becomes its own column": r"if expr\.needs_window \{ let span = expr\.span; let cid = self\.declare_as_column\(expr, false\)\?;",
    }
    for what, pat in checks.items():
        if not re.search(pat, lw):
            raise ExtractError("lowering.rs: %s -- no longer has the modelled shape" % what)
    # Model/WinLower.v: every use of the Lowerer's `window` field -- created as None, set after the call's partition and sort
    # are lowered, taken by Aggregate and Take, None again at the end of the call, read by declare_as_column
    lwc = re.sub(r"#\[cfg\(prqlc_verif\)\] verif_op\([^;]*;", "", lw)
    uses = sorted(re.findall(r"self\.window\b(?:\.\w+\(\)(?:\.\w+\(\))?| = [^;]*)?", lwc))
    want = sorted(["self.window = Some(window)", "self.window.take()", "self.window.take().unwrap_or_default()", "self.window = None", "self.window.clone()"])
    if uses != want:
        raise ExtractError("lowering.rs: self.window is used in a way that is not modelled: %r" % uses)
    for what, pat in (
            ("the field is None when the Lowerer is created", r"window: None, pipeline: Vec::new\(\),"),
            ("Aggregate takes the field before it lowers its columns", r"pl::TransformKind::Aggregate \{ assigns, \.\. \} => \{ let window = self\.window\.take\(\); (?:#\[cfg\(prqlc_verif\)\] verif_op\([^;]*; )?let compute = self\.declare_as_columns\(\*assigns, true\)\?;"),
            ("Take takes the field", r"pl::TransformKind::Take \{ range, \.\. \} => \{ let window = self\.window\.take\(\)\.unwrap_or_default\(\);"),
            ("the field is None again at the end of the call", r"\} self\.window = None; (?:#\[cfg\(prqlc_verif\)\] verif_op\([^;]*; )?Ok\(\(\)\) \}"),
            ("sort keys are lowered by declare_as_column", r"fn lower_sorts\(&mut self, by: Vec<ColumnSort<Box<pl::Expr>>>\) -> Result<Vec<ColumnSort<CId>>> \{ by\.into_iter\(\) \.map\(\|ColumnSort \{ column, direction \}\| \{ let column = self\.declare_as_column\(\*column, false\)\?;")):
        if not re.search(pat, lw):
            raise ExtractError("lowering.rs: %s -- no longer has the modelled shape" % what)
    return pol


def extract():
    info = {}
    info.update(extract_std())
    info["transforms"] = extract_transforms()
    info["gen_expr"] = extract_gen_expr()
    info["anchor"] = extract_anchor()
    info["propagation"] = extract_propagation()
    info["reorder"] = extract_reorder()
    return info


def generate():
    try:
        info = extract()
    except ExtractError as ex:
        gen_write("GenWindow", "(* EXTRACTION FAILED: %s *)\nDefinition gen_window_extraction_failed := tt.\n" % str(ex).replace("*)", "* )").replace("(*", "( *"))
        return {"error": str(ex)}
    v = "(* generated from /repo on every run by vplib/translate/gen_window.py -- do not edit *)\n"
    v += "From Coq Require Import List ZArith NArith Bool.\nFrom PV Require Import Lib.ListX Model.Rel Model.Frame Model.WindowFns Model.WinReorder Model.SplitBase Model.WinAtomic Gen.GenSplit.\nImport ListNotations.\nLocal Open Scope Z_scope.\n\n"
    v += "(* sql/std.sql.prql: (module, function, window_frame, coalesce) *)\nDefinition std_fns : list std_fn :=\n  [ "
    items = []
    for f in info["fns"]:
        items.append("mk_std_fn %s %s %s %s (* %s%s *)" % (codes(f["module"]), codes(f["name"]), "true" if f["window_frame"] else "false",
                                                          "None" if f["coalesce"] is None else "(Some %s)" % codes(f["coalesce"]),
                                                          (f["module"] + "." if f["module"] else ""), f["name"]))
    v += ";\n    ".join(items) + " ].\n\n"
    d = info["defaults"]
    v += "(* semantic/std.prql: defaults of window's named parameters *)\n"
    v += "Definition window_default_rows : bounds := (%s, %s).\n" % (coq_oz(d["rows"][0]), coq_oz(d["rows"][1]))
    v += "Definition window_default_range : bounds := (%s, %s).\n" % (coq_oz(d["range"][0]), coq_oz(d["range"][1]))
    v += "Definition window_default_expanding : bool := %s.\n" % ("true" if d["expanding"] else "false")
    v += "Definition window_default_rolling : Z := %d.\n\n" % d["rolling"]
    t = info["transforms"]
    v += "(* semantic/resolver/transforms.rs *)\n"
    v += "Definition code_range_is_empty (r : bounds) : bool := match r with (Some s, Some e) => %s | _ => false end.\n" % ("e <? s" if t["empty_op"] == ">" else "e <=? s")
    v += "Definition code_frame_chain (rows range_ : bounds) (expanding : bool) (rolling : Z) : frame3 :=\n"
    for cond, kind, a, b in t["branches"]:
        tup = "(K%s, %s, %s)" % (kind, a, b)
        if cond is None:
            v += "  %s.\n" % tup
        else:
            v += "  if %s then %s else\n" % (cond.replace("range_is_empty", "code_range_is_empty"), tup)
    rj = t["reject"]
    v += "(* the loop in front of the chain: which arguments are checked, in which order, and the spelling that is exempt *)\n"
    v += "Definition code_reject_order : list warg := [%s].\n" % "; ".join({"rows": "ARows", "range": "ARange"}[x] for x in rj["order"])
    ng = rj["not_given"]
    v += "Definition code_not_given : option bounds := %s.\n" % ("None" if ng is None else "Some (%s, %s)" % (coq_oz(ng[0]), coq_oz(ng[1])))
    v += ("Definition code_rejected (r : bounds) : bool := code_range_is_empty r && negb (match code_not_given with Some d => bounds_eqb r d | None => false end).\n"
          "Definition code_frame_of (rows range_ : bounds) (expanding : bool) (rolling : Z) : wresult :=\n"
          "  match find (fun x => code_rejected (match x with ARows => rows | ARange => range_ end)) code_reject_order with\n"
          "  | Some x => WEmptyRange x\n  | None => WFrame (code_frame_chain rows range_ expanding rolling)\n  end.\n\n")
    g = info["gen_expr"]
    v += "(* sql/gen_expr.rs *)\n"

    def f3(x):
        return "(K%s, %s, %s)" % (x[0], coq_oz(x[1][0]), coq_oz(x[1][1]))
    v += "Definition code_default_frame (sorted : bool) : frame3 := if sorted then %s else %s.\n" % (f3(g["default_sorted"]), f3(g["default_unsorted"]))
    v += "Definition code_pl_default_frame : frame3 := (K%s, None, None).\n" % g["pl_default"]
    v += "Definition code_parse_bound (z : Z) : sbound :=\n"
    for pat, ctor, neg in g["arms"]:
        cond = {"0": "z =? 0", "1..": "1 <=? z", "..=-1": "z <=? -1", "..0": "z <? 0", "_": None}[pat]
        val = "S%s" % ctor if ctor == "CurrentRow" else "S%s (Some (%s))" % (ctor, "Z.abs z" if neg == "abs" else "- z" if neg else "z")
        if cond is None:
            v += "  %s.\n" % val
            break
        v += "  if %s then %s else\n" % (cond, val)
    v += "(* is the distance of a PRECEDING bound computed by an operation that is total on i64 (unsigned_abs), or by `-as_int` (overflows for i64::MIN)? *)\n"
    v += "Definition code_bound_distance_total : bool := %s.\n" % ("true" if all(neg in (None, False, "abs") for _, _, neg in g["arms"]) else "false")
    v += "Definition code_units (k : wkind) : wkind := match k with KRows => K%s | KRange => K%s end.\n" % g["units"]
    v += "Definition code_to_sframe (f : frame3) : sframe :=\n  match f with (k, a, b) => mk_sframe (code_units k) (match a with Some z => code_parse_bound z | None => S%s None end) (match b with Some z => code_parse_bound z | None => S%s None end) end.\n" % (g["open_start"], g["open_end"])
    v += "Definition code_emit_frame (supports sorted : bool) (f : frame3) : option sframe :=\n  if supports && negb (frame3_eqb f (code_default_frame sorted)) then Some (code_to_sframe f) else None.\n"
    v += "(* the check in front of it: supports_frame && kind == Range && sort.len() != 1 && (start or end is a literal other than 0) *)\n"
    if g["range_offset_rejection"]:
        v += ("Definition code_range_offset_rejected (supports : bool) (nkeys : nat) (f : frame3) : bool :=\n"
              "  match f with (k, a, b) => supports && wkind_eqb k KRange && negb (Nat.eqb nkeys 1)\n"
              "    && ((match a with Some i => negb (i =? 0) | None => false end) || (match b with Some i => negb (i =? 0) | None => false end)) end.\n")
    else:
        v += "Definition code_range_offset_rejected (supports : bool) (nkeys : nat) (f : frame3) : bool := false.\n"
    v += ("Definition code_emit_window (supports : bool) (nkeys : nat) (f : frame3) : option (option sframe) :=\n"
          "  if code_range_offset_rejected supports nkeys f then None else Some (code_emit_frame supports (negb (Nat.eqb nkeys 0)) f).\n\n")
    a = info["anchor"]
    v += "(* sql/pq/anchor.rs *)\n"
    v += "Definition complexity_order : list cx := [%s].\n" % "; ".join(CX[x] for x in a["order"])
    v += "Definition cx_lowest : cx := %s.\nDefinition cx_highest : cx := %s.\n" % (CX[a["lowest"]], CX[a["highest"]])
    v += "Definition windowed_complexity : cx := %s.   (* infer_complexity: compute.window.is_some() *)\n" % CX[a["windowed"]]
    v += "Definition aggregation_complexity : cx := %s.\n" % CX[a["aggregation"]]
    v += "Definition can_materialize (c required : cx) : bool := %s.\n" % ("cx_le complexity_order c required" if a["can_mat_op"] == "<=" else "cx_le complexity_order c required && negb (cx_eqb c required)")
    v += "Definition requirement_default : cx := %s.\n" % CX[a["default"]]
    v += "Definition compute_allows (c : cx) : cx := if cx_eqb c %s then %s else %s.\n" % (CX[a["compute_plain_key"]], CX[a["compute_plain"]], CX[a["compute_other"]])
    v += "Definition filter_allows (aggregate_follows : bool) : cx := if negb aggregate_follows then %s else %s.\n" % (CX[a["filter_no_agg"]], CX[a["filter_agg"]])
    v += "Definition sort_allows : cx := %s.\n" % CX[a["sort"]]
    v += "Definition take_sort_allows : cx := %s.\nDefinition distinct_on_allows : cx := %s.\n" % (CX[a["take_sort"]], CX[a["distinct_on"]])
    v += ("(* the tables Model/WinAtomic.v is parametrised by: the arms of get_requirements + is_split_required (Gen/GenSplit.v) *)\n"
          "Definition code_req_tables : req_tables :=\n  mk_req_tables complexity_order cx_highest requirement_default compute_allows filter_allows sort_allows take_sort_allows distinct_on_allows split_required records.\n")
    v += "(* what a use of a column inside one SELECT allows the column's complexity to be *)\n"
    v += ("Definition consumer_allows (u : consumer) : cx :=\n  match u with\n  | UWhere => filter_allows true        (* a filter in front of the SELECT's aggregate *)\n"
          "  | UHaving => filter_allows false\n  | UGroupKey => requirement_default\n  | UAggArg => compute_allows aggregation_complexity\n"
          "  | UWindowArg => compute_allows windowed_complexity\n  | UPlainExpr => compute_allows CPlain\n  | UOrderBy => sort_allows\n"
          "  | UJoinOn => requirement_default\n  | UProjection => cx_highest\n  end.\n\n")
    ro = info["reorder"]
    op, cxn = ro["take"]
    cond = {"all": "true", "none": "false", "==": "cx_eqb c %s", "!=": "negb (cx_eqb c %s)", "<=": "cx_le complexity_order c %s",
            "<": "cx_le complexity_order c %s && negb (cx_eqb c %s)", ">=": "cx_le complexity_order %s c", ">": "cx_le complexity_order %s c && negb (cx_eqb c %s)"}[op]
    if cxn is not None:
        cond = cond.replace("%s", CX[cxn])
    v += "(* sql/pq/preprocess.rs reorder: is a Compute of complexity c pulled in front of a preceding Take / Sort / anything else? *)\n"
    v += "Definition reorder_before_take (c : cx) : bool := %s.\n" % cond
    v += "Definition reorder_before_sort : bool := %s.\nDefinition reorder_before_other : bool := %s.\n" % ("true" if ro["sort"] else "false", "true" if ro["other"] else "false")
    v += "(* ... as the policy Model/WinReorder.v reorder is parametrised by (From / Join / Compute => false is checked by the translator) *)\n"
    v += "Definition code_reorder_policy : reorder_policy := mk_reorder_policy reorder_before_take reorder_before_sort reorder_before_other.\n\n"
    pp = info["propagation"]
    v += "(* semantic/resolver/flatten.rs: what happens to the `partition` / `window` fields around a group body, a window body and a relational argument *)\n"
    v += "Definition code_scope_policy : scope_policy := mk_scope_policy %s %s %s %s.\n" % (pp["group_exit"], pp["window_exit"], "true" if pp["sub_partition"] else "false", "true" if pp["sub_window"] else "false")
    v += "Definition code_aggregate_ends_sort : bool := %s.           (* an aggregate outside any group *)\n" % ("true" if pp["aggregate_ends_sort"] else "false")
    v += "Definition code_grouped_aggregate_ends_sort : bool := %s.   (* ... and one inside a group *)\n" % ("true" if pp["grouped_aggregate_ends_sort"] else "false")
    v += "(* semantic/resolver/flatten.rs and semantic/lowering.rs have the modelled shape (group -> partition, window -> frame, sort -> order; Compute.window := current window) *)\nDefinition propagation_shape_ok : bool := true.\n"
    gen_write("GenWindow", v)
    return info

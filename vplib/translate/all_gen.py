"""Run every translator (each writes its coq/Gen file, or a failure stub)."""
import importlib

MODULES = ["gen_dialect", "gen_sites", "gen_codegen", "gen_split", "gen_serde", "gen_entry", "gen_literal", "gen_keywords", "gen_ident_dialect", "gen_lex_tables", "gen_window", "gen_dialect_feat", "gen_c10_std", "gen_pratt", "gen_doc_prec", "gen_sql_strength", "gen_std_sql", "gen_expand", "gen_sites_state", "gen_c13_span", "gen_unpack", "gen_dialect_reads"]


def generate_all():
    out = {}
    for m in MODULES:
        mod = importlib.import_module("vplib.translate." + m)
        try:
            out[m] = mod.generate()
        except Exception as ex:  # translators fail closed; never crash setup
            out[m] = {"error": repr(ex)}
    return out

"""GenSqlStrength.v: binding_strength / associativity tables of sql/gen_expr.rs, operator_from_name,
and the constants the special-case emitters pass to translate_operand (process_null,
try_into_between, translate_operator, wrap_in_parenthesis).  needs_parentheses itself is an
algorithm: it is modelled by hand (Model/SqlPrint.v) and tied here by an exact shape check.
Fails closed."""
import re

from ..common import gen_write
from .c02_util import read_code
from ..rustscan import ExtractError, read, mask, block_after, match_arms, enum_variants, match_brace

GE = "prqlc/prqlc/src/sql/gen_expr.rs"
OPS = "prqlc/prqlc/src/sql/operators.rs"


def codes(s):
    return "[" + ";".join(str(ord(c)) for c in s) + "]"


def squeeze(s):
    return re.sub(r"\s+", "", s)


def impl_fn_match(src, m, impl_pat, fn_name):
    """arms of the single `match self {` inside fn fn_name of the impl block"""
    s, e = block_after(src, m, impl_pat)
    sub, msub = src[s:e], m[s:e]
    mm = re.search(r"\bfn\s+%s\s*\(\s*&self\s*\)\s*->\s*\w+\s*\{" % fn_name, msub)
    if not mm:
        raise ExtractError("fn %s not found in impl %s" % (fn_name, impl_pat))
    fs = mm.end() - 1
    fe = match_brace(msub, fs)
    body, mbody = sub[fs + 1:fe], msub[fs + 1:fe]
    ms = list(re.finditer(r"\bmatch\s+self\s*\{", mbody))
    if len(ms) != 1:
        raise ExtractError("expected exactly one `match self` in %s::%s" % (impl_pat, fn_name))
    a = ms[0].end() - 1
    b = match_brace(mbody, a)
    tail = mbody[b + 1:].strip()
    if tail:
        raise ExtractError("code after the match in %s::%s: %r" % (impl_pat, fn_name, tail[:40]))
    return match_arms(body, mbody, a + 1, b)


def nocomment(s):
    return re.sub(r"//[^\n]*", "", s)


def table(arms, value_re, what):
    """[(names, value)] + default"""
    out = {}
    default = None
    for pat, body in arms:
        pat = nocomment(pat)
        mv = re.fullmatch(value_re, body.strip())
        if not mv:
            raise ExtractError("%s: unrecognised arm value %r" % (what, body[:50]))
        val = mv.group(1)
        if pat.strip() == "_":
            default = val
            continue
        for name in pat.split("|"):
            name = name.strip()
            name = re.sub(r"^(BinaryOperator|UnaryOperator)::", "", name)
            if not re.fullmatch(r"[A-Za-z]+", name):
                raise ExtractError("%s: unrecognised pattern %r" % (what, pat[:60]))
            if name in out:
                raise ExtractError("%s: %s matched twice" % (what, name))
            out[name] = val
    if default is None:
        raise ExtractError("%s: no default arm" % what)
    return out, default


def extract():
    info = {"shape_errors": []}

    def soft(msg):
        info["shape_errors"].append(msg)
    src = read_code(GE)
    m = mask(src)
    info["assoc_variants"] = [v for v, _ in enum_variants(GE, "Associativity")]
    if info["assoc_variants"][:3] != ["Left", "Both", "Right"] or not all(re.fullmatch(r"[A-Za-z]+", v) for v in info["assoc_variants"]):
        raise ExtractError("enum Associativity changed: %s" % info["assoc_variants"])
    AV = "|".join(info["assoc_variants"])
    # BinaryOperator
    bs, bs_d = table(impl_fn_match(src, m, r"impl\s+SQLExpression\s+for\s+BinaryOperator\b", "binding_strength"), r"(\d+)", "BinaryOperator::binding_strength")
    ba, ba_d = table(impl_fn_match(src, m, r"impl\s+SQLExpression\s+for\s+BinaryOperator\b", "associativity"), r"Associativity::(%s)" % AV, "BinaryOperator::associativity")
    us, us_d = table(impl_fn_match(src, m, r"impl\s+SQLExpression\s+for\s+UnaryOperator\b", "binding_strength"), r"(\d+)", "UnaryOperator::binding_strength")
    # trait default associativity (UnaryOperator does not override it)
    ts, te = block_after(src, m, r"\btrait\s+SQLExpression\b")
    if not re.search(r"fnassociativity\(&self\)->Associativity\{Associativity::Both\}", squeeze(m[ts:te])):
        raise ExtractError("trait SQLExpression: default associativity is no longer Both")
    us_s, us_e = block_after(src, m, r"impl\s+SQLExpression\s+for\s+UnaryOperator\b")
    if re.search(r"\bfn\s+associativity\b", m[us_s:us_e]):
        raise ExtractError("UnaryOperator now overrides associativity: not modelled")
    # sql_ast::Expr
    arms = impl_fn_match(src, m, r"impl\s+SQLExpression\s+for\s+sql_ast::Expr\b", "binding_strength")
    ex = {}
    for pat, body in arms:
        p = squeeze(nocomment(pat))
        b = body.strip()
        if p == "sql_ast::Expr::BinaryOp{op,..}" and squeeze(b) == "op.binding_strength()":
            ex["binary"] = True
        elif p == "sql_ast::Expr::UnaryOp{op,..}" and squeeze(b) == "op.binding_strength()":
            ex["unary"] = True
        elif p == "sql_ast::Expr::Like{..}|sql_ast::Expr::ILike{..}" and re.fullmatch(r"\d+", b):
            ex["like"] = int(b)
        elif p == "sql_ast::Expr::IsNull(_)|sql_ast::Expr::IsNotNull(_)" and re.fullmatch(r"\d+", b):
            ex["isnull"] = int(b)
        elif p == "sql_ast::Expr::Between{..}" and re.fullmatch(r"\d+", b):
            ex["between"] = int(b)
        elif p == "sql_ast::Expr::Value(v)ifmatches!(&v.value,Value::Number(n,_)ifn.starts_with('-'))":
            mu = re.fullmatch(r"\{UnaryOperator::([A-Za-z]+)\.binding_strength\(\)\}", squeeze(b))
            if not mu:
                raise ExtractError("negative-number arm: unrecognised value %r" % b[:60])
            ex["negative_number_like"] = mu.group(1)
        elif p == "_" and re.fullmatch(r"\d+", b):
            ex["default"] = int(b)
        else:
            raise ExtractError("sql_ast::Expr::binding_strength: unmodelled arm %r => %r" % (pat[:60], body[:30]))
    for k in ("binary", "unary", "like", "isnull", "default"):
        if k not in ex:
            raise ExtractError("sql_ast::Expr::binding_strength: arm for %s missing" % k)
    info["expr"] = ex
    # ExprOrSource strength: Expr -> expr strength, Source -> its field
    es, ee = block_after(src, m, r"impl\s+SQLExpression\s+for\s+ExprOrSource\b")
    if "ExprOrSource::Expr(expr)=>expr.binding_strength(),ExprOrSource::Source(SourceExpr{binding_strength,..})=>*binding_strength," not in squeeze(m[es:ee]):
        raise ExtractError("ExprOrSource::binding_strength changed shape")
    # operator_from_name
    fs, fe = block_after(src, m, r"\bfn\s+operator_from_name\s*\(")
    fs, fe = block_after(src, m, r"\bfn\s+operator_from_name\s*\([^{]*\{")
    body, mbody = src[fs:fe], m[fs:fe]
    mm = re.search(r"\bmatch\s+name\s*\{", mbody)
    if not mm:
        raise ExtractError("operator_from_name: match not found")
    a = mm.end() - 1
    b = match_brace(mbody, a)
    ofn = []
    for pat, val in match_arms(body, mbody, a + 1, b):
        if pat.strip() == "_":
            if val.strip() != "None":
                raise ExtractError("operator_from_name default is not None")
            continue
        mp = re.fullmatch(r'"(std\.[a-z_.]+)"', pat.strip())
        mv = re.fullmatch(r"Some\(([A-Za-z]+)\)", val.strip())
        if not (mp and mv):
            raise ExtractError("operator_from_name: unrecognised arm %r => %r" % (pat, val))
        ofn.append((mp.group(1), mv.group(1)))
    info["operator_from_name"] = ofn
    names = []
    for n in list(bs) + list(ba) + [v for _, v in ofn]:
        if n not in names:
            names.append(n)
    info["bin_names"] = names
    info["bin_strength"] = {n: int(bs.get(n, bs_d)) for n in names}
    info["bin_strength_default"] = int(bs_d)
    info["bin_assoc"] = {n: ba.get(n, ba_d) for n in names}
    info["bin_assoc_default"] = ba_d
    un = list(us)
    info["un_names"] = un
    info["un_strength"] = {n: int(us[n]) for n in un}
    info["un_strength_default"] = int(us_d)

    # needs_parentheses: exact shape
    ns, ne = block_after(src, m, r"\bfn\s+needs_parentheses\s*\([^{]*\{")
    want = ("letrule_3a=matches!(parent_associativity,Associativity::Both);"
            "letrule_3b_left=is_left&&parent_associativity.left_associative();"
            "letrule_3b_right=!is_left&&parent_associativity.right_associative();"
            "matchexpr.binding_strength().cmp(&parent_strength){Ordering::Greater=>false,Ordering::Less=>true,"
            "Ordering::Equal=>!(rule_3a||rule_3b_left||rule_3b_right),}")
    if squeeze(m[ns:ne]) != want:
        soft("needs_parentheses no longer has the modelled body")
    as_, ae = block_after(src, m, r"\bimpl\s+Associativity\b")
    wa = ("fnleft_associative(&self)->bool{matches!(self,Associativity::Left|Associativity::Both)}"
          "fnright_associative(&self)->bool{matches!(self,Associativity::Right|Associativity::Both)}")
    if squeeze(m[as_:ae]) != wa:
        soft("impl Associativity no longer has the modelled body")
    # translate_operand: wraps iff needs_parentheses
    os_, oe = block_after(src, m, r"\bfn\s+translate_operand\s*\([^{]*\{")
    if squeeze(m[os_:oe]) != "letexpr=translate_expr(expr,context)?;ifneeds_parentheses(&expr,is_left,parent_strength,parent_associativity){Ok(expr.wrap_in_parenthesis())}else{Ok(expr)}":
        soft("translate_operand no longer has the modelled body")
    # wrap_in_parenthesis: Source strength after wrapping
    ws, we = block_after(src, m, r"\bfn\s+wrap_in_parenthesis\s*\([^{]*\{")
    mw = re.search(r"ExprOrSource::Source\(SourceExpr\{text,binding_strength:(\d+),window_frame,\}\)", squeeze(m[ws:we]))
    if not mw or "sql_ast::Expr::Nested(expr)" not in squeeze(m[ws:we]):
        raise ExtractError("wrap_in_parenthesis changed shape")
    info["wrapped_source_strength"] = int(mw.group(1))
    # translate_binary_operator
    bs_, be = block_after(src, m, r"\bfn\s+translate_binary_operator\s*\([^{]*\{")
    sq = squeeze(m[bs_:be])
    if not ("letstrength=op.binding_strength();" in sq
            and "letleft=translate_operand(left.clone(),true,strength,op.associativity(),ctx)?;" in sq
            and "letright=translate_operand(right.clone(),false,strength,op.associativity(),ctx)?;" in sq
            and "Ok(sql_ast::Expr::BinaryOp{left,op,right})" in sq):
        soft("translate_binary_operator changed shape")
    # process_null
    ps, pe = block_after(src, m, r"\bfn\s+process_null\s*\([^{]*\{")
    sq = squeeze(m[ps:pe])
    calls = re.findall(r"translate_operand\(operand\.clone\(\),(true|false),strength,Associativity::(%s),ctx\)" % AV, sq)
    if len(calls) != 2 or sq.count("translate_operand(") != 2 or calls[0] != calls[1]:
        raise ExtractError("process_null: translate_operand calls changed")
    if "letstrength=sql_ast::Expr::IsNull(" not in sq or "letstrength=sql_ast::Expr::IsNotNull(" not in sq:
        raise ExtractError("process_null: strength is no longer that of IsNull/IsNotNull")
    if "letoperand=ifmatches!(a.kind,rq::ExprKind::Literal(Literal::Null)){b}else{a};" not in sq:
        soft("process_null: operand selection changed")
    info["null_operand"] = calls[0]
    # try_into_between
    ts_, te_ = block_after(src, m, r"\bfn\s+try_into_between\s*\([^{]*\{")
    sq = squeeze(m[ts_:te_])
    calls = re.findall(r"translate_operand\((a_l|a_r|b_r),(true|false),(\d+),Associativity::(%s),ctx\)" % AV, sq)
    if [c[0] for c in calls] != ["a_l", "a_r", "b_r"] or sq.count("translate_operand(") != 3:
        raise ExtractError("try_into_between: translate_operand calls changed")
    if 'ifname=="std.and"' not in squeeze(src[ts_:te_]) or 'ifa_name=="std.gte"&&b_name=="std.lte"' not in squeeze(src[ts_:te_]) or "ifa_l==b_l{" not in sq:
        soft("try_into_between: recognised pattern changed")
    info["between_operands"] = [(c[1], int(c[2]), c[3]) for c in calls]
    # translate_expr: order of the special cases for operators
    xs, xe = block_after(src, m, r"\bfn\s+translate_expr\s*\([^{]*\{")
    sq = squeeze(src[xs:xe])
    need = ['"std.eq"|"std.ne"=>{ifletSome([a,b])=', ]
    if '"std.eq"|"std.ne"=>{iflet[a,b]=args.as_slice(){ifa.kind==rq::ExprKind::Literal(Literal::Null)||b.kind==rq::ExprKind::Literal(Literal::Null){returnOk(process_null(name,args,ctx)?.into());}else{letop=operator_from_name(name).unwrap();returnOk(translate_binary_operator(a,b,op,ctx)?.into());}}}' not in sq:
        soft("translate_expr: std.eq/std.ne special case changed")
    if '_=>matchtry_into_between(expr.clone(),ctx)?{Some(between_expr)=>returnOk(between_expr.into()),None=>{ifletSome(op)=operator_from_name(name){iflet[left,right]=args.as_slice(){returnOk(translate_binary_operator(left,right,op,ctx)?.into());}}}},' not in sq:
        soft("translate_expr: between / binary operator fall-through changed")
    if "super::operators::translate_operator_expr(expr,ctx)?" not in sq:
        soft("translate_expr: template fall-through changed")
    mm = re.findall(r"rq::ExprKind::SString\(s_string_items\)=>\{lettext=translate_sstring\(s_string_items,ctx\)\?;ExprOrSource::Source\(SourceExpr\{text,binding_strength:(\d+),", sq)
    if len(mm) != 1:
        raise ExtractError("translate_expr: s-string strength not found")
    info["sstring_strength"] = int(mm[0])
    # case: trailing literal true => ELSE
    if "letdefault=cases.last().filter(|last|{matches!(last.condition.kind,rq::ExprKind::Literal(Literal::Boolean(true)))})" not in sq or \
       ".or(Some(sql_ast::Expr::Value(Value::Null.into())))" not in sq:
        soft("translate_expr: CASE default handling changed")

    # process_concat / collect_concat_args (Model/SqlPrint.v concat_args, c_concat): flattening, CONCAT( ) vs `||`,
    # every part through translate_expr (required strength 0)
    cs_, ce_ = block_after(src, m, r"\bfn\s+collect_concat_args\s*\([^{]*\{")
    if squeeze(src[cs_:ce_]) != 'match&expr.kind{rq::ExprKind::Operator{name,args}ifname=="std.concat"=>{args.iter().flat_map(collect_concat_args).collect()}_=>vec![expr],}':
        soft("collect_concat_args no longer has the modelled body")
    pc_, pe_ = block_after(src, m, r"\bfn\s+process_concat\s*\([^{]*\{")
    sq = squeeze(src[pc_:pe_])
    want_pc = ["ifctx.dialect.has_concat_function(){letconcat_args=collect_concat_args(expr);",
               "translate_expr((*a).clone(),ctx).map(|x|FunctionArg::Unnamed(FunctionArgExpr::Expr(x.into_ast())))",
               'sql_ast::Ident::new("CONCAT")',
               "}else{letconcat_args=collect_concat_args(expr);letmutiter=concat_args.into_iter();letfirst_expr=iter.next().unwrap();"
               "letmutcurrent_expr=translate_expr(first_expr.clone(),ctx)?.into_ast();forarginiter{lettranslated_arg=translate_expr(arg.clone(),ctx)?.into_ast();"
               "current_expr=sql_ast::Expr::BinaryOp{left:Box::new(current_expr),op:BinaryOperator::StringConcat,right:Box::new(translated_arg),};}Ok(current_expr)}"]
    if not all(w in sq for w in want_pc) or sq.count("translate_operand(") != 0:
        soft("process_concat no longer has the modelled body")
    if '"std.concat"=>returnOk(process_concat(&expr,ctx)?.into()),' not in squeeze(src[xs:xe]):
        soft("translate_expr: std.concat no longer goes to process_concat")

    # operators.rs: translate_operator
    osrc = read_code(OPS)
    om = mask(osrc)
    s2, e2 = block_after(osrc, om, r"\bfn\s+translate_operator\s*\([^{]*\{")
    sq = squeeze(om[s2:e2])
    md = re.search(r"letparent_binding_strength=binding_strength\.unwrap_or\((\d+)\);", sq)
    mc = re.search(r"letarg=translate_operand\(arg,(true|false),required_strength,super::gen_expr::Associativity::(%s),ctx,\)\?;" % AV, sq)
    mr = "letrequired_strength=format.as_ref().and_then(|f|f.parse::<i32>().ok()).unwrap_or(parent_binding_strength);" in sq
    if not (md and mc and mr):
        raise ExtractError("translate_operator changed shape")
    guard = 'letsource=arg.into_source();iftext.ends_with(\'-\')&&source.starts_with(\'-\'){text+="(";text+=&source;text+=")";}else{text+=&source;}'
    if guard in squeeze(nocomment(osrc[s2:e2])) and "text+=s;" in sq:
        info["minus_guard"] = True       # fixes/F3b: an operand whose text starts with `-` directly after a `-` is wrapped
    elif "text+=&arg.into_source();" in sq and "text+=s;" in sq:
        info["minus_guard"] = False
    else:
        info["minus_guard"] = False
        soft("translate_operator: text assembly changed")
    mco = re.search(r"if!ctx\.query\.window_function\{ifletSome\(default\)=coalesce\{text=format!\(\s*\)?", sq)
    if "binding_strength=100;" not in sq.split("ifletSome(default)=coalesce")[1]:
        soft("translate_operator: coalesce wrapping changed")
    info["template_default_strength"] = int(md.group(1))
    info["template_operand"] = (mc.group(1), mc.group(2))
    # params order: named_params then params
    if "letparams=func_def.named_params.iter().chain(func_def.params.iter())" not in sq:
        soft("translate_operator: parameter order changed")
    return info


def generate():
    try:
        info = extract()
    except ExtractError as ex:
        gen_write("GenSqlStrength", "(* EXTRACTION FAILED: %s *)\nDefinition gen_sql_strength_extraction_failed := tt.\n" % str(ex).replace("*)", "* )"))
        return {"error": str(ex)}
    B = lambda s: "true" if s == "true" else "false"
    v = "(* generated from /repo/prqlc/prqlc/src/sql/{gen_expr,operators}.rs on every run by vplib/translate/gen_sql_strength.py -- do not edit *)\n"
    v += "From Coq Require Import List NArith.\nImport ListNotations.\n\n"
    v += "Inductive assoc3 := " + " | ".join("A_" + x for x in info["assoc_variants"]) + ".\n"
    v += "Inductive sqlbin := " + " | ".join("SB_" + n for n in info["bin_names"]) + ".\n"
    v += "Definition sqlbin_all : list sqlbin := [" + "; ".join("SB_" + n for n in info["bin_names"]) + "].\n"
    v += "Definition sqlbin_idx (o : sqlbin) : nat := match o with " + " | ".join("SB_%s => %d" % (n, i) for i, n in enumerate(info["bin_names"])) + " end.\n"
    v += "Definition sqlbin_strength (o : sqlbin) : nat := match o with " + " | ".join("SB_%s => %d" % (n, info["bin_strength"][n]) for n in info["bin_names"]) + " end.\n"
    v += "Definition sqlbin_strength_default : nat := %d.\n" % info["bin_strength_default"]
    v += "Definition sqlbin_assoc (o : sqlbin) : assoc3 := match o with " + " | ".join("SB_%s => A_%s" % (n, info["bin_assoc"][n]) for n in info["bin_names"]) + " end.\n"
    v += "Inductive sqlun := " + " | ".join("SU_" + n for n in info["un_names"]) + ".\n"
    v += "Definition sqlun_all : list sqlun := [" + "; ".join("SU_" + n for n in info["un_names"]) + "].\n"
    v += "Definition sqlun_strength (o : sqlun) : nat := match o with " + " | ".join("SU_%s => %d" % (n, info["un_strength"][n]) for n in info["un_names"]) + " end.\n"
    v += "Definition sqlun_strength_default : nat := %d.\n" % info["un_strength_default"]
    v += "Definition expr_strength_like : nat := %d.\nDefinition expr_strength_isnull : nat := %d.\nDefinition expr_strength_default : nat := %d.\n" % (
        info["expr"]["like"], info["expr"]["isnull"], info["expr"]["default"])
    v += "Definition expr_strength_between : nat := %d. (* %s *)\n" % (
        info["expr"].get("between", info["expr"]["default"]), "its own arm" if "between" in info["expr"] else "falls under the default arm")
    nn = info["expr"].get("negative_number_like")
    if nn is not None and nn not in info["un_names"]:
        raise_msg = "negative-number arm refers to unknown UnaryOperator::%s" % nn
        gen_write("GenSqlStrength", "(* EXTRACTION FAILED: %s *)\nDefinition gen_sql_strength_extraction_failed := tt.\n" % raise_msg)
        return {"error": raise_msg}
    v += "(* a numeric literal whose text starts with `-`: Some u = it has the strength of unary operator u, None = default *)\n"
    v += "Definition negative_number_strength : option nat := %s.\n" % ("None" if nn is None else "Some (sqlun_strength SU_%s)" % nn)
    v += "(* operator_from_name: RQ operator name -> sqlparser BinaryOperator *)\n"
    v += "Definition operator_from_name : list (list N * sqlbin) :=\n  ([ " + ";\n    ".join("(%s, SB_%s) (* %s *)" % (codes(n), o, n) for n, o in info["operator_from_name"]) + " ])%N.\n"
    v += "(* constants passed to translate_operand: (is_left, required strength, associativity) *)\n"
    v += "Definition null_operand_is_left : bool := %s.\nDefinition null_operand_assoc : assoc3 := A_%s.\n" % (B(info["null_operand"][0]), info["null_operand"][1])
    v += "Definition between_operands : list (bool * nat * assoc3) := [" + "; ".join("(%s, %d, A_%s)" % (B(a), b, c) for a, b, c in info["between_operands"]) + "].\n"
    v += "Definition template_operand_is_left : bool := %s.\nDefinition template_operand_assoc : assoc3 := A_%s.\n" % (B(info["template_operand"][0]), info["template_operand"][1])
    v += "Definition template_default_strength : nat := %d.\n" % info["template_default_strength"]
    v += "Definition wrapped_source_strength : nat := %d.\nDefinition sstring_strength : nat := %d.\n" % (info["wrapped_source_strength"], info["sstring_strength"])
    v += "(* translate_operator wraps an operand whose text starts with `-` when the template text in front of it ends with `-` *)\n"
    v += "Definition minus_guard : bool := %s.\n" % ("true" if info.get("minus_guard") else "false")
    v += "(* needs_parentheses / translate_operand / translate_binary_operator / process_null / try_into_between /\n   translate_operator have exactly the bodies modelled in Model/SqlPrint.v (checked textually by the translator) *)\n"
    for e in info["shape_errors"]:
        v += "(* CHANGED: %s *)\n" % e.replace("*)", "* )")
    v += "Definition algorithm_shapes_ok : bool := %s.\n" % ("false" if info["shape_errors"] else "true")
    gen_write("GenSqlStrength", v)
    if info["shape_errors"]:
        info["error"] = "hand-modelled algorithm(s) changed text: " + "; ".join(info["shape_errors"])
    return info

"""GenSplit.v: `is_split_required` of sql/pq/anchor.rs translated arm by arm into a Coq function
(Tie A).  Supported body forms: contains_any(following, [..]) ; if following.contains("X") {..} else {..} ;
!following.is_empty() ; true ; false.  Anything else = extraction failure (fail closed).
Items and statements guarded by `#[cfg(prqlc_verif)]` (verification hooks, never compiled in normal builds) are removed from
the file before anything is recognised (`strip_cfg_verif`); every other way of mentioning that cfg fails closed."""
import re

from ..common import gen_write
from ..rustscan import ExtractError, read, mask, block_after, match_arms, strip_comments

# names as produced by SqlTransform::as_str (strum AsRefStr of the variant, or of the wrapped rq::Transform)
NAMES = ["From", "Join", "Compute", "Filter", "Aggregate", "Sort", "Take", "Distinct", "DistinctOn", "Union", "Except", "Intersect", "Loop", "Select", "Append"]

# pattern text -> model kind
PATS = {
    "SqlTransform::From(_)": "KFrom",
    "SqlTransform::Join { .. }": "KJoin",
    "Super(Aggregate { .. })": "KAggregate",
    "Super(Filter(_))": "KFilter",
    "Super(Compute(_))": "KCompute",
    "Super(Take(_))": "KTake",
    "Super(Take(take))": "KTake",
    "Super(Sort(_))": "KSort",
    "Super(Select(_))": "KSelect",
    "Super(Loop(_))": "KLoop",
    "Super(Append(_))": "KAppend",
    "SqlTransform::DistinctOn(_)": "KDistinctOn",
    "SqlTransform::Distinct": "KDistinct",
    "SqlTransform::Union { .. }": "KUnion",
    "SqlTransform::Except { .. }": "KExcept",
    "SqlTransform::Intersect { .. }": "KIntersect",
}
ALL_KINDS = ["KFrom", "KJoin", "KFilter", "KAggregate", "KCompute", "KComputeAgg", "KSort", "KTake", "KTakeSorted", "KSelect", "KLoop", "KDistinct", "KDistinctOn", "KUnion", "KExcept", "KIntersect"]


def tr_expr(t):
    t = re.sub(r"\s+", " ", t).strip()
    if t.startswith("{") and t.endswith("}"):
        return tr_expr(t[1:-1])
    m = re.fullmatch(r"contains_any\(\s*following\s*,\s*\[(.*?)\]\s*,?\s*\)", t)
    if m:
        names = re.findall(r'"([A-Za-z]+)"', m.group(1))
        rest = re.sub(r'"[A-Za-z]+"', "", m.group(1)).replace(",", "").strip()
        if rest:
            raise ExtractError("contains_any list has non-literal entries: %r" % m.group(1))
        for n in names:
            if n not in NAMES:
                raise ExtractError("unknown transform name %r" % n)
        return "contains_any f [%s]" % "; ".join("N" + n for n in names)
    m = re.fullmatch(r'if following\.contains\("([A-Za-z]+)"\) (\{.*\}) else (\{.*\})', t)
    if m:
        # split the two blocks by brace matching
        body = t[t.index("{"):]
        depth = 0
        for i, ch in enumerate(body):
            if ch == "{":
                depth += 1
            elif ch == "}":
                depth -= 1
                if depth == 0:
                    first = body[:i + 1]
                    rest = body[i + 1:].strip()
                    break
        if not rest.startswith("else"):
            raise ExtractError("if without else in is_split_required")
        return "(if mem N%s f then %s else %s)" % (m.group(1), tr_expr(first), tr_expr(rest[4:].strip()))
    m = re.fullmatch(r"(contains_any\(.*?\)) \|\| \( ?!take\.sort\.is_empty\(\) && (contains_any\(.*?\)) ?\)", t)
    if m:
        # only in the Take arm: the second disjunct applies to takes that carry a sort (kind KTakeSorted)
        return ("TAKE", tr_expr(m.group(1)), tr_expr(m.group(2)))
    if t == "!following.is_empty()":
        return "negb (is_empty f)"
    if t in ("true", "false"):
        return t
    raise ExtractError("unsupported expression in is_split_required: %r" % t[:120])


_ITEM_BRACE = re.compile(r"(?:pub(?:\([a-z]+\))?\s+)?(?:unsafe\s+)?(?:mod|fn|impl|struct|enum|trait|union)\b")
_BLOCK_STMT = re.compile(r"(?:if|match|for|while|loop|unsafe)\b")
_ITEM_SEMI = re.compile(r"(?:pub(?:\([a-z]+\))?\s+)?(?:use|const|static|type)\b")


def strip_cfg_verif(src):
    """Remove everything guarded by `#[cfg(prqlc_verif)]` (verification hooks: never compiled in normal builds):
    the attribute and the ONE item or statement it applies to -- an item with a body (`mod verif { .. }`, `fn`),
    an item ending in `;` (`use`), a block statement (`{ .. }`, `if .. { .. } else { .. }`, `match`, loops), or a statement running to the first `;` outside all
    brackets (`let v = json!({..});`, `let (a, b) = { .. };`, `log::debug!(..);`, `ctx.verif_ensured(x);`).
    Comment/string aware (works on the mask).  Fails closed: any other mention of `prqlc_verif` (cfg!(..),
    cfg_attr, not(..), an attribute on an expression or a match arm) is an extraction error."""
    from ..rustscan import match_brace as _mb
    while True:
        m = mask(src)
        a = re.search(r"#\s*\[\s*cfg\s*\(\s*prqlc_verif\s*\)\s*\]", m)
        if not a:
            break
        i = a.end()
        while i < len(m) and m[i].isspace():
            i += 1
        # further attributes on the same item (`#[allow(..)]`) belong to it
        while m.startswith("#", i):
            ob = m.find("[", i)
            if ob < 0 or m[i + 1:ob].strip():
                raise ExtractError("cfg(prqlc_verif): attribute not understood")
            i = _mb(m, ob) + 1
            while i < len(m) and m[i].isspace():
                i += 1
        if i >= len(m):
            raise ExtractError("cfg(prqlc_verif): nothing follows the attribute")
        if m[i] == "{":
            end = _mb(m, i) + 1
        elif _BLOCK_STMT.match(m, i):
            # `if c { .. } [else if d { .. }] [else { .. }]`, `match x { .. }`, `for`/`while`/`loop`/`unsafe` blocks used as
            # statements: the statement ends with the block (and its else chain), not at a `;`
            j = i
            while True:
                depth = 0
                while j < len(m) and not (m[j] == "{" and depth == 0):
                    if m[j] in "([":
                        depth += 1
                    elif m[j] in ")]":
                        depth -= 1
                    elif m[j] == ";" and depth == 0:
                        raise ExtractError("cfg(prqlc_verif): block statement without a block")
                    j += 1
                if j >= len(m):
                    raise ExtractError("cfg(prqlc_verif): block statement without a block")
                j = _mb(m, j) + 1
                k = j
                while k < len(m) and m[k].isspace():
                    k += 1
                if re.match(r"else\b", m[k:]):
                    j = k + 4
                    continue
                break
            end = j
            k = j
            while k < len(m) and m[k].isspace():
                k += 1
            if m.startswith(";", k):
                end = k + 1
        elif _ITEM_BRACE.match(m, i):
            ob = m.find("{", i)
            semi = m.find(";", i)
            if ob < 0 or (0 <= semi < ob):
                raise ExtractError("cfg(prqlc_verif): item without a body")
            end = _mb(m, ob) + 1
        elif _ITEM_SEMI.match(m, i) or re.match(r"let\b|[A-Za-z_(&*!]", m[i:]):
            depth, j = 0, i
            while j < len(m):
                ch = m[j]
                if ch in "([{":
                    depth += 1
                elif ch in ")]}":
                    depth -= 1
                    if depth < 0:
                        raise ExtractError("cfg(prqlc_verif): guarded expression is not a statement (no `;` before the enclosing bracket closes)")
                elif ch == ";" and depth == 0:
                    break
                j += 1
            if j >= len(m):
                raise ExtractError("cfg(prqlc_verif): unterminated statement")
            end = j + 1
        else:
            raise ExtractError("cfg(prqlc_verif): cannot tell what the attribute guards: %r" % src[i:i + 40])
        src = src[:a.start()] + src[end:]
    if "prqlc_verif" in mask(src):
        raise ExtractError("prqlc_verif is mentioned outside a plain #[cfg(prqlc_verif)] attribute")
    return src


def extract():
    src = strip_cfg_verif(strip_comments(read("prqlc/prqlc/src/sql/pq/anchor.rs")))
    if re.search(r"\bverif(?:_[a-z_]+|::)", mask(src)):
        raise ExtractError("a verification-hook name (verif_* / verif::) is used outside cfg(prqlc_verif) code")
    m = mask(src)
    s, e = block_after(src, m, r"fn\s+is_split_required\s*\([^)]*\)\s*->\s*bool\s*\{")
    body, mbody = src[s:e], m[s:e]
    info = {}
    early = re.search(r"if let Super\(Compute\(decl\)\) = transform \{\s*if decl\.is_aggregation \{\s*return false;\s*\}\s*\}", body)
    info["agg_early_false"] = bool(early)
    mnested = re.search(r"fn contains_any<", mbody)
    mb2 = mbody
    if mnested:
        from ..rustscan import match_brace as _mb
        ob2 = mbody.index("{", mnested.end())
        mb2 = mbody[:mnested.start()] + mbody[_mb(mbody, ob2) + 1:]
    if len(re.findall(r"\breturn\b", mb2)) != (1 if early else 0):
        raise ExtractError("is_split_required: unexpected `return`")
    ins = re.search(r"if !split \{\s*following\.insert\(transform\.as_str\(\)\.to_string\(\)\);\s*\}\s*split\s*$", body.strip())
    if not ins:
        raise ExtractError("is_split_required: tail (insert into following unless split; return split) not recognised")
    ms = re.search(r"let split = match transform \{", mbody)
    if not ms:
        raise ExtractError("is_split_required: `let split = match transform` not found")
    from ..rustscan import match_brace
    ob = s + ms.end() - 1
    cb = match_brace(m, ob)
    arms = match_arms(src, m, ob + 1, cb)
    cases = {}
    default = None
    for pat, b in arms:
        pats = [re.sub(r"\s+", " ", p).strip() for p in pat.split("|")]
        ex = None
        for p in pats:
            if p == "_":
                default = tr_expr(b)
                if isinstance(default, tuple):
                    raise ExtractError("`take.sort` is consulted in the default arm")
                continue
            if p not in PATS:
                raise ExtractError("is_split_required: unknown pattern %r" % p)
            ex = ex or tr_expr(b)
            k = PATS[p]
            if k in cases:
                raise ExtractError("duplicate arm for %s" % k)
            if isinstance(ex, tuple):
                if k != "KTake" or p != "Super(Take(take))":
                    raise ExtractError("`take.sort` is consulted outside the Take arm")
                cases["KTake"] = ex[1]
                cases["KTakeSorted"] = "(%s || %s)" % (ex[1], ex[2])
            else:
                if "take" in re.sub(r'"[A-Za-z]+"', "", b).replace("Take", ""):
                    raise ExtractError("the Take arm consults the take in an unsupported way")
                cases[k] = ex
                if k == "KTake":
                    cases["KTakeSorted"] = ex
    if default is None:
        raise ExtractError("is_split_required: no default arm")
    # contains_any helper must still be the plain membership loop
    if not re.search(r"fn contains_any<const C: usize>\(set: &HashSet<String>, elements: \[&'static str; C\]\) -> bool \{\s*for t in elements \{\s*if set\.contains\(t\) \{\s*return true;\s*\}\s*\}\s*false\s*\}", src):
        raise ExtractError("contains_any helper changed")
    info["cases"] = cases
    info["default"] = default
    return info


def generate():
    try:
        info = extract()
    except ExtractError as ex:
        gen_write("GenSplit", "(* EXTRACTION FAILED: %s *)\nDefinition gen_split_extraction_failed := tt.\n" % str(ex).replace("*)", "* )"))
        return {"error": str(ex)}
    v = "(* generated from /repo/prqlc/prqlc/src/sql/pq/anchor.rs (is_split_required) on every run -- do not edit *)\n"
    v += "From Coq Require Import List Bool.\nFrom PV Require Import Model.SplitBase.\nImport ListNotations.\n\n"
    v += "Definition split_required (k : kind) (f : list nm) : bool :=\n  match k with\n"
    if info["agg_early_false"]:
        v += "  | KComputeAgg => false   (* early return: aggregation computes never split and are not recorded *)\n"
    else:
        v += "  | KComputeAgg => %s\n" % info["cases"].get("KCompute", info["default"])
    for k in ALL_KINDS:
        if k == "KComputeAgg":
            continue
        v += "  | %s => %s\n" % (k, info["cases"].get(k, info["default"]))
    v += "  end.\n\n"
    v += "(* a transform that did not split is inserted into `following` under its as_str name, except the early-return case *)\n"
    v += "Definition records (k : kind) : bool := %s.\n" % ("match k with KComputeAgg => false | _ => true end" if info["agg_early_false"] else "true")
    gen_write("GenSplit", v)
    return info

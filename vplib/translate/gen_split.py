"""GenSplit.v: `is_split_required` of sql/pq/anchor.rs translated arm by arm into a Coq function
(Tie A).  Supported body forms: contains_any(following, [..]) ; if following.contains("X") {..} else {..} ;
!following.is_empty() ; true ; false.  Anything else = extraction failure (fail closed)."""
import re

from ..common import gen_write
from ..rustscan import ExtractError, read, mask, block_after, match_arms, strip_comments

# names as produced by SqlTransform::as_str (strum AsRefStr of the variant, or of the wrapped rq::Transform)
NAMES = ["From", "Join", "Compute", "Filter", "Aggregate", "Sort", "Take", "Distinct", "DistinctOn", "Union", "Except", "Intersect", "Loop", "Select", "Append"]

# pattern text -> model kind
PATS = {
    "SqlTransform::From(_)": "KFrom",
    "SqlTransform::Join { .. }": "KJoin",
    "Super(Aggregate { .. })": "KAggregate",
    "Super(Filter(_))": "KFilter",
    "Super(Compute(_))": "KCompute",
    "Super(Take(_))": "KTake",
    "Super(Sort(_))": "KSort",
    "Super(Select(_))": "KSelect",
    "Super(Loop(_))": "KLoop",
    "Super(Append(_))": "KAppend",
    "SqlTransform::DistinctOn(_)": "KDistinctOn",
    "SqlTransform::Distinct": "KDistinct",
    "SqlTransform::Union { .. }": "KUnion",
    "SqlTransform::Except { .. }": "KExcept",
    "SqlTransform::Intersect { .. }": "KIntersect",
}
ALL_KINDS = ["KFrom", "KJoin", "KFilter", "KAggregate", "KCompute", "KComputeAgg", "KSort", "KTake", "KSelect", "KLoop", "KDistinct", "KDistinctOn", "KUnion", "KExcept", "KIntersect"]


def tr_expr(t):
    t = re.sub(r"\s+", " ", t).strip()
    if t.startswith("{") and t.endswith("}"):
        return tr_expr(t[1:-1])
    m = re.fullmatch(r"contains_any\(\s*following\s*,\s*\[(.*?)\]\s*,?\s*\)", t)
    if m:
        names = re.findall(r'"([A-Za-z]+)"', m.group(1))
        rest = re.sub(r'"[A-Za-z]+"', "", m.group(1)).replace(",", "").strip()
        if rest:
            raise ExtractError("contains_any list has non-literal entries: %r" % m.group(1))
        for n in names:
            if n not in NAMES:
                raise ExtractError("unknown transform name %r" % n)
        return "contains_any f [%s]" % "; ".join("N" + n for n in names)
    m = re.fullmatch(r'if following\.contains\("([A-Za-z]+)"\) (\{.*\}) else (\{.*\})', t)
    if m:
        # split the two blocks by brace matching
        body = t[t.index("{"):]
        depth = 0
        for i, ch in enumerate(body):
            if ch == "{":
                depth += 1
            elif ch == "}":
                depth -= 1
                if depth == 0:
                    first = body[:i + 1]
                    rest = body[i + 1:].strip()
                    break
        if not rest.startswith("else"):
            raise ExtractError("if without else in is_split_required")
        return "(if mem N%s f then %s else %s)" % (m.group(1), tr_expr(first), tr_expr(rest[4:].strip()))
    if t == "!following.is_empty()":
        return "negb (is_empty f)"
    if t in ("true", "false"):
        return t
    raise ExtractError("unsupported expression in is_split_required: %r" % t[:120])


def extract():
    src = strip_comments(read("prqlc/prqlc/src/sql/pq/anchor.rs"))
    m = mask(src)
    s, e = block_after(src, m, r"fn\s+is_split_required\s*\([^)]*\)\s*->\s*bool\s*\{")
    body, mbody = src[s:e], m[s:e]
    info = {}
    early = re.search(r"if let Super\(Compute\(decl\)\) = transform \{\s*if decl\.is_aggregation \{\s*return false;\s*\}\s*\}", body)
    info["agg_early_false"] = bool(early)
    mnested = re.search(r"fn contains_any<", mbody)
    mb2 = mbody
    if mnested:
        from ..rustscan import match_brace as _mb
        ob2 = mbody.index("{", mnested.end())
        mb2 = mbody[:mnested.start()] + mbody[_mb(mbody, ob2) + 1:]
    if len(re.findall(r"\breturn\b", mb2)) != (1 if early else 0):
        raise ExtractError("is_split_required: unexpected `return`")
    ins = re.search(r"if !split \{\s*following\.insert\(transform\.as_str\(\)\.to_string\(\)\);\s*\}\s*split\s*$", body.strip())
    if not ins:
        raise ExtractError("is_split_required: tail (insert into following unless split; return split) not recognised")
    ms = re.search(r"let split = match transform \{", mbody)
    if not ms:
        raise ExtractError("is_split_required: `let split = match transform` not found")
    from ..rustscan import match_brace
    ob = s + ms.end() - 1
    cb = match_brace(m, ob)
    arms = match_arms(src, m, ob + 1, cb)
    cases = {}
    default = None
    for pat, b in arms:
        pats = [re.sub(r"\s+", " ", p).strip() for p in pat.split("|")]
        ex = None
        for p in pats:
            if p == "_":
                default = tr_expr(b)
                continue
            if p not in PATS:
                raise ExtractError("is_split_required: unknown pattern %r" % p)
            ex = ex or tr_expr(b)
            k = PATS[p]
            if k in cases:
                raise ExtractError("duplicate arm for %s" % k)
            cases[k] = ex
    if default is None:
        raise ExtractError("is_split_required: no default arm")
    # contains_any helper must still be the plain membership loop
    if not re.search(r"fn contains_any<const C: usize>\(set: &HashSet<String>, elements: \[&'static str; C\]\) -> bool \{\s*for t in elements \{\s*if set\.contains\(t\) \{\s*return true;\s*\}\s*\}\s*false\s*\}", src):
        raise ExtractError("contains_any helper changed")
    info["cases"] = cases
    info["default"] = default
    return info


def generate():
    try:
        info = extract()
    except ExtractError as ex:
        gen_write("GenSplit", "(* EXTRACTION FAILED: %s *)\nDefinition gen_split_extraction_failed := tt.\n" % str(ex).replace("*)", "* )"))
        return {"error": str(ex)}
    v = "(* generated from /repo/prqlc/prqlc/src/sql/pq/anchor.rs (is_split_required) on every run -- do not edit *)\n"
    v += "From Coq Require Import List Bool.\nFrom PV Require Import Model.SplitBase.\nImport ListNotations.\n\n"
    v += "Definition split_required (k : kind) (f : list nm) : bool :=\n  match k with\n"
    if info["agg_early_false"]:
        v += "  | KComputeAgg => false   (* early return: aggregation computes never split and are not recorded *)\n"
    else:
        v += "  | KComputeAgg => %s\n" % info["cases"].get("KCompute", info["default"])
    for k in ALL_KINDS:
        if k == "KComputeAgg":
            continue
        v += "  | %s => %s\n" % (k, info["cases"].get(k, info["default"]))
    v += "  end.\n\n"
    v += "(* a transform that did not split is inserted into `following` under its as_str name, except the early-return case *)\n"
    v += "Definition records (k : kind) : bool := %s.\n" % ("match k with KComputeAgg => false | _ => true end" if info["agg_early_false"] else "true")
    gen_write("GenSplit", v)
    return info

"""GenSerde.v: the serde descriptor environment of every #[derive(Serialize, Deserialize)] type reachable
from pr::ModuleDef and rq::RelationalQuery, read from the Rust sources on every run (Tie A of C15).

Fails closed (ExtractError -> stub Gen file -> the obligations of Props/C15.v stop compiling) on
  * a serde attribute that the model (coq/Model/Serde.v) does not implement,
  * a type constructor it does not know,
  * a reachable type without the derive and without a modelled hand-written impl,
  * a changed shape of the hand-written impls of Span / Ident.
Also returns the environment as plain python data (used by the python mirror in vplib/props/c15_serde.py)."""
import os
import re

from ..common import gen_write, ROOT
from ..rustscan import ExtractError, read, mask, match_brace

P = "prqlc/prqlc-parser/src/"
Q = "prqlc/prqlc/src/"

# module key -> files
MODULES = {
    "pr": [P + "parser/pr/expr.rs", P + "parser/pr/stmt.rs", P + "parser/pr/types.rs", P + "parser/pr/ops.rs", P + "parser/pr/ident.rs"],
    "lr": [P + "lexer/lr.rs"],
    "span": [P + "span.rs"],
    "generic": [P + "generic.rs"],
    "rq": [Q + "ir/rq/mod.rs", Q + "ir/rq/expr.rs", Q + "ir/rq/transform.rs", Q + "ir/rq/ids.rs"],
    "irgeneric": [Q + "ir/generic.rs"],
    "pl": [Q + "ir/pl/extra.rs"],
}
# re-exports that are followed (checked textually in `check_reexports`)
REEXPORTS = {("pl", "QueryDef"): ("pr", "QueryDef"), ("pl", "Ident"): ("pr", "Ident"), ("lr", "Span"): ("span", "Span"), ("pr", "Literal"): ("lr", "Literal"), ("pr", "Span"): ("span", "Span")}
ROOTS = [("pr", "ModuleDef"), ("rq", "RelationalQuery")]

INT_RANGES = {
    "i8": (-2**7, 2**7 - 1), "i16": (-2**15, 2**15 - 1), "i32": (-2**31, 2**31 - 1), "i64": (-2**63, 2**63 - 1),
    "isize": (-2**63, 2**63 - 1),
    "u8": (0, 2**8 - 1), "u16": (0, 2**16 - 1), "u32": (0, 2**32 - 1), "u64": (0, 2**64 - 1), "usize": (0, 2**64 - 1),
}
SKIP_PREDICATES = {"Option::is_none": "SkipIfNone", "Vec::is_empty": "SkipIfEmptyVec", "HashMap::is_empty": "SkipIfEmptyMap", "is_false": "SkipIfFalse"}
# hand-written Serialize/Deserialize impls that have their own model + round-trip lemma
OPAQUE = {("span", "Span"): "CSpan", ("pr", "Ident"): "CIdent"}
IGNORED_ATTR_HEADS = ("doc", "derive", "strum", "schemars", "default", "non_exhaustive", "allow", "deprecated")


def norm(s):
    return re.sub(r"\s+", " ", s).strip()


def find_attrs(src, m, start, end):
    """attributes `#[...]` at top level of src[start:end]; returns (list of attr texts, rest text, rest masked)"""
    attrs = []
    rest = []
    restm = []
    i = start
    while i < end:
        if m.startswith("#[", i):
            j = match_brace(m, i + 1)
            attrs.append(src[i + 2:j])
            i = j + 1
        else:
            rest.append(src[i]); restm.append(m[i]); i += 1
    return attrs, "".join(rest), "".join(restm)


def split_commas(src, m, start, end):
    """split at top-level commas, tracking () [] {} and <> (type context)"""
    parts = []
    depth = 0
    last = start
    i = start
    while i < end:
        ch = m[i]
        if ch in "([{":
            depth += 1
        elif ch in ")]}":
            depth -= 1
        elif ch == "<":
            depth += 1
        elif ch == ">" and not (i > 0 and m[i - 1] in "-="):
            depth -= 1
        elif ch == "," and depth == 0:
            parts.append((last, i)); last = i + 1
        i += 1
    if m[last:end].strip():
        parts.append((last, end))
    return parts


def top_items(rel):
    """[(kind, name, generics, attrs, body_kind, body_start, body_end, src, masked)] of the file's top-level
    struct / enum / type items."""
    src = read(rel)
    m = mask(src)
    n = len(src)
    items = []
    i = 0
    attrs = []
    item_re = re.compile(r"(?:pub(?:\([^)]*\))?\s+)?(struct|enum|type)\s+([A-Za-z_][A-Za-z0-9_]*)\s*(<[^>{;(=]*>)?")
    while i < n:
        if m[i].isspace():
            i += 1; continue
        if m.startswith("#[", i) or m.startswith("#![", i):
            k = m.index("[", i)
            j = match_brace(m, k)
            if m[i + 1] != "!":
                attrs.append(src[k + 1:j])
            i = j + 1
            continue
        mm = item_re.match(m, i)
        if mm:
            kind, name, gen = mm.group(1), mm.group(2), mm.group(3)
            gens = [g.strip() for g in gen[1:-1].split(",")] if gen else []
            k = mm.end()
            if kind == "type":
                e = m.index(";", k)
                eq = m.index("=", k)
                items.append(dict(kind="type", name=name, generics=gens, attrs=attrs, body=(eq + 1, e), src=src, m=m, rel=rel))
                i = e + 1
            else:
                # skip where-clause etc. up to { ( or ;
                while k < n and m[k] not in "{(;":
                    k += 1
                if k >= n:
                    raise ExtractError("%s: item %s has no body" % (rel, name))
                if m[k] == ";":
                    items.append(dict(kind=kind, name=name, generics=gens, attrs=attrs, shape="unit", body=(k, k), src=src, m=m, rel=rel))
                    i = k + 1
                else:
                    j = match_brace(m, k)
                    items.append(dict(kind=kind, name=name, generics=gens, attrs=attrs, shape="braces" if m[k] == "{" else "parens", body=(k + 1, j), src=src, m=m, rel=rel))
                    i = j + 1
                    if m[k] == "(":
                        e = m.index(";", i)
                        i = e + 1
            attrs = []
            continue
        # any other item: skip to `;` or a `{...}` block at bracket depth 0
        attrs = []
        depth = 0
        while i < n:
            ch = m[i]
            if ch in "([":
                depth += 1
            elif ch in ")]":
                depth -= 1
            elif ch == ";" and depth == 0:
                i += 1; break
            elif ch == "{" and depth == 0:
                i = match_brace(m, i) + 1; break
            i += 1
    return items


def uses_of(rel):
    """name -> path segments (list) for every `use` of the file (including `as`); glob imports recorded under '*'"""
    src = read(rel)
    m = mask(src)
    out = {"*": []}

    def expand(prefix, body):
        body = body.strip()
        if not body:
            return
        if body.startswith("{"):
            raise ExtractError("%s: unexpected use syntax %r" % (rel, body[:40]))
        mm = re.match(r"([A-Za-z_][A-Za-z0-9_]*|\*)\s*(.*)$", body, re.S)
        if not mm:
            raise ExtractError("%s: cannot read use tree %r" % (rel, body[:60]))
        head, tail = mm.group(1), mm.group(2).strip()
        if tail.startswith("::"):
            tail = tail[2:].strip()
            if tail.startswith("{"):
                inner = tail[1:tail.rindex("}")]
                depth = 0; last = 0; parts = []
                for k, ch in enumerate(inner):
                    if ch == "{":
                        depth += 1
                    elif ch == "}":
                        depth -= 1
                    elif ch == "," and depth == 0:
                        parts.append(inner[last:k]); last = k + 1
                parts.append(inner[last:])
                for p_ in parts:
                    if p_.strip() == "self":
                        out[head] = prefix + [head]
                    else:
                        expand(prefix + [head], p_)
            else:
                expand(prefix + [head], tail)
        elif tail.startswith("as "):
            out[tail[3:].strip()] = prefix + [head]
        elif tail == "":
            if head == "*":
                out["*"].append(prefix)
            else:
                out[head] = prefix + [head]
        else:
            raise ExtractError("%s: cannot read use tree %r" % (rel, body[:60]))

    for mm in re.finditer(r"(?m)^\s*(?:pub(?:\([^)]*\))?\s+)?use\s+([^;]+);", m):
        expand([], src[mm.start(1):mm.end(1)])
    return out


def module_of_path(path, here):
    """module key for a path prefix (segments before the final type name)"""
    p = "::".join(path)
    table = [
        (r"(^|::)lexer::lr$|^lr$", "lr"),
        (r"(^|::)parser::pr(::\w+)?$|^crate::pr$|^pr$", "pr"),
        (r"(^|::)ir::generic$", "irgeneric"),
        (r"^(crate|prqlc_parser)::generic$|^generic$", "generic"),
        (r"^(crate|prqlc_parser)::span$", "span"),
        (r"(^|::)ir::pl$|^super::pl$|^pl$", "pl"),
        (r"^super(::\w+)?$|^self$", here),
        (r"^expr$", here),
    ]
    for pat, key in table:
        if re.search(pat, p):
            return key
    return None


class Extractor:
    def __init__(self):
        self.items = {}      # (module, name) -> item
        self.uses = {}       # rel -> uses
        self.env = {}        # mangled name -> def (python data)
        self.order = []
        self.pending = []
        self.hits = set()
        for mod, files in MODULES.items():
            for rel in files:
                self.uses[rel] = uses_of(rel)
                for it in top_items(rel):
                    it["module"] = mod
                    key = (mod, it["name"])
                    if key in self.items:
                        raise ExtractError("duplicate definition of %s in module %s" % (it["name"], mod))
                    self.items[key] = it

    # ---- name resolution
    def resolve(self, segs, rel, here):
        name = segs[-1]
        if len(segs) == 1:
            if (here, name) in self.items:
                return self.follow((here, name))
            u = self.uses[rel]
            if name in u:
                path = u[name]
                if path == ["crate", "Span"] or path == ["crate", "span", "Span"]:
                    return ("span", "Span")
                mod = module_of_path(path[:-1], here)
                if mod is None:
                    raise ExtractError("%s: cannot map import path %s" % (rel, "::".join(path)))
                return self.follow((mod, path[-1]))
            for g in u["*"]:
                mod = module_of_path(g, here)
                if mod and (mod, name) in self.items:
                    return self.follow((mod, name))
            raise ExtractError("%s: type %s not found (module %s)" % (rel, name, here))
        # qualified: first segment is an imported module alias or an absolute path
        u = self.uses[rel]
        head = segs[0]
        if head in u:
            path = u[head] + segs[1:-1]
        else:
            path = segs[:-1]
        mod = module_of_path(path, here)
        if mod is None:
            raise ExtractError("%s: cannot map path %s" % (rel, "::".join(segs)))
        return self.follow((mod, name))

    def follow(self, key):
        seen = set()
        while key in REEXPORTS and key not in self.items:
            if key in seen:
                raise ExtractError("re-export cycle")
            seen.add(key); key = REEXPORTS[key]
        if key not in self.items:
            raise ExtractError("type %s::%s is referenced but not defined in the scanned files" % key)
        return key

    # ---- types
    def parse_type(self, text, rel, here, subst):
        t = norm(text)
        if t.startswith("(") and t.endswith(")"):
            inner = t[1:-1]
            parts = [inner[a:b] for a, b in split_commas(inner, inner, 0, len(inner))]
            if len(parts) < 2:
                raise ExtractError("%s: unit or 1-tuple type %r not modelled" % (rel, t))
            return ("DTuple", [self.parse_type(p_, rel, here, subst) for p_ in parts])
        mm = re.match(r"^([A-Za-z_][A-Za-z0-9_]*(?:\s*::\s*[A-Za-z_][A-Za-z0-9_]*)*)\s*(?:<(.*)>)?$", t)
        if not mm:
            raise ExtractError("%s: type constructor not modelled: %r" % (rel, t))
        segs = [s_.strip() for s_ in mm.group(1).split("::")]
        args = []
        if mm.group(2) is not None:
            a = mm.group(2)
            args = [a[x:y] for x, y in split_commas(a, a, 0, len(a))]
        name = segs[-1]
        if len(segs) == 1 and name in subst:
            if args:
                raise ExtractError("%s: type parameter with arguments" % rel)
            return subst[name]
        if len(segs) == 1 or segs[:-1] in (["std", "string"], ["std", "collections"], ["std", "boxed"], ["std", "vec"], ["std", "option"]):
            if name == "String" and not args:
                return ("DStr",)
            if name == "bool" and not args:
                return ("DBool",)
            if name == "char" and not args:
                return ("DChar",)
            if name in ("f64", "f32") and not args:
                return ("DFloat",)
            if name in INT_RANGES and not args:
                return ("DInt",) + INT_RANGES[name]
            if name in ("Option", "Vec", "Box") and len(args) == 1:
                return ("D" + name, self.parse_type(args[0], rel, here, subst))
            if name == "HashMap" and len(args) == 2:
                if norm(args[0]) != "String":
                    raise ExtractError("%s: map with non-String keys (%s) is not modelled" % (rel, args[0]))
                return ("DMap", self.parse_type(args[1], rel, here, subst))
            if name in ("BTreeMap", "HashSet", "BTreeSet", "Rc", "Arc", "Cow", "PathBuf", "Range") and (len(segs) > 1 or (here, name) not in self.items):
                raise ExtractError("%s: type constructor %s is not modelled" % (rel, name))
        if name == "VersionReq":
            return ("DOpaque", "CVersionReq")
        key = self.resolve(segs, rel, here)
        targs = [self.parse_type(a, rel, here, subst) for a in args]
        return self.instantiate(key, targs)

    def instantiate(self, key, targs):
        it = self.items[key]
        if it["kind"] == "type":
            if it["generics"] or targs:
                raise ExtractError("generic type alias %s not modelled" % it["name"])
            s, e = it["body"]
            return self.parse_type(it["src"][s:e], it["rel"], it["module"], {})
        if len(it["generics"]) != len(targs):
            raise ExtractError("%s: wrong number of type arguments" % it["name"])
        if key in OPAQUE:
            self.check_opaque(key)
            return ("DOpaque", OPAQUE[key])
        mangled = "%s.%s" % key
        if targs:
            mangled += "<" + ",".join(show(t) for t in targs) + ">"
        if mangled not in self.env:
            self.env[mangled] = None   # placeholder: recursion
            self.order.append(mangled)
            self.env[mangled] = self.build(it, dict(zip(it["generics"], targs)), mangled)
        return ("DRef", mangled)

    # ---- attributes
    def serde_attrs(self, attrs, where):
        """returns dict(flatten, skip, default); fails closed on anything else that touches serde"""
        out = {"flatten": False, "skip": "SkipNever", "default": False}
        for a in attrs:
            an = norm(a)
            head = re.match(r"[a-z_]+", an).group(0) if re.match(r"[a-z_]+", an) else an
            if head == "cfg_attr":
                mm = re.match(r'cfg_attr\( ?feature = "serde_yaml" ?,', an)
                if not mm:
                    raise ExtractError("%s: cfg_attr not modelled: %s" % (where, an[:80]))
                continue   # inactive: the harness builds prqlc with default-features = false (checked in extract())
            if head == "serde":
                inner = an[an.index("(") + 1:an.rindex(")")]
                for part in [x.strip() for x in inner.split(",") if x.strip()]:
                    if part == "flatten":
                        out["flatten"] = True
                    elif part == "default":
                        out["default"] = True
                    elif part.startswith("skip_serializing_if"):
                        mm = re.match(r'skip_serializing_if ?= ?"([^"]+)"', part)
                        if not mm or mm.group(1) not in SKIP_PREDICATES:
                            raise ExtractError("%s: skip_serializing_if predicate not modelled: %s" % (where, part))
                        out["skip"] = SKIP_PREDICATES[mm.group(1)]
                        if mm.group(1) == "is_false":
                            self.need_is_false = True
                    else:
                        raise ExtractError("%s: serde attribute not modelled: %s" % (where, part))
                continue
            if head in IGNORED_ATTR_HEADS:
                continue
            raise ExtractError("%s: attribute not recognised: %s" % (where, an[:80]))
        return out

    def container_check(self, it):
        der = " ".join(norm(a) for a in it["attrs"] if norm(a).startswith("derive"))
        if not (re.search(r"\bSerialize\b", der) and re.search(r"\bDeserialize\b", der)):
            raise ExtractError("%s::%s is reachable but has no #[derive(Serialize, Deserialize)] and no modelled hand-written impl" % (it["module"], it["name"]))
        for a in it["attrs"]:
            an = norm(a)
            if an.startswith("serde"):
                raise ExtractError("%s::%s: container attribute not modelled: %s" % (it["module"], it["name"], an))
            if an.startswith("cfg_attr"):
                raise ExtractError("%s::%s: container cfg_attr not modelled" % (it["module"], it["name"]))

    def fields(self, it, s, e, subst, where):
        src, m = it["src"], it["m"]
        out = []
        for a, b in split_commas(src, m, s, e):
            attrs, rest, restm = find_attrs(src, m, a, b)
            if not restm.strip():
                continue
            mm = re.match(r"\s*(?:pub(?:\([^)]*\))?\s+)?([A-Za-z_][A-Za-z0-9_]*)\s*:\s*(.*)$", restm, re.S)
            if not mm:
                raise ExtractError("%s: cannot read field %r" % (where, rest[:60]))
            fname = mm.group(1)
            ty = rest[mm.start(2):]
            at = self.serde_attrs(attrs, "%s.%s" % (where, fname))
            out.append(dict(name=fname, desc=self.parse_type(ty, it["rel"], it["module"], subst), **at))
        return out

    def positional(self, it, s, e, subst, where):
        src, m = it["src"], it["m"]
        out = []
        for a, b in split_commas(src, m, s, e):
            attrs, rest, restm = find_attrs(src, m, a, b)
            if not restm.strip():
                continue
            at = self.serde_attrs(attrs, where)
            if at != {"flatten": False, "skip": "SkipNever", "default": False}:
                raise ExtractError("%s: serde attribute on a positional field is not modelled" % where)
            ty = re.sub(r"^\s*pub(?:\([^)]*\))?\s+", "", rest)
            out.append(self.parse_type(ty, it["rel"], it["module"], subst))
        return out

    def build(self, it, subst, mangled):
        self.container_check(it)
        where = "%s::%s" % (it["module"], it["name"])
        s, e = it["body"]
        if it["kind"] == "struct":
            if it["shape"] == "braces":
                return ("DefStruct", self.fields(it, s, e, subst, where))
            if it["shape"] == "parens":
                ds = self.positional(it, s, e, subst, where)
                if len(ds) != 1:
                    raise ExtractError("%s: tuple struct with %d fields is not modelled" % (where, len(ds)))
                return ("DefNewtype", ds[0])
            raise ExtractError("%s: unit struct is not modelled" % where)
        # enum
        src, m = it["src"], it["m"]
        variants = []
        for a, b in split_commas(src, m, s, e):
            attrs, rest, restm = find_attrs(src, m, a, b)
            if not restm.strip():
                continue
            at = self.serde_attrs(attrs, where + " variant")
            if at != {"flatten": False, "skip": "SkipNever", "default": False}:
                raise ExtractError("%s: serde attribute on a variant is not modelled" % where)
            mm = re.match(r"\s*([A-Za-z_][A-Za-z0-9_]*)\s*", restm)
            if not mm:
                raise ExtractError("%s: cannot read variant %r" % (where, rest[:60]))
            vname = mm.group(1)
            k = mm.end()
            tail = restm[k:].strip()
            if not tail:
                variants.append((vname, ("SUnit",)))
                continue
            if tail[0] == "=":
                raise ExtractError("%s::%s: explicit discriminant not modelled" % (where, vname))
            # offsets in original text: rest/restm are attr-stripped copies, work on them
            o = restm.index(tail[0], k)
            c = match_brace(restm, o)
            if restm[c + 1:].strip():
                raise ExtractError("%s::%s: trailing text after variant payload" % (where, vname))
            sub = dict(it); sub["src"] = rest; sub["m"] = restm
            if tail[0] == "(":
                ds = self.positional(sub, o + 1, c, subst, where + "::" + vname)
                if len(ds) == 1:
                    variants.append((vname, ("SNewtype", ds[0])))
                else:
                    variants.append((vname, ("STuple", ds)))
            elif tail[0] == "{":
                variants.append((vname, ("SStruct", self.fields(sub, o + 1, c, subst, where + "::" + vname))))
            else:
                raise ExtractError("%s::%s: cannot read payload" % (where, vname))
        if not variants:
            raise ExtractError("%s: enum without variants" % where)
        return ("DefEnum", variants)

    # ---- hand-written impls
    def check_opaque(self, key):
        if key in self.hits:
            return
        self.hits.add(key)
        if key == ("span", "Span"):
            src = norm(read(P + "span.rs"))
            need = [
                r'impl Debug for Span \{ fn fmt\(&self, f: &mut Formatter<\'_>\) -> fmt::Result \{ write!\(f, "\{\}:\{\}-\{\}", self\.source_id, self\.start, self\.end\) \} \}',
                r'impl Serialize for Span \{ fn serialize<S>\(&self, serializer: S\) -> std::result::Result<S::Ok, S::Error> where S: serde::Serializer, \{ let str = format!\("\{self:\?\}"\); serializer\.serialize_str\(&str\) \} \}',
                r"if let Some\(\(file_id, char_span\)\) = v\.split_once\(':'\) \{ let file_id = file_id \.parse::<u16>\(\)",
                r"if let Some\(\(start, end\)\) = char_span\.split_once\('-'\) \{ let start = start \.parse::<usize>\(\) \.map_err\(\|e\| de::Error::custom\(e\.to_string\(\)\)\)\?; let end = end \.parse::<usize>\(\)",
                r"return Ok\(Span \{ start, end, source_id: file_id, \}\);",
                r"deserializer\.deserialize_string\(SpanVisitor \{\}\)",
                r"pub struct Span \{ pub start: usize, pub end: usize, (?:/// [^\n]*?)?pub source_id: u16, \}",
            ]
            src2 = re.sub(r"/// .*?(?=pub source_id)", "", src)
            for pat in need:
                if not re.search(pat, src) and not re.search(pat, src2):
                    raise ExtractError("span.rs: hand-written Span serde impl no longer has the modelled shape (%s...)" % pat[:50])
        elif key == ("pr", "Ident"):
            src = norm(read(P + "parser/pr/ident.rs"))
            need = [
                r"pub struct Ident \{ pub path: Vec<String>, pub name: String, \}",
                r"let mut seq = serializer\.serialize_seq\(Some\(self\.len\(\)\)\)\?; for part in &self\.path \{ seq\.serialize_element\(part\)\?; \} seq\.serialize_element\(&self\.name\)\?; seq\.end\(\)",
                # the checked form of 8eee066 (F14b); the unchecked `.map(Ident::from_path)` panics on `[]` and fails closed here
                r"let path = <Vec<String> as Deserialize>::deserialize\(deserializer\)\?; if path\.is_empty\(\) \{ (?:// `from_path` panics on an empty path; a document is input, not an invariant )?return Err\(<D::Error as serde::de::Error>::invalid_length\( 0, &\"a non-empty array of strings\", \)\); \} Ok\(Ident::from_path\(path\)\)",
                r"pub fn from_path<S: ToString>\(mut path: Vec<S>\) -> Self \{ let name = path\.pop\(\)\.unwrap\(\)\.to_string\(\); Ident \{ path: path\.into_iter\(\)\.map\(\|x\| x\.to_string\(\)\)\.collect\(\), name, \} \}",
            ]
            for pat in need:
                if not re.search(pat, src):
                    raise ExtractError("ident.rs: hand-written Ident serde impl no longer has the modelled shape (%s...)" % pat[:50])


def show(d):
    k = d[0]
    if k in ("DStr", "DBool", "DChar", "DFloat"):
        return k[1:]
    if k == "DInt":
        return "Int[%d..%d]" % (d[1], d[2])
    if k in ("DOption", "DVec", "DBox", "DMap"):
        return "%s<%s>" % (k[1:], show(d[1]))
    if k == "DTuple":
        return "(" + ",".join(show(x) for x in d[1]) + ")"
    if k == "DRef":
        return d[1]
    if k == "DOpaque":
        return d[1]
    raise ValueError(d)


def check_reexports():
    t = read(Q + "ir/pl/mod.rs")
    if not re.search(r"pub use crate::pr::QueryDef;", t):
        raise ExtractError("ir/pl/mod.rs no longer re-exports pr::QueryDef")
    if not re.search(r"pub use crate::pr::\{[^}]*\bIdent\b[^}]*\};", t):
        raise ExtractError("ir/pl/mod.rs no longer re-exports pr::Ident")
    t = read(Q + "lib.rs")
    if not re.search(r"pub use prqlc_parser::span::Span;", t) or not re.search(r"pub use prqlc_parser::parser::pr;", t):
        raise ExtractError("lib.rs no longer re-exports prqlc_parser::span::Span / parser::pr")
    # is_false
    t = norm(read(Q + "ir/rq/transform.rs"))
    if "skip_serializing_if = \"is_false\"" in t and not re.search(r"fn is_false\(b: &bool\) -> bool \{ !b \}", t):
        raise ExtractError("rq/transform.rs: is_false is no longer `!b`")
    # the serde_yaml cfg_attr is inactive in the build the harness observes
    ct = open(os.path.join(ROOT, "harness", "Cargo.toml")).read()
    if not re.search(r'prqlc\s*=\s*\{[^}]*default-features\s*=\s*false', ct) or re.search(r"serde_yaml", ct):
        raise ExtractError("harness no longer builds prqlc without the serde_yaml feature")
    # the JSON entry points are plain serde_json
    lib = norm(read(Q + "lib.rs"))
    for pat in [r"pub fn from_pl\(pl: &pr::ModuleDef\) -> Result<String, ErrorMessages> \{ serde_json::to_string\(pl\)\.map_err\(convert_json_err\) \}",
                r"pub fn to_pl\(json: &str\) -> Result<pr::ModuleDef, ErrorMessages> \{ serde_json::from_str\(json\)\.map_err\(convert_json_err\) \}",
                r"pub fn from_rq\(rq: &ir::rq::RelationalQuery\) -> Result<String, ErrorMessages> \{ serde_json::to_string\(rq\)\.map_err\(convert_json_err\) \}",
                r"pub fn to_rq\(json: &str\) -> Result<ir::rq::RelationalQuery, ErrorMessages> \{ serde_json::from_str\(json\)\.map_err\(convert_json_err\) \}"]:
        if not re.search(pat, lib):
            raise ExtractError("lib.rs json module no longer has the modelled shape: %s" % pat[:40])


def independent_reach(ex):
    """The Rust type names reachable from ROOTS, found WITHOUT the type grammar / descriptor builder above: every
    CamelCase path in the field and payload positions of an item's body that resolves to a scanned struct / enum is
    an edge (type aliases are followed, hand-written impls are leaves).  Used for the obligation that every
    reachable type has a descriptor and every descriptor belongs to a reachable type (Props/C15.v)."""
    path_re = re.compile(r"[A-Za-z_][A-Za-z0-9_]*(?:\s*::\s*[A-Za-z_][A-Za-z0-9_]*)*")
    seen, todo, names = set(), [ex.follow(k) for k in ROOTS], set()
    while todo:
        key = todo.pop()
        if key in seen:
            continue
        seen.add(key)
        it = ex.items[key]
        if it["kind"] != "type":
            names.add("%s.%s" % key)
        if key in OPAQUE:
            continue
        s0, e0 = it["body"]
        src, m = it["src"], it["m"]
        texts = []
        if it["kind"] == "enum":
            for a, b in split_commas(src, m, s0, e0):
                _, _, restm = find_attrs(src, m, a, b)
                mm = re.match(r"\s*[A-Za-z_][A-Za-z0-9_]*", restm)     # the variant's own name is not a type
                texts.append(restm[mm.end():] if mm else restm)
        else:
            for a, b in (split_commas(src, m, s0, e0) if it["kind"] == "struct" else [(s0, e0)]):
                _, _, restm = find_attrs(src, m, a, b)
                texts.append(restm)
        for t in texts:
            for mm in path_re.finditer(t):
                segs = [x.strip() for x in mm.group(0).split("::")]
                if not segs[-1][:1].isupper():
                    continue
                try:
                    k2 = ex.resolve(segs, it["rel"], it["module"])
                except ExtractError:
                    continue      # a type parameter, a std type, a field name
                todo.append(k2)
    return sorted(names)


def extract():
    check_reexports()
    ex = Extractor()
    roots = []
    for key in ROOTS:
        roots.append(ex.instantiate(ex.follow(key), []))
    env = [(n, ex.env[n]) for n in ex.order]
    return {"env": env, "roots": {"pl": roots[0][1], "rq": roots[1][1]}, "opaque": sorted(OPAQUE[k] for k in ex.hits),
            "rust_reachable": independent_reach(ex), "opaque_names": sorted("%s.%s" % k for k in OPAQUE)}


# ---------------------------------------------------------------- Coq output

def codes(s):
    return "[" + ";".join(str(ord(c)) for c in s) + "]%N"


def coq_desc(d):
    k = d[0]
    if k in ("DStr", "DBool", "DChar", "DFloat"):
        return k
    if k == "DInt":
        return "(DInt (%d) (%d))" % (d[1], d[2])
    if k in ("DOption", "DVec", "DBox", "DMap"):
        return "(%s %s)" % (k, coq_desc(d[1]))
    if k == "DTuple":
        return "(DTuple [%s])" % "; ".join(coq_desc(x) for x in d[1])
    if k == "DRef":
        return "(DRef %s)" % codes(d[1])
    if k == "DOpaque":
        return "(DOpaque %s)" % d[1]
    raise ValueError(d)


def coq_field(f):
    return "mkField %s %s %s %s %s (* %s *)" % (codes(f["name"]), coq_desc(f["desc"]), "true" if f["flatten"] else "false", f["skip"], "true" if f["default"] else "false", f["name"])


def coq_def(df):
    k = df[0]
    if k == "DefStruct":
        return "DefStruct [\n      " + ";\n      ".join(coq_field(f) for f in df[1]) + " ]"
    if k == "DefNewtype":
        return "DefNewtype " + coq_desc(df[1])
    out = []
    for vname, sh in df[1]:
        if sh[0] == "SUnit":
            s = "SUnit"
        elif sh[0] == "SNewtype":
            s = "SNewtype " + coq_desc(sh[1])
        elif sh[0] == "STuple":
            s = "STuple [%s]" % "; ".join(coq_desc(x) for x in sh[1])
        else:
            s = "SStruct [\n        " + ";\n        ".join(coq_field(f) for f in sh[1]) + " ]"
        out.append("(%s, %s) (* %s *)" % (codes(vname), s, vname))
    return "DefEnum [\n      " + ";\n      ".join(out) + " ]"


def generate():
    try:
        info = extract()
    except ExtractError as ex:
        gen_write("GenSerde", "(* EXTRACTION FAILED: %s *)\nDefinition gen_serde_extraction_failed := tt.\n" % str(ex).replace("*)", "* )"))
        return {"error": str(ex)}
    v = "(* generated from /repo on every run by vplib/translate/gen_serde.py -- do not edit *)\n"
    v += "From Coq Require Import List NArith ZArith.\nFrom PV Require Import Lib.ListX Model.Json Model.Serde.\nImport ListNotations.\n\n"
    v += "Definition env : Serde.env := [\n"
    v += ";\n".join("  (* %s *)\n  (%s,\n    %s)" % (n, codes(n), coq_def(df)) for n, df in info["env"])
    v += " ].\n\n"
    v += "Definition root_pl : desc := DRef %s. (* %s *)\n" % (codes(info["roots"]["pl"]), info["roots"]["pl"])
    v += "Definition root_rq : desc := DRef %s. (* %s *)\n" % (codes(info["roots"]["rq"]), info["roots"]["rq"])
    v += "Definition type_count : nat := %d.\n" % len(info["env"])
    v += "(* independent textual reachability scan of the Rust sources from the two root types *)\n"
    v += "Definition rust_reachable : list str := [\n  " + ";\n  ".join("%s (* %s *)" % (codes(n), n) for n in info["rust_reachable"]) + " ].\n"
    v += "Definition opaque_names : list str := [" + "; ".join("%s (* %s *)" % (codes(n), n) for n in info["opaque_names"]) + "].\n"
    gen_write("GenSerde", v)
    return info

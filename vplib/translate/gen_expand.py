"""GenExpand.v: ast_expand's operator -> std function map (expand_binary, with the operand swap of
`**`; expand_unary), plus exact-shape ties for the algorithms modelled by hand in
Model/StaticEval.v: static_eval.rs, the `in` desugaring of resolver/transforms.rs, the Normalizer
of sql/pq/preprocess.rs.  Fails closed."""
import hashlib
import re

from ..common import gen_write
from ..rustscan import ExtractError, read, mask, block_after, match_arms, match_brace
from .c02_util import fn_body, read_code

AE = "prqlc/prqlc/src/semantic/ast_expand.rs"
SE = "prqlc/prqlc/src/semantic/resolver/static_eval.rs"
TR = "prqlc/prqlc/src/semantic/resolver/transforms.rs"
PP = "prqlc/prqlc/src/sql/pq/preprocess.rs"
UT = "prqlc/prqlc/src/ir/pl/utils.rs"


def codes(s):
    return "[" + ";".join(str(ord(c)) for c in s) + "]"


def squeeze(s):
    return re.sub(r"\s+", "", s)


def strip_comments(src):
    """source with comments blanked but string contents kept"""
    m = mask(src)
    out = []
    i = 0
    n = len(src)
    # comments are where masked is blank but src is not, outside string literals; simplest: remove // and /* */ using mask of comments only
    res = list(src)
    j = 0
    while j < n:
        if src.startswith("//", j) and m[j] == " ":
            k = src.find("\n", j)
            k = n if k < 0 else k
            for t in range(j, k):
                res[t] = " "
            j = k
        else:
            j += 1
    return "".join(res)


def fn_text(rel, name):
    src = read_code(rel)
    m = mask(src)
    s, e = fn_body(src, m, name)
    return squeeze(strip_comments(src)[s:e])


def extract():
    info = {}
    src = read_code(AE)
    m = mask(src)
    s, e = fn_body(src, m, "expand_binary")
    body, mbody = src[s:e], m[s:e]
    mm = re.search(r"let\s+func_name\s*:\s*Vec<&str>\s*=\s*match\s+op\s*\{", mbody)
    if not mm:
        raise ExtractError("expand_binary: func_name match not found")
    a = mm.end() - 1
    b = match_brace(mbody, a)
    table = []
    for pat, val in match_arms(body, mbody, a + 1, b):
        mp = re.fullmatch(r"pr::BinOp::([A-Za-z]+)", pat.strip())
        mv = re.fullmatch(r"vec!\[((?:\"[a-z_]+\",?\s*)+)\]", val.strip())
        if not (mp and mv):
            raise ExtractError("expand_binary: unrecognised arm %r => %r" % (pat, val))
        table.append((mp.group(1), ".".join(re.findall(r'"([a-z_]+)"', mv.group(1)))))
    info["binary"] = table
    rest = squeeze(mbody[b + 1:])
    ms = re.search(r"let\(left,right\)=matchop\{((?:pr::BinOp::[A-Za-z]+=>\(right,left\),)*)_=>\(left,right\),\};Ok\(new_binop\(left,&func_name,right\)\.kind\)", rest)
    if not ms:
        raise ExtractError("expand_binary: operand order code changed")
    info["swapped"] = re.findall(r"pr::BinOp::([A-Za-z]+)", ms.group(1))
    head = squeeze(mbody[:mm.start()])
    if head != "letleft=expand_expr(*left)?;letright=expand_expr(*right)?;":
        raise ExtractError("expand_binary: prologue changed")
    ut = squeeze(mask(read_code(UT)))
    if "pubfnnew_binop(left:Expr,op_name:&[&str],right:Expr)->Expr{Expr::new(ExprKind::FuncCall(FuncCall{name:Box::new(Expr::new(Ident::from_path(op_name.to_vec()))),args:vec![left,right],named_args:Default::default(),}))}" not in ut:
        raise ExtractError("new_binop changed")
    # unary
    s, e = fn_body(src, m, "expand_unary")
    body, mbody = src[s:e], m[s:e]
    mm = re.search(r"let\s+func_name\s*=\s*match\s+op\s*\{", mbody)
    if not mm:
        raise ExtractError("expand_unary: match not found")
    a = mm.end() - 1
    b = match_brace(mbody, a)
    un = []
    for pat, val in match_arms(body, mbody, a + 1, b):
        p = pat.strip()
        v = val.strip()
        mv = re.fullmatch(r"\[((?:\"[a-z_]+\",?\s*)+)\]", v)
        if mv:
            un.append((p, "call", ".".join(re.findall(r'"([a-z_]+)"', mv.group(1)))))
        elif squeeze(v) == "returnOk(expr.kind)":
            un.append((p, "erase", ""))
        elif p == "EqSelf":
            un.append((p, "eqself", ""))
        else:
            raise ExtractError("expand_unary: unrecognised arm %r => %r" % (pat, val[:40]))
    info["unary"] = un
    # algorithms tied by shape
    sh = {}
    for rel, name in ((SE, "static_eval_rq_operator"), (SE, "static_eval_case"), (SE, "maybe_static_eval"), (SE, "is_temporal")):
        sh[name] = hashlib.sha1(fn_text(rel, name).encode()).hexdigest()
    trs = read_code(TR)
    mt = mask(trs)
    mm = re.search(r'"in"\s*=>\s*\{', trs)
    if not mm:
        raise ExtractError('transforms.rs: "in" arm not found')
    a = mm.end() - 1
    b = match_brace(mt, a)
    sh["in"] = hashlib.sha1(squeeze(strip_comments(trs)[a:b]).encode()).hexdigest()
    pps = read_code(PP)
    mp_ = mask(pps)
    s, e = block_after(pps, mp_, r"impl\s+RqFold\s+for\s+Normalizer\b")
    sh["normalizer"] = hashlib.sha1(squeeze(strip_comments(pps)[s:e]).encode()).hexdigest()
    info["shapes"] = sh
    return info


# the shapes the hand-written models in Model/StaticEval.v were written against
EXPECTED = {
    "static_eval_rq_operator": "a572537d8e8e7f61e2684f486de7c36ecc1e0d9b",   # since /repo 222f71a: std.neg uses checked_neg (i64::MIN is left unevaluated)
    "static_eval_case": "064f0ff64a52050e0b460ee52b2d182231356856",
    "maybe_static_eval": "20fb253d25fe6432701f1d0b5366053a7cfb0797",   # since /repo 3056744 (C10-F7): every case branch passes expect_value (an error for a module / table variable in the place of a value -- identifiers the expression model does not have) before static_eval_case; folding unchanged
    "is_temporal": "7c715063ddba4cdef69036463f130cd473c6a43b",   # date/time literals are never folded (outside the value model)
    "in": "79c6235af378c429a666dbc3afb2245d82e9a4d6",
    "normalizer": "fae9f35249ad32c51815e853df76d3f2ae7d29e9",
}


def generate():
    changed = []
    try:
        info = extract()
        changed = [k for k, v in EXPECTED.items() if info["shapes"].get(k) != v]
    except ExtractError as ex:
        gen_write("GenExpand", "(* EXTRACTION FAILED: %s *)\nDefinition gen_expand_extraction_failed := tt.\n" % str(ex).replace("*)", "* )"))
        return {"error": str(ex)}
    v = "(* generated from /repo/prqlc/prqlc/src/semantic/ast_expand.rs on every run by vplib/translate/gen_expand.py -- do not edit *)\n"
    v += "From Coq Require Import List NArith.\nFrom PV Require Import Gen.GenPratt.\nImport ListNotations.\n\n"
    v += "(* expand_binary: operator -> std function path *)\n"
    v += "Definition expand_binop (o : binop) : list N := (match o with " + " | ".join("B_%s => %s (* %s *)" % (n, codes(p), p) for n, p in info["binary"]) + " end)%N.\n"
    v += "Definition expand_swaps (o : binop) : bool := match o with " + " | ".join("B_%s => true" % n for n in info["swapped"]) + " | _ => false end.\n"
    v += "Inductive unexp := UCall (name : list N) | UErase | UEqSelf.\n"
    v += "Definition expand_unop (u : unop) : unexp := (match u with " + " | ".join(
        "U_%s => %s" % (n, {"call": "UCall %s (* %s *)" % (codes(p), p), "erase": "UErase", "eqself": "UEqSelf"}[k]) for n, k, p in info["unary"]) + " end)%N.\n"
    v += "(* static_eval.rs, the `in` desugaring and the Normalizer have exactly the text Model/StaticEval.v was written against *)\n"
    if changed:
        v += "(* CHANGED TEXT: %s -- the models in Model/StaticEval.v may be stale *)\n" % ", ".join(changed)
    v += "Definition static_eval_shapes_ok : bool := %s.\n" % ("false" if changed else "true")
    gen_write("GenExpand", v)
    if changed:
        info["error"] = "hand-modelled algorithm(s) changed text: %s (model: Model/StaticEval.v)" % ", ".join(changed)
    return info

"""helpers shared by the C02 translators"""
import re

from ..rustscan import ExtractError, match_brace


def fn_body(src, m, name):
    """(start, end) of the body of `fn name` (after generic params / destructuring params / where clause)"""
    mm = re.search(r"\bfn\s+%s\b" % re.escape(name), m)
    if not mm:
        raise ExtractError("fn %s not found" % name)
    i = m.find("(", mm.end())
    if i < 0:
        raise ExtractError("fn %s: no parameter list" % name)
    # generics before the parameter list may contain parentheses only in Fn(..) bounds: find the '(' at angle depth 0
    depth = 0
    j = mm.end()
    while j < len(m):
        ch = m[j]
        if ch == "<":
            depth += 1
        elif ch == ">" and m[j - 1] != "-":
            depth -= 1
        elif ch == "(" and depth == 0:
            break
        j += 1
    k = match_brace(m, j)
    b = m.find("{", k)
    if b < 0:
        raise ExtractError("fn %s: no body" % name)
    e = match_brace(m, b)
    return b + 1, e


def squeeze(s):
    return re.sub(r"\s+", "", s)


def codes(s):
    return "[" + ";".join(str(ord(c)) for c in s) + "]"

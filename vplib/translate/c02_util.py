"""helpers shared by the C02 translators"""
import re

from ..rustscan import ExtractError, match_brace, mask, read


def strip_verif(src):
    """source with every item / statement guarded by `#[cfg(prqlc_verif)]` blanked out (offsets and line
    numbers kept).  The verification hooks of /repo are compiled only into the harness; normal builds never
    see them, so the translators must not either: a hook placed inside a function that is tied by its exact
    text must not break (or, worse, alter) the tie.  Fails closed on a guard it cannot delimit."""
    m = mask(src)
    out = list(src)
    pos = 0
    while True:
        mm = re.compile(r"#\s*\[\s*cfg\s*\(\s*prqlc_verif\s*\)\s*\]").search(m, pos)
        if not mm:
            break
        i = mm.end()
        while i < len(m) and m[i].isspace():
            i += 1
        # further attributes on the same item
        while m.startswith("#[", i):
            i = match_brace(m, i + 1) + 1
            while i < len(m) and m[i].isspace():
                i += 1
        is_let = re.match(r"let\b", m[i:]) is not None
        depth = 0
        j = i
        end = None
        while j < len(m):
            ch = m[j]
            if ch in "([{":
                if ch == "{" and depth == 0 and not is_let:
                    k = match_brace(m, j)
                    # `if .. { } else { }`, `match x { }.method()`, `x { .. };`
                    t = k + 1
                    while t < len(m) and m[t].isspace():
                        t += 1
                    if m.startswith("else", t) or m.startswith(".", t):
                        j = k + 1
                        continue
                    end = t + 1 if m.startswith(";", t) else k + 1
                    break
                j = match_brace(m, j) + 1
                continue
            if ch in ")]}":
                raise ExtractError("cfg(prqlc_verif) guard at offset %d: item not delimited" % mm.start())
            if ch == ";":
                end = j + 1
                break
            j += 1
        if end is None:
            raise ExtractError("cfg(prqlc_verif) guard at offset %d: item not delimited" % mm.start())
        for t in range(mm.start(), end):
            if out[t] != "\n":
                out[t] = " "
        pos = end
    return "".join(out)


def read_code(rel):
    """rustscan.read without the cfg(prqlc_verif) items"""
    return strip_verif(read(rel))


def fn_body(src, m, name):
    """(start, end) of the body of `fn name` (after generic params / destructuring params / where clause)"""
    mm = re.search(r"\bfn\s+%s\b" % re.escape(name), m)
    if not mm:
        raise ExtractError("fn %s not found" % name)
    i = m.find("(", mm.end())
    if i < 0:
        raise ExtractError("fn %s: no parameter list" % name)
    # generics before the parameter list may contain parentheses only in Fn(..) bounds: find the '(' at angle depth 0
    depth = 0
    j = mm.end()
    while j < len(m):
        ch = m[j]
        if ch == "<":
            depth += 1
        elif ch == ">" and m[j - 1] != "-":
            depth -= 1
        elif ch == "(" and depth == 0:
            break
        j += 1
    k = match_brace(m, j)
    b = m.find("{", k)
    if b < 0:
        raise ExtractError("fn %s: no body" % name)
    e = match_brace(m, b)
    return b + 1, e


def squeeze(s):
    return re.sub(r"\s+", "", s)


def codes(s):
    return "[" + ";".join(str(ord(c)) for c in s) + "]"

"""GenDialectFeat.v (Tie A for C07): read from /repo on every run

  * sql/dialect.rs: the Dialect variants, the `handler()` map, the DialectHandler trait defaults and every
    per-dialect override of the boolean / char / enum feature methods.  A method body must be a literal, an enum
    path, `Some(Enum::X)`/`None` or `self.other_method()`; anything else, or a method that is neither a known
    feature nor in the list of (non-feature) methods explicitly left out, fails closed.
  * the set-operation support matrix documented at the end of dialect.rs (the source's own statement of what
    five engines accept);
  * sql/std.sql.prql through prqlc's own parser (harness `parsefile`): for each operator of the root module and of
    each dialect module whether the body is `null` (= unsupported) and, for s-string bodies, the text chunks and
    holes (the templates of the `single_statement` theorem);
  * sql/gen_expr.rs: `operator_from_name` (operators emitted natively, whose template is never consulted).
"""
import re

from ..common import gen_write, harness, REPO
from ..rustscan import ExtractError, enum_variants, read, mask, block_after, match_brace, match_arms

BOOL_FEATURES = ["use_fetch", "set_ops_distinct", "except_all", "intersect_all", "has_concat_function", "stars_in_group", "supports_distinct_on",
                 "supports_zero_columns", "prefers_subquery_parentheses_shorthand", "requires_order_by_in_window_function",
                 "string_literal_backslash_escape"]     # since fix d2c1667: backslashes of string literals are doubled where the engine reads escapes
# methods that exist only once a proposed repair is in the tree (fixes/C07-N6, fixes/C07-N3): absent = the trait default the
# repair would add (the keyword / the literal is emitted for every dialect)
OPTIONAL_BOOL = {"with_recursive_keyword": True, "has_interval_literal": True}
OTHER_FEATURES = ["ident_quote", "ident_quoting_style", "column_exclude", "limit_for_bare_offset"]
# trait methods that are not boolean/char/enum feature flags (algorithms with arguments): deliberately not translated
NOT_FEATURES = ["interval_quoting_style", "translate_prql_date_format", "translate_chrono_item", "translate_sql_array"]


def codes(s):
    return "[" + ";".join(str(ord(c)) for c in s) + "]"


def fns_of_block(src, m, s, e):
    """{name: body_text} of the `fn` items directly inside src[s:e]"""
    out = {}
    i = s
    while True:
        mm = re.compile(r"\bfn\s+([a-z_0-9]+)\s*(?:<[^>]*>)?\s*\(").search(m, i, e)
        if not mm:
            break
        po = m.index("(", mm.end() - 1)
        pc = match_brace(m, po)
        bo = m.find("{", pc, e)
        semi = m.find(";", pc, e)
        if bo < 0 or (0 <= semi < bo):
            raise ExtractError("method %s has no body" % mm.group(1))
        bc = match_brace(m, bo)
        if mm.group(1) in out:
            raise ExtractError("method %s defined twice in one block" % mm.group(1))
        out[mm.group(1)] = (src[bo + 1:bc], m[bo + 1:bc])
        i = bc + 1
    return out


def simple_value(name, body, mbody):
    """value of a feature method body, or ExtractError"""
    code = re.sub(r"\s+", " ", "".join(c for c, k in zip(body, mbody) if True)).strip()
    # drop comments using the mask (comments are blanked there); keep char literal content from the source
    code_m = re.sub(r"\s+", " ", mbody).strip()
    if code_m in ("true", "false"):
        return ("bool", code_m == "true")
    mm = re.fullmatch(r"self\.([a-z_]+)\(\)", code_m)
    if mm:
        return ("ref", mm.group(1))
    if re.fullmatch(r"'.'|' '", code_m) or re.fullmatch(r"'\s*'", code_m):
        # char literal: content blanked in the mask; read it from the source text
        ms = re.search(r"'(\\.|[^'\\])'", re.sub(r"//[^\n]*", "", body))
        if not ms:
            raise ExtractError("%s: cannot read char literal" % name)
        ch = ms.group(1)
        if ch.startswith("\\"):
            ch = {"\\'": "'", '\\"': '"', "\\\\": "\\"}.get(ch)
            if ch is None:
                raise ExtractError("%s: escape in char literal not modelled" % name)
        return ("char", ch)
    mm = re.fullmatch(r"IdentQuotingStyle::([A-Za-z]+)", code_m)
    if mm:
        return ("quoting", mm.group(1))
    if code_m == "None":
        return ("none", None)
    mm = re.fullmatch(r"Some\(ColumnExclude::([A-Za-z]+)\)", code_m)
    if mm:
        return ("exclude", mm.group(1))
    if re.fullmatch(r'Some\("\s*"\)', code_m):
        # string literal: content blanked in the mask; read it from the source text (comments removed)
        ms = re.search(r'Some\("((?:[^"\\]|\\.)*)"\)', re.sub(r"//[^\n]*", "", body))
        if not ms or "\\" in ms.group(1):
            raise ExtractError("%s: cannot read string literal" % name)
        return ("some_str", ms.group(1))
    raise ExtractError("method %s: body is not a literal / simple expression: %r" % (name, code_m[:80]))


def extract_dialects():
    rel = "prqlc/prqlc/src/sql/dialect.rs"
    src = read(rel)
    m = mask(src)
    variants = [v for v, _ in enum_variants(rel, "Dialect")]
    names = [v.lower() for v in variants]
    # handler map
    s, e = block_after(src, m, r"fn\s+handler\s*\(&self\)[^{]*\{")
    s2, e2 = block_after(src[s:e], m[s:e], r"match\s+self\s*\{")
    arms = match_arms(src[s:e], m[s:e], s2, e2)
    handler = {}
    for pat, body in arms:
        mb = re.fullmatch(r"Box::new\(([A-Za-z]+)\)", body.strip())
        if not mb:
            raise ExtractError("handler(): arm body not Box::new(X): %r" % body[:60])
        for p in pat.split("|"):
            mp = re.fullmatch(r"Dialect::([A-Za-z]+)", p.strip())
            if not mp:
                raise ExtractError("handler(): pattern %r" % p)
            handler[mp.group(1)] = mb.group(1)
    if sorted(handler) != sorted(variants):
        raise ExtractError("handler() does not cover exactly the Dialect variants: %s vs %s" % (sorted(handler), sorted(variants)))
    # trait defaults
    s, e = block_after(src, m, r"trait\s+DialectHandler\b[^{]*\{")
    tfns = fns_of_block(src, m, s, e)
    known = set(BOOL_FEATURES + OTHER_FEATURES + NOT_FEATURES + list(OPTIONAL_BOOL))
    for f in tfns:
        if f not in known:
            raise ExtractError("DialectHandler has a method the translator does not know: %s" % f)
    for f in BOOL_FEATURES + OTHER_FEATURES:
        if f not in tfns:
            raise ExtractError("DialectHandler lost its method %s" % f)
    defaults = {f: simple_value(f, *tfns[f]) for f in BOOL_FEATURES + OTHER_FEATURES}
    for f, dv in OPTIONAL_BOOL.items():
        defaults[f] = simple_value(f, *tfns[f]) if f in tfns else ("bool", dv)
    # impls
    impls = {}
    for mi in re.finditer(r"impl\s+DialectHandler\s+for\s+([A-Za-z]+)\s*\{", m):
        bo = mi.end() - 1
        bc = match_brace(m, bo)
        fns = fns_of_block(src, m, bo + 1, bc)
        if mi.group(1) in impls:
            raise ExtractError("two impls of DialectHandler for %s" % mi.group(1))
        ov = {}
        for f, (b, mb) in fns.items():
            if f in NOT_FEATURES:
                continue
            if f not in known:
                raise ExtractError("impl %s overrides unknown method %s" % (mi.group(1), f))
            ov[f] = simple_value(f, b, mb)
        impls[mi.group(1)] = ov
    for v in variants:
        if handler[v] not in impls:
            raise ExtractError("no impl DialectHandler for %s" % handler[v])

    def resolve(struct, f, depth=0):
        if depth > 5:
            raise ExtractError("cyclic self.method() references at %s" % f)
        kind, val = impls[struct].get(f, defaults[f])
        if kind == "ref":
            if val not in defaults:
                raise ExtractError("%s refers to unknown method %s" % (f, val))
            return resolve(struct, val, depth + 1)
        return kind, val
    feats = {}
    for v, n in zip(variants, names):
        d = {}
        for f in BOOL_FEATURES + list(OPTIONAL_BOOL):
            k, x = resolve(handler[v], f)
            if k != "bool":
                raise ExtractError("%s of %s is not a bool" % (f, v))
            d[f] = x
        k, x = resolve(handler[v], "ident_quote")
        if k != "char":
            raise ExtractError("ident_quote of %s is not a char" % v)
        d["ident_quote"] = x
        k, x = resolve(handler[v], "ident_quoting_style")
        if k != "quoting" or x not in ("AlwaysQuoted", "ConditionallyQuoted"):
            raise ExtractError("ident_quoting_style of %s" % v)
        d["always_quoted"] = x == "AlwaysQuoted"
        k, x = resolve(handler[v], "column_exclude")
        if k not in ("exclude", "none") or x not in (None, "Exclude", "Except"):
            raise ExtractError("column_exclude of %s" % v)
        d["column_exclude"] = {None: 0, "Exclude": 1, "Except": 2}[x]
        k, x = resolve(handler[v], "limit_for_bare_offset")
        if k not in ("some_str", "none"):
            raise ExtractError("limit_for_bare_offset of %s" % v)
        if x is not None and not re.fullmatch(r"-?\d+", x):
            raise ExtractError("limit_for_bare_offset of %s is not an integer spelling: %r" % (v, x))
        d["limit_for_bare_offset"] = x
        feats[n] = d
    # which of the proposed repairs are in the source (read from the impl blocks themselves, not from the resolved table):
    #   n3: has_interval_literal() = false for SQLite and MsSql      n5: BigQuery overrides except_all() with false
    #   n6: MsSql overrides with_recursive_keyword() with false      n8: Redshift no longer overrides supports_zero_columns() with true
    def ov(struct, f):
        return impls.get(struct, {}).get(f)
    fixes = {
        "n3": ov("SQLiteDialect", "has_interval_literal") == ("bool", False) and ov("MsSqlDialect", "has_interval_literal") == ("bool", False),
        "n5": ov("BigQueryDialect", "except_all") == ("bool", False),
        "n6": ov("MsSqlDialect", "with_recursive_keyword") == ("bool", False),
        "n8": ov("RedshiftDialect", "supports_zero_columns") != ("bool", True),
    }
    # the documented set-operation matrix (trailing comment of the file)
    mt = re.search(r"\| SQL construct\s*\|([^\n]*)\n\|[-| ]*\n((?:\|[^\n]*\n)+)", src)
    if not mt:
        raise ExtractError("set-operation support matrix not found in dialect.rs")
    heads = [h.strip() for h in mt.group(1).split("|")]
    heads = [h for h in heads if h]
    headmap = {"SQLite": "sqlite", "BQ": "bigquery", "Postgres": "postgres", "MySQL 8+": "mysql", "DuckDB": "duckdb"}
    for h in heads:
        if h not in headmap:
            raise ExtractError("support matrix: unknown engine column %r" % h)
    matrix = []
    for line in mt.group(2).strip().split("\n"):
        cells = [c.strip() for c in line.strip().strip("|").split("|")]
        cons = cells[0]
        cells = cells[1:] + [""] * (len(heads) - len(cells) + 1)
        mc = re.fullmatch(r"(UNION|EXCEPT|INTERSECT) (\(implicit DISTINCT\)|DISTINCT|ALL)", cons)
        if not mc:
            raise ExtractError("support matrix: unknown construct %r" % cons)
        q = {"(implicit DISTINCT)": "QNone", "DISTINCT": "QDistinct", "ALL": "QAll"}[mc.group(2)]
        for h, c in zip(heads, cells):
            if c not in ("x", ""):
                raise ExtractError("support matrix: cell %r" % c)
            matrix.append((mc.group(1).capitalize(), q, headmap[h], c == "x"))
    # operator_from_name
    ge = read("prqlc/prqlc/src/sql/gen_expr.rs")
    mg = mask(ge)
    s, e = block_after(ge, mg, r"fn\s+operator_from_name\s*\([^{]*\{")
    s2, e2 = block_after(ge[s:e], mg[s:e], r"match\s+name\s*\{")
    natives = []
    for pat, body in match_arms(ge[s:e], mg[s:e], s2, e2):
        if pat.strip() == "_":
            if body.strip() != "None":
                raise ExtractError("operator_from_name: default arm is not None")
            continue
        mp = re.fullmatch(r'"(std\.[a-z_.]+)"', pat.strip())
        if not mp or not re.fullmatch(r"Some\([A-Za-z]+\)", body.strip()):
            raise ExtractError("operator_from_name: arm %r => %r" % (pat, body))
        natives.append(mp.group(1))
    # n11: translate_operator parenthesises an operand whose text starts with `-` behind template text that ends in `-`
    ops_rs = read("prqlc/prqlc/src/sql/operators.rs")
    fixes["n11"] = bool(re.search(r"text\.ends_with\('-'\)\s*&&\s*source\.starts_with\('-'\)", "".join(ops_rs.split("\n"))))
    return {"variants": variants, "names": names, "handler": handler, "feats": feats, "matrix": matrix, "natives": natives, "fixes": fixes}


def extract_stdsql(names):
    from ..common import harness1
    import os
    a = harness1("parsefile", {"path": os.path.join(REPO, "prqlc/prqlc/src/sql/std.sql.prql")})
    if "ok" not in a:
        raise ExtractError("std.sql.prql does not parse: %s" % str(a)[:200])
    ops = []   # (module ('' = root), op path, is_null, glue [(before, after)])

    def walk(stmts, module, prefix):
        for st in stmts:
            if "ModuleDef" in st:
                md = st["ModuleDef"]
                if module == "" and prefix == "" and md["name"] in names:
                    walk(md["stmts"], md["name"], "")
                else:
                    walk(md["stmts"], module, prefix + md["name"] + ".")
            elif "VarDef" in st:
                vd = st["VarDef"]
                val = vd.get("value") or {}
                fn = val.get("Func")
                if fn is None:
                    raise ExtractError("std.sql.prql: %s is not a function" % vd.get("name"))
                body = fn["body"]
                if "Literal" in body and body["Literal"] == "Null":
                    ops.append((module, prefix + vd["name"], True, []))
                elif "SString" in body:
                    chunks = []
                    for it in body["SString"]:
                        if "Expr" in it:
                            chunks.append(None)
                        elif "String" in it:
                            chunks.append(it["String"])
                        else:
                            raise ExtractError("std.sql.prql: s-string item of %s: %s" % (vd["name"], list(it.keys())))
                    ops.append((module, prefix + vd["name"], False, chunks))
                else:
                    raise ExtractError("std.sql.prql: body of %s is neither an s-string nor null" % vd["name"])
            else:
                raise ExtractError("std.sql.prql: unexpected statement %s" % list(st.keys()))
    walk(a["ok"]["stmts"], "", "")
    return ops


def extract():
    info = extract_dialects()
    info["ops"] = extract_stdsql(info["names"])
    return info


def coq_bool(b):
    return "true" if b else "false"


def generate():
    try:
        info = extract()
    except ExtractError as ex:
        gen_write("GenDialectFeat", "(* EXTRACTION FAILED: %s *)\nDefinition gen_dialect_feat_extraction_failed := tt.\n" % str(ex).replace("*)", "* )"))
        out = {"error": str(ex)}
        # what can still be read drives the search streams
        try:
            names = [v.lower() for v, _ in enum_variants("prqlc/prqlc/src/sql/dialect.rs", "Dialect")]
            out["names"] = names
            out["ops"] = extract_stdsql(names)
        except Exception:
            pass
        return out
    v = "(* generated from /repo on every run by vplib/translate/gen_dialect_feat.py -- do not edit *)\n"
    v += "From Coq Require Import List NArith Bool.\nImport ListNotations.\nLocal Open Scope N_scope.\n\n"
    v += "Record feat := mkFeat { use_fetch : bool; ident_quote : N; always_quoted : bool; column_exclude : N (* 0 none, 1 EXCLUDE, 2 EXCEPT *);\n"
    v += "  set_ops_distinct : bool; except_all : bool; intersect_all : bool; has_concat_function : bool; stars_in_group : bool;\n"
    v += "  supports_distinct_on : bool; supports_zero_columns : bool; prefers_paren : bool; requires_order_by_in_window : bool;\n"
    v += "  bare_offset_limit : option (list N) (* limit_for_bare_offset: spelling of the LIMIT emitted with a bare OFFSET *);\n"
    v += "  backslash_escape : bool (* string_literal_backslash_escape: backslashes of '...' literals are emitted doubled *);\n"
    v += "  recursive_keyword : bool (* with_recursive_keyword, true when the method does not exist *); interval_literal : bool (* has_interval_literal, likewise *) }.\n\n"
    v += "(* (dialect name, features after resolving handler(), trait defaults and overrides) in enum order *)\n"
    rows = []
    for n in info["names"]:
        f = info["feats"][n]
        rows.append("(%s (* %s *), mkFeat %s %d %s %d %s %s %s %s %s %s %s %s %s %s %s %s %s)" % (
            codes(n), n, coq_bool(f["use_fetch"]), ord(f["ident_quote"]), coq_bool(f["always_quoted"]), f["column_exclude"],
            coq_bool(f["set_ops_distinct"]), coq_bool(f["except_all"]), coq_bool(f["intersect_all"]), coq_bool(f["has_concat_function"]),
            coq_bool(f["stars_in_group"]), coq_bool(f["supports_distinct_on"]), coq_bool(f["supports_zero_columns"]),
            coq_bool(f["prefers_subquery_parentheses_shorthand"]), coq_bool(f["requires_order_by_in_window_function"]),
            "None" if f["limit_for_bare_offset"] is None else "(Some %s)" % codes(f["limit_for_bare_offset"]),
            coq_bool(f["string_literal_backslash_escape"]), coq_bool(f["with_recursive_keyword"]), coq_bool(f["has_interval_literal"])))
    v += "Definition feats : list (list N * feat) :=\n  [ " + ";\n    ".join(rows) + " ].\n\n"
    fx = info["fixes"]
    v += "(* which proposed repairs of open findings are in the source (read off the impl blocks / operators.rs, not off the table above) *)\n"
    v += "Record fixes := mkFixes { fix_n3 : bool; fix_n5 : bool; fix_n6 : bool; fix_n8 : bool; fix_n11 : bool }.\n"
    v += "Definition head_fixes : fixes := mkFixes %s %s %s %s %s.\n\n" % tuple(coq_bool(fx[k]) for k in ("n3", "n5", "n6", "n8", "n11"))
    v += "(* operators of std.sql.prql: (dialect module, [] = root; operator path; body is null; body: Some text chunk | None = hole) *)\n"
    rows = []
    for mod, op, isnull, glue in info["ops"]:
        rows.append("(%s, %s (* %s%s *), %s, [%s])" % (codes(mod), codes("std." + op), (mod + ":") if mod else "", op, coq_bool(isnull),
                                                      "; ".join("None" if c is None else "Some %s" % codes(c) for c in glue)))
    v += "Definition std_ops : list (list N * list N * bool * list (option (list N))) :=\n  [ " + ";\n    ".join(rows) + " ].\n\n"
    v += "(* operator_from_name: emitted as native binary operators, template never consulted *)\n"
    v += "Definition native_ops : list (list N) :=\n  [ " + ";\n    ".join("%s (* %s *)" % (codes(n), n) for n in info["natives"]) + " ].\n\n"
    v += "(* the set-operation support matrix documented in dialect.rs: (op: 0 union 1 except 2 intersect, quantifier: 0 all 1 distinct 2 implicit, engine, supported) *)\n"
    opn = {"Union": 0, "Except": 1, "Intersect": 2}
    qn = {"QAll": 0, "QDistinct": 1, "QNone": 2}
    v += "Definition setops_doc : list (N * N * list N * bool) :=\n  [ " + ";\n    ".join(
        "(%d, %d, %s (* %s %s %s *), %s)" % (opn[o], qn[q], codes(d), o, q, d, coq_bool(b)) for o, q, d, b in info["matrix"]) + " ].\n"
    gen_write("GenDialectFeat", v)
    return info

"""GenStdSql.v: the operator templates of sql/std.sql.prql, per dialect module: declared
binding_strength, parameters, body chunks (text / hole with its required strength), annotations,
and -- where the template text is an expression of the engine grammar -- its tree with holes
("skeleton").  The file is parsed by prqlc's own parser (harness `parsefile`); the skeleton is
produced by a small precedence parser below and is NOT trusted: Coq re-checks that it renders to
exactly the template text (template_wf) and that it respects the engine grammar.  Fails closed."""
import json
import re

from ..common import gen_write, harness1, REPO
from ..rustscan import ExtractError
from .c02_util import codes as _codes


def codes(s):
    return "(" + _codes(s) + ")%N"

PATH = "prqlc/prqlc/src/sql/std.sql.prql"

BIN = {  # spelling -> (constructor, prec, right-assoc)   (mirror of Model/SqlGrammar.v; checked by Coq through render/dok)
    "OR": ("SOr", 2, False), "AND": ("SAnd", 4, False), "=": ("SEq", 8, False), "<>": ("SNe", 8, False),
    "LIKE": ("SLike", 8, False), "REGEXP": ("SRegexp", 8, False), "~": ("STilde", 12, False),
    "<": ("SLt", 10, False), "<=": ("SLe", 10, False), ">": ("SGt", 10, False), ">=": ("SGe", 10, False),
    "+": ("SAdd", 14, False), "-": ("SSub", 14, False), "*": ("SMul", 16, False), "/": ("SDiv", 16, False),
    "%": ("SMod", 16, False), "DIV": ("SDivKw", 16, False), "||": ("SConcat", 18, False),
}
UN = {"NOT": ("SNot", 6, "NOT "), "-": ("SNeg", 22, "-"), "+": ("SPos", 22, "+")}
TOK = re.compile(r"\s*(?:(\d+(?:\.\d+)?)|('(?:[^']|'')*')|([A-Za-z_][A-Za-z0-9_]*)|(\|\||<>|<=|>=|!=|::|->|[()+\-*/%<>=~,.]))")


class NoSkel(Exception):
    pass


def tokenize(chunks):
    toks = []
    for c in chunks:
        if c[0] == "hole":
            toks.append(("H", c[2], c[3]))
            continue
        s = c[1]
        pos = 0
        while pos < len(s):
            if s[pos:].strip() == "":
                break
            m = TOK.match(s, pos)
            if not m:
                raise NoSkel("untokenizable text %r" % s[pos:pos + 12])
            pos = m.end()
            if m.group(1) is not None:
                toks.append(("A", m.group(1)))
            elif m.group(2) is not None:
                toks.append(("A", m.group(2)))
            elif m.group(3) is not None:
                w = m.group(3)
                if w.upper() in ("AND", "OR", "NOT", "LIKE", "REGEXP", "DIV") and w == w.upper():
                    toks.append(("P", w))
                else:
                    toks.append(("I", w))
            else:
                toks.append(("P", m.group(4)))
    return toks


class P:
    def __init__(self, toks):
        self.t = toks
        self.i = 0

    def peek(self):
        return self.t[self.i] if self.i < len(self.t) else ("E",)

    def next(self):
        x = self.peek()
        self.i += 1
        return x

    def primary(self):
        k = self.next()
        if k[0] == "H":
            return 0, ("hole", k[1], k[2])
        if k[0] == "A":
            return 0, ("atom", k[1])
        if k[0] == "I":
            if self.peek() == ("P", "("):
                self.next()
                args = []
                if self.peek() == ("P", ")"):
                    self.next()
                    return 0, ("call", k[1], args)
                while True:
                    args.append(self.expr(0))
                    d = self.next()
                    if d == ("P", ")"):
                        return 0, ("call", k[1], args)
                    if d != ("P", ","):
                        raise NoSkel("expected , or ) in call of %s" % k[1])
            raise NoSkel("bare identifier %r" % k[1])
        if k == ("P", "("):
            w, e = self.expr(0)
            if self.next() != ("P", ")"):
                raise NoSkel("unbalanced (")
            return w + 1, e
        if k[0] == "P" and k[1] in ("REGEXP", "LIKE", "DIV") and self.peek() == ("P", "("):
            self.i -= 1
            self.t[self.i] = ("I", k[1])
            return self.primary()
        if k[0] == "P" and k[1] in UN:
            ctor, up, _ = UN[k[1]]
            w, x = self.expr(up)
            return 0, ("un", ctor, w, x)
        raise NoSkel("unexpected token %r" % (k,))

    def expr(self, minp):
        w, lhs = self.primary()
        while True:
            k = self.peek()
            if k[0] == "P" and k[1] in BIN and BIN[k[1]][1] >= minp:
                ctor, pr, ra = BIN[k[1]]
                self.next()
                wr, rhs = self.expr(pr if ra else pr + 1)
                lhs = ("bin", ctor, w, lhs, wr, rhs)
                w = 0
            else:
                return w, lhs


SPELL = {v[0]: k for k, v in BIN.items()}
USPELL = {v[0]: v[2] for v in UN.values()}


def render(n, declared):
    k = n[0]
    if k == "atom":
        return n[1]
    if k == "hole":
        return "{%d:%d}" % (n[1], declared if n[2] is None else n[2])
    if k == "bin":
        return "(" * n[2] + render(n[3], declared) + ")" * n[2] + " " + SPELL[n[1]] + " " + "(" * n[4] + render(n[5], declared) + ")" * n[4]
    if k == "un":
        return USPELL[n[1]] + "(" * n[2] + render(n[3], declared) + ")" * n[2]
    if k == "call":
        return n[1] + "(" + ", ".join("(" * w + render(a, declared) + ")" * w for w, a in n[2]) + ")"
    raise AssertionError(k)


def coq_tree(n):
    k = n[0]
    if k == "atom":
        return "DAtom (AText %s)" % codes(n[1])
    if k == "hole":
        return "DAtom (th st %d %s)" % (n[1], "None" if n[2] is None else "(Some %d)" % n[2])
    if k == "bin":
        return "DBin %s %d (%s) %d (%s)" % (n[1], n[2], coq_tree(n[3]), n[4], coq_tree(n[5]))
    if k == "un":
        return "DUn %s %d (%s)" % (n[1], n[2], coq_tree(n[3]))
    if k == "call":
        return "DCall (FName %s) [%s]" % (codes(n[1]), "; ".join("(%d, %s)" % (w, coq_tree(a)) for w, a in n[2]))
    raise AssertionError(k)


def skeleton(chunks, declared):
    toks = tokenize(chunks)
    p = P(toks)
    w, e = p.expr(0)
    if p.i != len(toks):
        raise NoSkel("trailing tokens from %r" % (toks[p.i],))
    if e[0] == "hole":
        raise NoSkel("template is a bare hole")
    text = "".join(c[1] if c[0] == "text" else "{%d:%d}" % (c[2], declared if c[3] is None else c[3]) for c in chunks)
    got = "(" * w + render(e, declared) + ")" * w
    if got != text:
        raise NoSkel("non-canonical spacing: %r vs %r" % (got, text))
    return w, e


def walk(stmts, module, prefix, out):
    for st in stmts:
        if "ModuleDef" in st:
            md = st["ModuleDef"]
            if module == "" and prefix == "" and md["name"] not in ("math", "text", "date"):
                walk(md["stmts"], md["name"], "", out)
            else:
                walk(md["stmts"], module, prefix + md["name"] + ".", out)
            continue
        if "VarDef" not in st:
            raise ExtractError("unexpected statement kind in std.sql.prql: %s" % list(st.keys()))
        vd = st["VarDef"]
        val = vd.get("value") or {}
        if "Func" not in val:
            raise ExtractError("std.sql.prql: %s is not a function" % vd.get("name"))
        fn = val["Func"]
        params = [p["name"] for p in fn.get("named_params", [])] + [p["name"] for p in fn.get("params", [])]
        pnames = [p.split(".")[-1] for p in params]
        body = fn["body"]
        ann = {}
        anns = st.get("annotations", [])
        if len(anns) == 1:
            tup = anns[0]["expr"].get("Tuple")
            if tup is None:
                raise ExtractError("annotation of %s is not a tuple" % vd["name"])
            for item in tup:
                lit = item.get("Literal")
                if lit is None or "alias" not in item:
                    raise ExtractError("annotation item of %s is not alias=literal" % vd["name"])
                ann[item["alias"]] = lit
        elif len(anns) > 1:
            ann = {}      # find_operator_impl: `exactly_one().ok()` -> more than one annotation = none
        t = {"module": module, "name": prefix + vd["name"], "params": pnames,
             "declared": None, "coalesce": None, "window": False, "chunks": None, "skel": None, "why": None}
        for k, v in ann.items():
            if k == "binding_strength":
                if "Integer" in v:
                    t["declared"] = int(v["Integer"])
            elif k == "window_frame":
                if "Boolean" in v:
                    t["window"] = bool(v["Boolean"])
            elif k == "coalesce":
                if "String" in v:
                    t["coalesce"] = v["String"]
            else:
                raise ExtractError("unknown annotation %s on %s" % (k, vd["name"]))
        if "Literal" in body and body["Literal"] == "Null":
            t["chunks"] = None
        elif "SString" in body:
            ch = []
            for it in body["SString"]:
                if "String" in it:
                    ch.append(("text", it["String"]))
                elif "Expr" in it:
                    ex = it["Expr"]["expr"]
                    if "Ident" not in ex or len(ex["Ident"]) != 1:
                        raise ExtractError("hole of %s is not a plain identifier" % vd["name"])
                    nm = ex["Ident"][0]
                    if nm not in pnames:
                        raise ExtractError("hole %s of %s is not a parameter" % (nm, vd["name"]))
                    fmt = it["Expr"].get("format")
                    req = None
                    if fmt is not None:
                        # Rust: f.parse::<i32>().ok()
                        if re.fullmatch(r"[+-]?\d+", fmt):
                            req = int(fmt)
                            if req < 0:
                                raise ExtractError("negative required strength in %s" % vd["name"])
                    ch.append(("hole", nm, pnames.index(nm), req))
                else:
                    raise ExtractError("unknown interpolation item in %s" % vd["name"])
            t["chunks"] = ch
            declared = t["declared"] if t["declared"] is not None else 100
            try:
                t["skel"] = skeleton(ch, declared)
            except NoSkel as ex:
                t["why"] = str(ex)
        else:
            raise ExtractError("body of %s is neither an s-string nor null" % vd["name"])
        out.append(t)


def extract():
    import os
    r = harness1("parsefile", {"path": os.path.join(REPO, PATH)})
    if "ok" not in r:
        raise ExtractError("prqlc cannot parse std.sql.prql: %s" % json.dumps(r)[:300])
    out = []
    walk(r["ok"]["stmts"], "", "", out)
    if not out:
        raise ExtractError("no templates found")
    return {"templates": out}


def generate():
    try:
        info = extract()
    except ExtractError as ex:
        gen_write("GenStdSql", "(* EXTRACTION FAILED: %s *)\nDefinition gen_std_sql_extraction_failed := tt.\n" % str(ex).replace("*)", "* )"))
        return {"error": str(ex)}
    v = "(* generated from /repo/%s (through prqlc's own parser) on every run by vplib/translate/gen_std_sql.py -- do not edit *)\n" % PATH
    v += "From Coq Require Import List NArith.\nFrom PV Require Import Lib.ListX Model.Pratt Model.SqlGrammar Model.SqlTree.\nImport ListNotations.\n\n"
    v += "Definition templates : list template :=\n  [ "
    items = []
    for t in info["templates"]:
        opt = lambda x, f: "None" if x is None else "(Some %s)" % f(x)
        if t["chunks"] is None:
            body = "None"
        else:
            body = "(Some [" + "; ".join(
                "CText %s" % codes(c[1]) if c[0] == "text" else "CHole %s %d %s" % (codes(c[1]), c[2], opt(c[3], lambda r: "%d" % r))
                for c in t["chunks"]) + "])"
        if t["skel"] is None:
            sk = "None"
        else:
            w, e = t["skel"]
            sk = "(Some (fun st : nat => (%d, %s)))" % (w, coq_tree(e))
        cm = "%s%s%s" % (t["module"] + "." if t["module"] else "", t["name"], "" if t["skel"] or t["chunks"] is None else "  -- no skeleton: " + (t["why"] or ""))
        items.append("(* %s *)\n    {| t_module := %s; t_name := %s; t_params := [%s]; t_declared := %s; t_coalesce := %s; t_window := %s;\n       t_body := %s;\n       t_skel := %s |}" % (
            cm.replace("*)", "* )").replace("(*", "( *"), codes(t["module"]), codes(t["name"]), "; ".join(codes(p) for p in t["params"]),
            opt(t["declared"], lambda d: "%d" % d), opt(t["coalesce"], codes), "true" if t["window"] else "false", body, sk))
    v += ";\n    ".join(items) + " ].\n"
    gen_write("GenStdSql", v)
    return info

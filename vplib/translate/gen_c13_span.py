"""GenC13.v (C13): the comment-free, whitespace-normalised text of the functions that Model/Span.v restates by
hand, the literal arguments of Error::new_simple("..") and the variants of `enum Reason`, read from /repo on
every run (Tie A).  Props/C13.v compares them with the recorded text in coq/Model/SpanBaseline.v by vm_compute:
an edit to one of these functions is an unproved obligation until the model has been re-read against the new
code and the baseline re-recorded (`python3 -m vplib.translate.gen_c13_span --baseline`).

Independent of gen_sites.py (C12) on purpose: C12 re-records its inventory on its own schedule.

Excluded from the text: comments, #[cfg(test)] and #[cfg(prqlc_verif)] items/statements (verification hooks are
add-only code behind that cfg and are not part of the product).  Fail closed: any item that is not found, or
whose braces do not match, makes the translator write a stub, so that Props/C13.v stops compiling."""
import os
import re
import sys

from ..common import gen_write, REPO, ROOT
from ..rustscan import ExtractError, mask, match_brace

BASES = ["prqlc/prqlc/src", "prqlc/prqlc-parser/src"]

# (name, file, regex locating the item header in masked text); the item is the header plus its brace-matched body
MODELLED = [
    # ErrorMessages::composed / compose_location: location of a span, the assert, the span of a foreign source dropped
    ("composed", "prqlc/prqlc/src/error_message.rs", r"pub\s+fn\s+composed\s*\("),
    ("compose_location", "prqlc/prqlc/src/error_message.rs", r"fn\s+compose_location\s*\("),
    ("error_message_from_error", "prqlc/prqlc/src/error_message.rs", r"impl\s+From<Error>\s+for\s+ErrorMessage\s*(?=\{)"),
    # SourceTree: ids
    ("source_tree_single", "prqlc/prqlc/src/lib.rs", r"pub\s+fn\s+single\s*\("),
    ("source_tree_new", "prqlc/prqlc/src/lib.rs", r"pub\s+fn\s+new<I>\s*\("),
    ("source_tree_from", "prqlc/prqlc/src/lib.rs", r"impl<S:\s*ToString>\s+From<S>\s+for\s+SourceTree\s*(?=\{)"),
    # prql_to_tokens: lexer errors composed against the one-file tree
    ("prql_to_tokens", "prqlc/prqlc/src/lib.rs", r"pub\s+fn\s+prql_to_tokens\s*\("),
    ("lex_source_recovery", "prqlc/prqlc-parser/src/lexer/mod.rs", r"pub\s+fn\s+lex_source_recovery\s*\("),
    # compile path: lexer errors and parser errors of one file carry that file's id; std.prql is source 0
    ("parse_source", "prqlc/prqlc/src/parser.rs", r"pub\(crate\)\s+fn\s+parse_source\s*\("),
    ("lexer_errors_to_byte_spans", "prqlc/prqlc/src/parser.rs", r"pub\(crate\)\s+fn\s+lexer_errors_to_byte_spans\s*\("),
    ("load_std_lib", "prqlc/prqlc/src/semantic/mod.rs", r"pub\s+fn\s+load_std_lib\s*\("),
    ("convert_lexer_error", "prqlc/prqlc-parser/src/lexer/mod.rs", r"fn\s+convert_lexer_error\s*\("),
    # parser: token-index spans -> byte offsets of token spans
    ("parse_lr_to_pr", "prqlc/prqlc-parser/src/parser/mod.rs", r"pub\s+fn\s+parse_lr_to_pr\s*\("),
    ("span_add", "prqlc/prqlc-parser/src/span.rs", r"impl\s+Add<usize>\s+for\s+Span\s*(?=\{)"),
    ("interp_call", "prqlc/prqlc-parser/src/parser/expr.rs", r"fn\s+interpolation<'a,\s*I>\s*\("),
    # Reason / with_span
    ("reason_display", "prqlc/prqlc-parser/src/error.rs", r"impl\s+std::fmt::Display\s+for\s+Reason\s*(?=\{)"),
    ("with_error_info_for_error", "prqlc/prqlc-parser/src/error.rs", r"impl\s+WithErrorInfo\s+for\s+Error\s*(?=\{)"),
    # resolver: an error of a std function body is moved to the call site
    ("fold_function", "prqlc/prqlc/src/semantic/resolver/functions.rs", r"pub\s+fn\s+fold_function\s*\("),
]
# statement-level excerpts (anchored regex over comment-free whitespace-normalised source; group 1 is pinned)
EXCERPTS = [
    ("interp_rebase", "prqlc/prqlc-parser/src/parser/interpolation.rs",
     r"(let span = Span \{ start: .*?, end: .*?, source_id: span_base\.source_id, \};)"),
]


def codes(s):
    return "[" + ";".join(str(ord(c)) for c in s) + "]"


def norm(text):
    return re.sub(r"\s+", " ", text).strip()


def strip_cfg(src, m):
    """blank out every item or statement that follows #[cfg(test)] or #[cfg(prqlc_verif)]: mod {...}, fn {...},
    a bare block {...}, `mod x;`, `use ...;`, `let ... ;`.  Returns (src', masked', [test modules declared `mod x;`])"""
    out_s, out_m = list(src), list(m)
    declared = []
    n = len(m)
    for mm in re.finditer(r"#\[cfg\((test|prqlc_verif)\)\]", m):
        i = mm.end()
        while i < n and m[i].isspace():
            i += 1
        while m.startswith("#[", i):
            i = match_brace(m, i + 1) + 1
            while i < n and m[i].isspace():
                i += 1
        if i >= n:
            raise ExtractError("#[cfg(..)] without an item")
        if m[i] == "{":
            end = match_brace(m, i) + 1
        elif re.match(r"(pub(\([^)]*\))?\s+)?(unsafe\s+|async\s+|const\s+)*(mod|fn|impl|struct|enum|trait)\b", m[i:i + 60]):
            j = i
            while j < n and m[j] not in ";{":
                j += 1
            if j >= n:
                raise ExtractError("#[cfg(..)] item without body")
            if m[j] == ";":
                end = j + 1
                d = re.search(r"\bmod\s+([A-Za-z_0-9]+)\s*$", m[i:j])
                if d and mm.group(1) == "test":
                    declared.append(d.group(1))
            else:
                end = match_brace(m, j) + 1
        elif re.match(r"(if|match|for|while|loop)\b", m[i:i + 8]):
            # a block-like expression statement: ends with the block (and its else-chain), no ';'
            j = i
            while True:
                depth = 0
                while j < n and not (m[j] == "{" and depth == 0):
                    if m[j] in "([":
                        depth += 1
                    elif m[j] in ")]":
                        depth -= 1
                    elif m[j] == ";" and depth == 0:
                        raise ExtractError("#[cfg(..)] block statement without a block")
                    j += 1
                if j >= n:
                    raise ExtractError("#[cfg(..)] block statement without a block")
                j = match_brace(m, j) + 1
                k = j
                while k < n and m[k].isspace():
                    k += 1
                if m.startswith("else", k) and not (m[k + 4].isalnum() or m[k + 4] == "_"):
                    j = k + 4
                    continue
                break
            end = j
        else:
            depth = 0
            j = i
            while j < n:
                ch = m[j]
                if ch in "([{":
                    depth += 1
                elif ch in ")]}":
                    depth -= 1
                    if depth < 0:
                        raise ExtractError("#[cfg(..)] statement runs past its block")
                elif ch == ";" and depth == 0:
                    break
                j += 1
            if j >= n:
                raise ExtractError("#[cfg(..)] statement without ';'")
            end = j + 1
        for k in range(mm.start(), end):
            if out_s[k] != "\n":
                out_s[k] = " "
                out_m[k] = " "
    return "".join(out_s), "".join(out_m), declared


def list_files():
    files = []
    for base in BASES:
        root = os.path.join(REPO, base)
        if not os.path.isdir(root):
            raise ExtractError("missing source directory " + base)
        for dp, dn, fn in os.walk(root):
            dn.sort()
            for f in sorted(fn):
                if f.endswith(".rs"):
                    files.append(os.path.relpath(os.path.join(dp, f), REPO))
    return files


def excluded(rel, test_decl):
    parts = rel.split("/")
    if rel.startswith("prqlc/prqlc/src/cli") or rel == "prqlc/prqlc/src/main.rs":
        return True
    if parts[-1] in ("test.rs", "tests.rs") or "tests" in parts[:-1] or "test" in parts[:-1]:
        return True
    return rel in test_decl


def rust_unescape(s):
    """the value of a (non-raw) Rust string literal body: line continuations, \\n \\t \\" \\\\ """
    s = re.sub(r"\\\n\s*", "", s)
    return s.replace('\\"', '"').replace("\\n", "\n").replace("\\t", "\t").replace("\\\\", "\\")


def site_key(st):
    return "%s|%s|%s" % (st["file"], st["kind"], st["text"])


def site_regex(st):
    """regex that the Display of an error of this site matches in full; None when the text is not in the source"""
    if st["kind"] == "literal":
        return re.compile(re.escape(st["text"]) + r"\Z", re.S)
    if st["kind"] == "format":
        out, i, tx = "", 0, st["text"]
        while i < len(tx):
            if tx.startswith("{{", i):
                out += re.escape("{"); i += 2
            elif tx.startswith("}}", i):
                out += re.escape("}"); i += 2
            elif tx[i] == "{":
                j = tx.index("}", i)
                out += "(?:.*)"; i = j + 1
            else:
                out += re.escape(tx[i]); i += 1
        return re.compile(out + r"\Z", re.S)
    return None


def item_text(s2, m2, pattern, rel):
    """comment-free text of the item whose header matches `pattern` exactly once"""
    found = list(re.finditer(pattern, m2))
    if not found:
        raise ExtractError("%s: modelled item not found: %s" % (rel, pattern))
    if len(found) > 1:
        raise ExtractError("%s: modelled item is ambiguous (%d matches): %s" % (rel, len(found), pattern))
    mm = found[0]
    i = m2.find("{", mm.end() - 1)
    if i < 0:
        raise ExtractError("%s: no body after %s" % (rel, pattern))
    if ";" in m2[mm.end():i]:
        raise ExtractError("%s: a ';' precedes the body of %s" % (rel, pattern))
    j = match_brace(m2, i)
    raw, msk = s2[mm.start():j + 1], m2[mm.start():j + 1]
    keep, instr = [], False
    for a, b in zip(raw, msk):
        if b == '"':
            instr = not instr
            keep.append(a)
        elif instr:
            keep.append(a)      # string contents are part of the pin
        else:
            keep.append(b)      # comments are blank in the masked text
    return norm("".join(keep))


def extract():
    files = list_files()
    texts, test_decl = {}, set()
    for rel in files:
        src = open(os.path.join(REPO, rel), encoding="utf-8").read()
        s2, m2, declared = strip_cfg(src, mask(src))
        d = os.path.dirname(rel)
        for name in declared:
            test_decl.add(os.path.join(d, name + ".rs"))
            test_decl.add(os.path.join(d, name, "mod.rs"))
        texts[rel] = (s2, m2)
    kept = [rel for rel in files if not excluded(rel, test_decl)]
    if len(kept) < 40:
        raise ExtractError("only %d library source files found" % len(kept))
    modelled = []
    for name, rel, pat in MODELLED:
        if rel not in texts:
            raise ExtractError("modelled function %s: file %s missing" % (name, rel))
        modelled.append((name, item_text(texts[rel][0], texts[rel][1], pat, rel)))
    for name, rel, pat in EXCERPTS:
        if rel not in texts:
            raise ExtractError("excerpt %s: file %s missing" % (name, rel))
        flat = norm(texts[rel][1])
        found = list(re.finditer(pat, flat))
        if len(found) != 1:
            raise ExtractError("excerpt %s: %d matches of the modelled shape in %s" % (name, len(found), rel))
        modelled.append((name, found[0].group(1)))
    # Error::new_simple("literal") arguments (reason_nonempty) -- over library files, original text
    lits = []
    for rel in kept:
        s2, m2 = texts[rel]
        for mm in re.finditer(r"new_simple\s*\(\s*\"", m2):
            q = mm.end() - 1
            e = m2.find('"', q + 1)
            if e < 0:
                raise ExtractError("unterminated literal in %s" % rel)
            lits.append((rel, s2[q + 1:e]))
    if len(lits) < 20:
        raise ExtractError("only %d Error::new_simple literals found" % len(lits))
    # inventory of every Error::new_simple(..) site of the library: (file, kind, text); kind = literal | format | expr
    sites = []
    for rel in kept:
        s2, m2 = texts[rel]
        for mm in re.finditer(r"Error::new_simple\s*\(", m2):
            i = mm.end()
            while i < len(m2) and m2[i].isspace():
                i += 1
            line = s2.count("\n", 0, mm.start()) + 1
            fm = re.match(r"format!\s*\(\s*\"", m2[i:i + 40])
            if m2[i] == '"':
                e = m2.find('"', i + 1)
                sites.append({"file": rel, "line": line, "kind": "literal", "text": rust_unescape(s2[i + 1:e])})
            elif fm:
                q = i + fm.end() - 1
                e = m2.find('"', q + 1)
                if e < 0:
                    raise ExtractError("unterminated format string in %s" % rel)
                sites.append({"file": rel, "line": line, "kind": "format", "text": rust_unescape(s2[q + 1:e])})
            else:
                j = match_brace(m2, mm.end() - 1)
                sites.append({"file": rel, "line": line, "kind": "expr", "text": norm(m2[mm.end():j])})
    if len(sites) < 40:
        raise ExtractError("only %d Error::new_simple sites found" % len(sites))
    # enum Reason variants
    es, em = texts["prqlc/prqlc-parser/src/error.rs"]
    mm = re.search(r"pub\s+enum\s+Reason\s*\{", em)
    if not mm:
        raise ExtractError("enum Reason not found")
    j = match_brace(em, mm.end() - 1)
    variants, depth = [], 0
    for tok in re.finditer(r"[{}(),]|[A-Za-z_][A-Za-z0-9_]*", em[mm.end():j]):
        t = tok.group(0)
        if t in "{(":
            depth += 1
        elif t in "})":
            depth -= 1
        elif depth == 0 and t != "," and t[0].isupper():
            variants.append(t)
    if not variants:
        raise ExtractError("enum Reason: no variants")
    return {"modelled": modelled, "simple_literals": lits, "reason_variants": variants, "files": kept, "simple_sites": sites}


def cmt(t):
    return t.replace("*)", "* )").replace("(*", "( *").replace('"', "''").replace("\n", " ")


def render(info):
    v = "(* generated from /repo on every run by vplib/translate/gen_c13_span.py -- do not edit *)\n"
    v += "From Coq Require Import List NArith.\nImport ListNotations.\nLocal Open Scope N_scope.\n\n"
    v += "(* comment-free, whitespace-normalised text of the functions restated by hand in Model/Span.v *)\n"
    v += "Definition modelled : list (list N * list N) :=\n  [ " + ";\n    ".join(
        "(%s, %s) (* %s *)" % (codes(n), codes(t), n) for n, t in info["modelled"]) + " ].\n\n"
    v += "Definition simple_literals : list (list N) :=\n  [ " + ";\n    ".join(
        "%s (* %s *)" % (codes(t), f) for f, t in info["simple_literals"]) + " ].\n\n"
    v += "Definition reason_variants : list (list N) :=\n  [ " + "; ".join(
        "%s (* %s *)" % (codes(t), t) for t in info["reason_variants"]) + " ].\n\n"
    v += "(* every Error::new_simple(..) site of the library, as file|kind|text, in source order *)\n"
    v += "Definition simple_sites : list (list N) :=\n  [ " + ";\n    ".join(
        "%s (* %s *)" % (codes(site_key(st)), cmt(site_key(st))) for st in info["simple_sites"]) + " ].\n"
    return v


def generate():
    try:
        info = extract()
    except ExtractError as ex:
        gen_write("GenC13", "(* EXTRACTION FAILED: %s *)\nDefinition gen_c13_extraction_failed := tt.\n" % str(ex).replace("*)", "* )"))
        return {"error": str(ex)}
    gen_write("GenC13", render(info))
    return info


BASELINE_FUNS = """Fixpoint same_text (a b : list (str * str)) : bool :=
  match a, b with
  | [], [] => true
  | (n, t) :: a', (n', t') :: b' => leqb n n' && leqb t t' && same_text a' b'
  | _, _ => false
  end.

(* names of the rows of a that have no equal row in b (for reporting) *)
Definition differing (a b : list (str * str)) : list str :=
  map fst (filter (fun e => negb (existsb (fun e' => leqb (fst e) (fst e') && leqb (snd e) (snd e')) b)) a).

Fixpoint same_list (a b : list str) : bool :=
  match a, b with
  | [], [] => true
  | x :: a', y :: b' => leqb x y && same_list a' b'
  | _, _ => false
  end.

Definition nonempty_all (l : list str) : bool := forallb (fun s => match s with [] => false | _ => true end) l.
"""


def write_baseline():
    info = extract()
    cm = lambda t: t.replace("*)", "* )").replace("(*", "( *")
    v = "(* C13: recorded text of the functions Model/Span.v restates by hand, taken from /repo by\n"
    v += "   `python3 -m vplib.translate.gen_c13_span --baseline` AFTER re-reading the code against the model.\n"
    v += "   Props/C13.v states  same_text GenC13.modelled modelled_expected = true : an edit to a modelled function is\n"
    v += "   an unproved obligation until this table is re-recorded. *)\n"
    v += "From Coq Require Import List NArith Bool.\nFrom PV Require Import Lib.ListX.\nImport ListNotations.\nLocal Open Scope N_scope.\n\n"
    v += "Definition modelled_expected : list (str * str) :=\n  [ " + ";\n    ".join(
        "(%s,\n     %s) (* %s: %s *)" % (codes(n), codes(t), n, cm(t)) for n, t in info["modelled"]) + " ].\n\n"
    v += "Definition reason_variants_expected : list str :=\n  [ " + "; ".join(
        "%s (* %s *)" % (codes(t), t) for t in info["reason_variants"]) + " ].\n\n"
    v += "(* the inventory of Error::new_simple sites for which vplib/props/c13_templates.py was last reviewed: a new site is an\n"
    v += "   unproved obligation until a template (or a reason why none can exist) is recorded and this list re-recorded *)\n"
    v += "Definition simple_sites_expected : list str :=\n  [ " + ";\n    ".join(
        "%s (* %s *)" % (codes(site_key(st)), cmt(site_key(st))) for st in info["simple_sites"]) + " ].\n\n"
    v += BASELINE_FUNS
    open(os.path.join(ROOT, "coq", "Model", "SpanBaseline.v"), "w").write(v)
    print("baseline written: %d modelled items, %d variants" % (len(info["modelled"]), len(info["reason_variants"])))


if __name__ == "__main__":
    if "--baseline" in sys.argv:
        write_baseline()
    else:
        r = generate()
        print({k: (v if k == "error" else len(v)) for k, v in r.items()})

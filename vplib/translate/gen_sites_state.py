"""GenState.v: inventory of process-global state and nondeterminism sources of prqlc / prqlc-parser (Tie A of C11).

Rows are (file, kind, item):
  kind = static | once | lazy | thread_local | lock | atomic | env | clock | random | hash-iter | unsafe | under-lock
  item = the name of the static / the env call / `<fn>:<ident>.<method>` for an iteration over a HashMap/HashSet /
         `<fn>:<LOCK>.<write|read|lock>[:<op>...]` for a function that takes a static lock, with every operation that
         can panic (arithmetic assignment, assert, unwrap, expect, panic) or that was chosen not to (saturating_*)
         between taking the lock and the end of the function -- a panic there poisons the lock for the whole process
         (F10h: an assert in log_start; F10j: `suppress_count -= 1` in LogSuppressLock::drop).
Hash iteration is approximated by type annotations: an identifier (local, parameter or struct field) whose
declared type mentions HashMap / HashSet (or that is initialised from HashMap::/HashSet:: or collected with a
turbofish into one), used with .iter() .iter_mut() .into_iter() .keys() .values() .values_mut() .into_keys()
.into_values() .drain() or as the subject of `for .. in`.  Test modules (#[cfg(test)] mod ..) and the cli are skipped
(the cli is behind a cargo feature the library build does not enable)."""
import os
import re

from ..common import gen_write, REPO
from ..rustscan import ExtractError, mask, match_brace

ROOTS = ["prqlc/prqlc/src", "prqlc/prqlc-parser/src"]
SKIP_DIRS = ("prqlc/prqlc/src/cli",)
SKIP_FILES = re.compile(r"(^|/)(test|tests)\.rs$|/tests?/")
ITER_METHODS = "iter|iter_mut|into_iter|keys|values|values_mut|into_keys|into_values|drain"
HASH = r"(?:HashMap|HashSet)"


def files():
    out = []
    for base in ROOTS:
        for dp, dn, fn in os.walk(os.path.join(REPO, base)):
            dn.sort()
            rel_dir = os.path.relpath(dp, REPO)
            if any(rel_dir == s or rel_dir.startswith(s + "/") for s in SKIP_DIRS):
                continue
            for f in sorted(fn):
                rel = os.path.join(rel_dir, f)
                if f.endswith(".rs") and not SKIP_FILES.search(rel):
                    out.append(rel)
    if len(out) < 40:
        raise ExtractError("source tree looks wrong: only %d files" % len(out))
    return out


def strip_test_modules(src, m):
    """blank out `#[cfg(test)] mod x { ... }` blocks (same offsets)"""
    out = list(m)
    for mm in re.finditer(r"#\[cfg\(test\)\]\s*(?:pub\s+)?mod\s+\w+\s*\{", m):
        o = m.index("{", mm.start())
        c = match_brace(m, o)
        for k in range(mm.start(), c + 1):
            if out[k] != "\n":
                out[k] = " "
    return "".join(out)


def strip_verif_hooks(m):
    """blank out statements / blocks guarded by #[cfg(prqlc_verif)] (verification hooks: add-only logging,
    DESIGN section 9) -- they are not part of the program under verification"""
    out = list(m)
    for mm in re.finditer(r"#\[cfg\(prqlc_verif\)\]", m):
        k = mm.end()
        depth = 0
        end = None
        while k < len(m):
            ch = m[k]
            if ch == "{" and depth == 0:
                end = match_brace(m, k)
                # a `let x = {...};` style statement continues to the `;`
                j = end + 1
                while j < len(m) and m[j].isspace():
                    j += 1
                if j < len(m) and m[j] == ";":
                    end = j
                break
            if ch in "([":
                depth += 1
            elif ch in ")]":
                depth -= 1
            elif ch == ";" and depth == 0:
                end = k; break
            k += 1
        if end is None:
            raise ExtractError("unterminated cfg(prqlc_verif) item")
        for q in range(mm.start(), end + 1):
            if out[q] != "\n":
                out[q] = " "
    return "".join(out)


def match_paren(m, open_idx):
    depth = 0
    for k in range(open_idx, len(m)):
        if m[k] == "(":
            depth += 1
        elif m[k] == ")":
            depth -= 1
            if depth == 0:
                return k
    raise ExtractError("unbalanced ( at %d" % open_idx)


def fn_spans(m):
    """[(start, end, name)] of fn bodies, innermost last"""
    spans = []
    for mm in re.finditer(r"\bfn\s+([A-Za-z_][A-Za-z0-9_]*)", m):
        k = mm.end()
        depth = 0
        while k < len(m):
            ch = m[k]
            if ch in "(<[":
                depth += 1
            elif ch in ")>]" and not (ch == ">" and m[k - 1] == "-"):
                depth -= 1
            elif ch == "{" and depth <= 0:
                break
            elif ch == ";" and depth <= 0:
                k = -1; break
            k += 1
        if k < 0 or k >= len(m):
            continue
        try:
            e = match_brace(m, k)
        except ExtractError:
            continue
        spans.append((k, e, mm.group(1)))
    return spans


def enclosing_fn(spans, pos):
    best = None
    for s, e, n in spans:
        if s <= pos <= e and (best is None or s >= best[0]):
            best = (s, e, n)
    return best[2] if best else "<top>"


SORT_CALL = re.compile(r"\.\s*(sort|sort_by|sort_by_key|sort_unstable|sort_unstable_by|sort_unstable_by_key|sorted|sorted_by|sorted_by_key|sorted_unstable)\s*\(")


UNDER_LOCK_OPS = re.compile(r"(-=|\+=|\*=|\bsaturating_sub\b|\bsaturating_add\b|\bwrapping_sub\b|\bwrapping_add\b|\bchecked_sub\b|\bchecked_add\b"
                            r"|\bassert(?:_eq|_ne)?!|\bdebug_assert(?:_eq|_ne)?!|\.\s*unwrap\s*\(|\.\s*expect\s*\(|\bpanic!|\bunreachable!|\btodo!|\bunimplemented!)")


def sorted_after(m, spans, pos):
    """is there a sort call between the iteration and the end of the enclosing fn?  (recorded in the row, so
    that dropping the sort changes the inventory)"""
    best = None
    for s, e, n in spans:
        if s <= pos <= e and (best is None or s >= best[0]):
            best = (s, e, n)
    if best is None:
        return False
    return bool(SORT_CALL.search(m, pos, best[1]))


def hash_fields(all_masked):
    """struct field names (any file) whose declared type mentions HashMap/HashSet"""
    names = set()
    for rel, m in all_masked.items():
        for mm in re.finditer(r"(?m)^\s*(?:pub(?:\([^)]*\))?\s+)?([a-z_][a-z0-9_]*)\s*:\s*[^=;\n{]*\b%s\b" % HASH, m):
            # a field or a parameter on its own line
            names.add(mm.group(1))
    return names


def hash_locals(m):
    names = set()
    for mm in re.finditer(r"\b([a-z_][a-z0-9_]*)\s*:\s*(?:&\s*(?:'\w+\s+)?(?:mut\s+)?)?(?:Option<\s*)?(?:std::collections::)?%s\b" % HASH, m):
        names.add(mm.group(1))
    for mm in re.finditer(r"\blet\s+(?:mut\s+)?([a-z_][a-z0-9_]*)\s*(?::[^=;]*)?=\s*(?:std::collections::)?%s::" % HASH, m):
        names.add(mm.group(1))
    for mm in re.finditer(r"\blet\s+(?:mut\s+)?([a-z_][a-z0-9_]*)\s*(?::[^=;]*)?=[^;]*?collect::<\s*%s\b" % HASH, m):
        names.add(mm.group(1))
    # type aliases of hash containers declared in this file
    for al in re.finditer(r"\btype\s+([A-Z]\w*)\s*=\s*[^;]*\b%s\b" % HASH, m):
        for mm in re.finditer(r"\b([a-z_][a-z0-9_]*)\s*:\s*(?:&\s*(?:mut\s+)?)?%s\b" % re.escape(al.group(1)), m):
            names.add(mm.group(1))
    return names - {"self"}


def extract():
    rows = []
    srcs, masked = {}, {}
    for rel in files():
        src = open(os.path.join(REPO, rel), encoding="utf-8").read()
        m = strip_verif_hooks(strip_test_modules(src, mask(src)))
        srcs[rel] = src; masked[rel] = m
    fields = hash_fields(masked)
    closure_under_lock = {}     # fn name -> file: functions that call a closure parameter while holding a static lock
    forbid = 0
    for rel in sorted(masked):
        m = masked[rel]
        spans = fn_spans(m)
        if re.search(r"#!\[forbid\(unsafe_code\)\]", m):
            forbid += 1
        for mm in re.finditer(r"\bunsafe\b", m):
            rows.append((rel, "unsafe", enclosing_fn(spans, mm.start())))
        for mm in re.finditer(r"\bstatic\s+(?:mut\s+)?([A-Z_][A-Z0-9_]*)\s*:\s*([^=;]+)", m):
            ty = mm.group(2)
            kind = ("once" if re.search(r"\bOnce(Lock|Cell)\b", ty) else "lazy" if re.search(r"\bLazy(Lock|Cell)?\b", ty)
                    else "lock" if re.search(r"\b(RwLock|Mutex)\b", ty) else "atomic" if re.search(r"\bAtomic\w+", ty) else "static")
            if re.match(r"static\s+mut\b", mm.group(0)):
                kind = "static-mut"
            rows.append((rel, kind, mm.group(1)))
        for lk in re.finditer(r"\bstatic\s+(?:mut\s+)?([A-Z_][A-Z0-9_]*)\s*:\s*[^=;]*\b(?:RwLock|Mutex)\b", m):
            for s_, e_, n_ in spans:
                body = m[s_:e_]
                for a in re.finditer(r"\b%s\s*\.\s*(write|read|lock|try_write|try_read|try_lock)\s*\(\s*\)(?:\s*\.\s*(?:unwrap\s*\(\s*\)|unwrap_or_else\s*\([^;]*?\)|expect\s*\([^;]*?\)))?" % re.escape(lk.group(1)), body):
                    if enclosing_fn(spans, s_ + a.start()) != n_:
                        continue      # reported for the innermost function only
                    ops = [re.sub(r"\s+", "", o).strip(".(") for o in UNDER_LOCK_OPS.findall(body[a.end():])]
                    # closures received as parameters and called while the lock is held: whatever they do happens under the lock
                    sig = m[max(0, s_ - 400):s_]
                    sig = sig[sig.rfind("fn " + n_):] if ("fn " + n_) in sig else ""
                    for cp in re.finditer(r"\b([a-z_][a-z0-9_]*)\s*:\s*(?:impl|&dyn|Box<dyn)\s+Fn(?:Once|Mut)?\b", sig):
                        if re.search(r"(?<![A-Za-z0-9_.])%s\s*\(" % re.escape(cp.group(1)), body[a.end():]):
                            ops.append("call:" + cp.group(1))
                            closure_under_lock.setdefault(n_, rel)
                    rows.append((rel, "under-lock", "%s:%s.%s%s" % (n_, lk.group(1), a.group(1), "".join(":" + o for o in ops))))
        for mm in re.finditer(r"\b(lazy_static|thread_local)\s*!", m):
            rows.append((rel, "lazy" if mm.group(1) == "lazy_static" else "thread_local", enclosing_fn(spans, mm.start())))
        for mm in re.finditer(r"\benv::(var|vars|var_os|args|current_dir|temp_dir|set_var)\b", m):
            lit = re.match(r'\s*\(\s*"([^"]*)"', srcs[rel][mm.end():mm.end() + 80])
            rows.append((rel, "env", "%s:%s%s" % (enclosing_fn(spans, mm.start()), mm.group(1), "(%s)" % lit.group(1) if lit else "")))
        for mm in re.finditer(r"\b(SystemTime|Instant|Utc|Local)::now\b", m):
            rows.append((rel, "clock", "%s:%s" % (enclosing_fn(spans, mm.start()), mm.group(1))))
        for mm in re.finditer(r"\b(rand::|thread_rng|RandomState::new|getrandom)", m):
            rows.append((rel, "random", "%s:%s" % (enclosing_fn(spans, mm.start()), mm.group(1).rstrip(":"))))
        names = hash_locals(m) | fields | {"__none__"}
        alt = "|".join(sorted(re.escape(n) for n in names))
        for mm in re.finditer(r"(?<![A-Za-z0-9_])((?:[a-z_][a-z0-9_]*\s*\.\s*)*)(%s)\s*\.\s*(%s)\s*\(" % (alt, ITER_METHODS), m):
            # a local that merely shares its name with a hash-typed field of another struct, in a file where
            # it is declared with a non-hash type, is still reported: the allow-list decides
            rows.append((rel, "hash-iter", "%s:%s.%s%s" % (enclosing_fn(spans, mm.start()), mm.group(2), mm.group(3), " +sorted" if sorted_after(m, spans, mm.start()) else "")))
        # set operations exist only on (hash / btree) sets: their result is iterated in the receiver's order,
        # whatever the receiver is called (pattern-bound names carry no type annotation)
        for mm in re.finditer(r"(?<![A-Za-z0-9_])((?:[a-z_][a-z0-9_]*\s*\.\s*)*)([a-z_][a-z0-9_]*)\s*\.\s*(difference|symmetric_difference|intersection|union)\s*\(", m):
            rows.append((rel, "hash-iter", "%s:%s.%s%s" % (enclosing_fn(spans, mm.start()), mm.group(2), mm.group(3), " +sorted" if sorted_after(m, spans, mm.start()) else "")))
        for mm in re.finditer(r"\bfor\s+[^;{]*?\bin\s+&?\s*(?:mut\s+)?((?:[a-z_][a-z0-9_]*\s*\.\s*)*)(%s)\s*\{" % alt, m):
            rows.append((rel, "hash-iter", "%s:%s.for%s" % (enclosing_fn(spans, mm.start()), mm.group(2), " +sorted" if sorted_after(m, spans, mm.start()) else "")))
    # every call site that hands a closure to such a function: what the closure does runs under the lock
    # (item = <enclosing fn>:<callee>(closure)[:<op>...] x<number of such call sites in that fn>)
    for callee in sorted(closure_under_lock):
        for rel in sorted(masked):
            m = masked[rel]
            spans = fn_spans(m)
            per = {}
            for mm in re.finditer(r"(?<![A-Za-z0-9_])%s\s*\(\s*(?:move\s*)?\|[^|]*\|" % re.escape(callee), m):
                o = m.index("(", mm.start())
                try:
                    c = match_paren(m, o)
                except ExtractError:
                    raise ExtractError("unbalanced call of %s in %s" % (callee, rel))
                text = m[mm.end():c]
                ops = [re.sub(r"\s+", "", x).strip(".(") for x in UNDER_LOCK_OPS.findall(text)]
                ops += ["format!"] * len(re.findall(r"\bformat!\s*\(", text))      # runs the arguments' Display / Debug impls under the lock
                ops += ["log::"] * len(re.findall(r"\blog::(?:debug|info|warn|error|trace)!", text))   # re-entrant logging would deadlock
                key = (enclosing_fn(spans, mm.start()), "".join(":" + x for x in ops))
                per[key] = per.get(key, 0) + 1
            for (fn_, ops_), k in per.items():
                rows.append((rel, "under-lock", "%s:%s(closure)%s x%d" % (fn_, callee, ops_, k)))
    rows = sorted(set(rows))
    return {"rows": rows, "files": len(masked), "hash_fields": sorted(fields)}


def codes(s):
    return "[" + ";".join(str(ord(c)) for c in s) + "]"


def generate():
    try:
        info = extract()
    except ExtractError as ex:
        gen_write("GenState", "(* EXTRACTION FAILED: %s *)\nDefinition gen_state_extraction_failed := tt.\n" % str(ex).replace("*)", "* )"))
        return {"error": str(ex)}
    v = "(* generated from /repo on every run by vplib/translate/gen_sites_state.py -- do not edit *)\n"
    v += "From Coq Require Import List NArith.\nImport ListNotations.\nLocal Open Scope N_scope.\n\n"
    v += "(* (file, kind, item) *)\nDefinition rows : list (list N * list N * list N) :=\n  [ "
    v += ";\n    ".join("(%s, %s, %s) (* %s | %s | %s *)" % (codes(a), codes(b), codes(c), a, b, c.replace("*)", "* )")) for a, b, c in info["rows"])
    v += " ].\n\nDefinition files_scanned : nat := %d.\n" % info["files"]
    gen_write("GenState", v)
    return info

"""GenEntry.v: the call chains of lib.rs that C15's composition lemma is about (Tie A).

`compile` must be  parse -> resolve_and_lower(.., &[], None) [NameResolver] -> sql::compile(.., options) [SQL],
followed by `composed(&sources)`; the staged entry points `prql_to_pl`, `pl_to_rq`, `rq_to_sql` must wrap the
same three calls (bound variables renamed to `_`).  The stage expressions are extracted as text; the Coq side
states that they are pairwise equal (`chains_ok`).  Fails closed on any other shape."""
import re

from ..common import gen_write
from ..rustscan import ExtractError, read, mask, block_after

LIB = "prqlc/prqlc/src/lib.rs"


def norm(s):
    return re.sub(r"\s+", " ", s).strip()


def fn_body(src, m, name):
    s, e = block_after(src, m, r"\bpub fn %s\b[^{]*\{" % re.escape(name))
    # block_after's pattern ends at the opening brace of the body
    return norm(src[s:e])


def rename(expr, var):
    return re.sub(r"\b%s\b" % re.escape(var), "_", expr)


def extract():
    src = read(LIB)
    m = mask(src)
    info = {}
    c = fn_body(src, m, "compile")
    mm = re.match(
        r"^let sources = SourceTree::from\(prql\); Ok\(&sources\) \.and_then\((?P<p>[A-Za-z_:]+)\) "
        r"\.and_then\(\|(?P<v1>\w+)\| \{ (?P<r>.*?) \}\) "
        r"\.and_then\(\|(?P<v2>\w+)\| \{ (?P<g>.*?) \}\) "
        r"\.map_err\(\|e\| \{ let error_messages = ErrorMessages::from\(e\)\.composed\(&sources\); (?P<tail>.*)\}\)$", c)
    if not mm:
        raise ExtractError("lib.rs: compile() no longer has the modelled and_then chain")
    info["compile_parse"] = mm.group("p") + "(&_)"
    info["compile_resolve"] = rename(mm.group("r"), mm.group("v1"))
    info["compile_gen"] = rename(mm.group("g"), mm.group("v2"))
    tail = mm.group("tail")
    if not re.match(r"^match options\.display \{ DisplayOptions::AnsiColor => error_messages, DisplayOptions::Plain => ErrorMessages \{ inner: error_messages \.inner \.into_iter\(\) \.map\(\|e\| ErrorMessage \{ display: e\.display\.map\(\|s\| strip_str\(&s\)\.to_string\(\)\), \.\.e \}\) \.collect\(\), \}, \}$", tail.strip()):
        raise ExtractError("lib.rs: compile()'s error post-processing touches more than `display`")
    p1 = fn_body(src, m, "prql_to_pl")
    if p1 != "let source_tree = SourceTree::from(prql); prql_to_pl_tree(&source_tree)":
        raise ExtractError("lib.rs: prql_to_pl no longer has the modelled shape")
    p2 = fn_body(src, m, "prql_to_pl_tree")
    mm = re.match(r"^(?P<p>[A-Za-z_:]+)\((?P<v>\w+)\)\.map_err\(\|e\| ErrorMessages::from\(e\)\.composed\((?P=v)\)\)$", p2)
    if not mm:
        raise ExtractError("lib.rs: prql_to_pl_tree no longer has the modelled shape")
    info["staged_parse"] = mm.group("p") + "(&_)"
    sig = re.search(r"pub fn pl_to_rq\((\w+): pr::ModuleDef\)", norm(src))
    if not sig:
        raise ExtractError("lib.rs: pl_to_rq signature changed")
    info["staged_resolve"] = rename(fn_body(src, m, "pl_to_rq"), sig.group(1))
    sig = re.search(r"pub fn rq_to_sql\((\w+): ir::rq::RelationalQuery, options: &Options\)", norm(src))
    if not sig:
        raise ExtractError("lib.rs: rq_to_sql signature changed")
    info["staged_gen"] = rename(fn_body(src, m, "rq_to_sql"), sig.group(1))
    # SourceTree::from(prql) is the single-file tree with source id 1 in both paths
    if not re.search(r"impl<S: ToString> From<S> for SourceTree \{ fn from\(source: S\) -> Self \{ SourceTree::single\(PathBuf::from\(\"\"\), source\.to_string\(\)\) \} \}", norm(src)):
        raise ExtractError("lib.rs: SourceTree::from no longer builds the single-file tree")
    return {k: re.sub(r"\s+", "", v) for k, v in info.items()}


def codes(s):
    return "[" + ";".join(str(ord(c)) for c in s) + "]"


def generate():
    try:
        info = extract()
    except ExtractError as ex:
        gen_write("GenEntry", "(* EXTRACTION FAILED: %s *)\nDefinition gen_entry_extraction_failed := tt.\n" % str(ex).replace("*)", "* )"))
        return {"error": str(ex)}
    v = "(* generated from /repo on every run by vplib/translate/gen_entry.py -- do not edit *)\n"
    v += "From Coq Require Import List NArith.\nImport ListNotations.\nLocal Open Scope N_scope.\n\n"
    for k in ("compile_parse", "compile_resolve", "compile_gen", "staged_parse", "staged_resolve", "staged_gen"):
        v += "(* %s *)\nDefinition %s : list N := %s.\n" % (info[k].replace("*)", "* )"), k, codes(info[k]))
    gen_write("GenEntry", v)
    return info

"""GenLexTables.v: everything in prqlc-parser/src/lexer/mod.rs that is *data* (Tie A for C17):
keyword list, ordered multi-character operator list (with the end_expr flag), control characters,
end_expr character set, interval units, simple escape table, based-number prefixes / bases / digit caps,
date-time digit counts, the order of the alternatives of `token()` and `literal()`, plus shape
assertions on the hand-modelled combinator code (lex_token, lexer, insert_start, newline, whitespace,
end_expr, comment, ident_part, param, raw_string, date_token ...).  Fails closed: any alternative,
arm or shape the translator does not recognise raises ExtractError and a stub is written, so every
theorem that mentions the tables stops compiling."""
import re

from ..common import gen_write
from ..rustscan import ExtractError, read, mask, block_after, split_top, match_arms, match_brace

REL = "prqlc/prqlc-parser/src/lexer/mod.rs"


def codes(s):
    return "[" + ";".join(str(ord(c)) for c in s) + "]"


def norm(t):
    """text of a piece of (comment-stripped) code with all whitespace outside string/char literals removed"""
    out, i, n = [], 0, len(t)
    while i < n:
        c = t[i]
        if c == '"':
            j = i + 1
            while j < n and t[j] != '"':
                j += 2 if t[j] == "\\" else 1
            out.append(t[i:j + 1]); i = j + 1
        elif c == "'":
            mm = re.match(r"'(\\.[^']*|[^'\\])'", t[i:i + 12])
            if mm:
                out.append(mm.group(0)); i += len(mm.group(0))
            else:
                out.append(c); i += 1
        elif c.isspace():
            i += 1
        else:
            out.append(c); i += 1
    return "".join(out)


_ESC = {"n": "\n", "r": "\r", "t": "\t", "\\": "\\", "0": "\0", "'": "'", '"': '"'}


def rust_unescape(body):
    """contents of a Rust string / char literal (without the quotes) -> python str"""
    out = []
    i = 0
    while i < len(body):
        c = body[i]
        if c != "\\":
            out.append(c); i += 1; continue
        if i + 1 >= len(body):
            raise ExtractError("dangling backslash in literal %r" % body)
        e = body[i + 1]
        if e in _ESC:
            out.append(_ESC[e]); i += 2
        elif e == "x":
            out.append(chr(int(body[i + 2:i + 4], 16))); i += 4
        elif e == "u":
            m = re.match(r"\{([0-9a-fA-F_]+)\}", body[i + 2:])
            if not m:
                raise ExtractError("bad \\u escape in %r" % body)
            out.append(chr(int(m.group(1).replace("_", ""), 16))); i += 2 + len(m.group(0))
        else:
            raise ExtractError("unknown escape \\%s in literal %r" % (e, body))
    return "".join(out)


class Src:
    def __init__(self, rel=None):
        self.src = read(rel or REL)
        self.m = mask(self.src)
        # comment-free text with literals intact: take src where mask kept the char or the char is inside a literal
        # (mask blanks comments AND literal contents; we need comments gone but literals kept)
        self.code = self._strip_comments()

    def _strip_comments(self):
        src, out, i, n = self.src, [], 0, len(self.src)
        while i < n:
            c = src[i]
            if src.startswith("//", i):
                j = src.find("\n", i)
                j = n if j < 0 else j
                out.append(" " * (j - i)); i = j
            elif src.startswith("/*", i):
                depth, j = 1, i + 2
                while j < n and depth:
                    if src.startswith("/*", j):
                        depth += 1; j += 2
                    elif src.startswith("*/", j):
                        depth -= 1; j += 2
                    else:
                        j += 1
                out.append("".join(ch if ch == "\n" else " " for ch in src[i:j])); i = j
            elif c == '"':
                j = i + 1
                while j < n and src[j] != '"':
                    j += 2 if src[j] == "\\" else 1
                out.append(src[i:j + 1]); i = j + 1
            elif c == "'":
                mm = re.match(r"'(\\.[^']*|[^'\\])'", src[i:i + 12])
                if mm:
                    out.append(mm.group(0)); i += len(mm.group(0))
                else:
                    out.append(c); i += 1
            else:
                out.append(c); i += 1
        r = "".join(out)
        if len(r) != len(src):
            raise ExtractError("internal: comment stripping changed offsets")
        return r

    def fn(self, name):
        """(start, end) of the body of `fn name`"""
        pat = r"\bfn\s+%s\s*(?:<[^>]*>)?\s*\(" % re.escape(name)
        ms = list(re.finditer(pat, self.m))
        if len(ms) != 1:
            raise ExtractError("fn %s: found %d definitions" % (name, len(ms)))
        # parameter list, then the body brace
        p_open = self.m.find("(", ms[0].end() - 1)
        p_close = match_brace(self.m, p_open)
        b = self.m.find("{", p_close)
        if b < 0:
            raise ExtractError("fn %s: no body" % name)
        e = match_brace(self.m, b)
        return b + 1, e

    def body(self, name):
        s, e = self.fn(name)
        return norm(self.code[s:e])

    def choice_args(self, s, e, nth=0):
        """top-level arguments of the nth `choice((` inside code[s:e] -> list of raw texts"""
        idxs = [mm.start() for mm in re.finditer(r"\bchoice\s*\(\s*\(", self.m[s:e])]
        if len(idxs) <= nth:
            raise ExtractError("choice(( #%d not found" % nth)
        o = s + idxs[nth]
        p1 = self.m.find("(", o)
        p2 = self.m.find("(", p1 + 1)
        c2 = match_brace(self.m, p2)
        parts = split_top(self.code, self.m, p2 + 1, c2)
        return [t.strip() for t, _ in parts if t.strip()], (o, match_brace(self.m, p1))


def str_lit(t):
    m = re.fullmatch(r'"((?:[^"\\]|\\.)*)"', t)
    if not m:
        raise ExtractError("expected a string literal, got %r" % t[:40])
    return rust_unescape(m.group(1))


def chr_lit(t):
    m = re.fullmatch(r"'((?:[^'\\]|\\.)+)'", t)
    if not m:
        raise ExtractError("expected a char literal, got %r" % t[:40])
    v = rust_unescape(m.group(1))
    if len(v) != 1:
        raise ExtractError("char literal %r is not one char" % t)
    return v


def expect(cond, what):
    if not cond:
        raise ExtractError("shape changed: " + what)


TOKEN_ALTS = [  # normalised alternative text (without .boxed()) -> id ; id 7 carries the control characters
    (r"line_wrap\(\)", 0), (r"newline\(\)\.to\(TokenKind::NewLine\)", 1), (r"multi_char_operators\(\)", 2),
    (r"interpolation\(\)", 3), (r"param\(\)", 4), (r"date_token\(\)", 5), (r"just\('@'\)\.to\(TokenKind::Annotate\)", 6),
    (r'one_of\("(?P<controls>(?:[^"\\]|\\.)*)"\)\.map\(TokenKind::Control\)', 7),
    (r"literal\(\)\.map\(TokenKind::Literal\)", 8), (r"keyword\(\)", 9), (r"ident_part\(\)\.map\(TokenKind::Ident\)", 10),
    (r"comment\(\)", 11)]
LITERAL_ALTS = ["binary_number()", "hexadecimal_number()", "octal_number()", "string()", "raw_string()",
                "value_and_unit()", "number()", "boolean()", "null()"]
DIGIT_CLASSES = {"|c|*c=='0'||*c=='1'": 0, "|c|c.is_ascii_hexdigit()": 1, "|c|('0'..='7').contains(c)": 2}
DIGIT_BASE = {0: 2, 1: 16, 2: 8}


def extract():
    S = Src()
    info = {}

    # ---- token(): order of alternatives, control characters
    s, e = S.fn("token")
    args, _ = S.choice_args(s, e)
    order = []
    for a in args:
        t = norm(a)
        t = re.sub(r"\.boxed\(\)$", "", t)
        for pat, i in TOKEN_ALTS:
            mm = re.fullmatch(pat, t)
            if mm:
                order.append(i)
                if i == 7:
                    info["controls"] = rust_unescape(mm.group("controls"))
                break
        else:
            raise ExtractError("token(): unknown alternative %r" % a[:80])
    expect(len(set(order)) == len(order), "token(): duplicated alternative")
    expect("controls" in info, "token(): no one_of(...).map(TokenKind::Control) alternative")
    info["token_order"] = order
    expect(re.fullmatch(r"choice\(\(.*\)\)", S.body("token"), re.S) is not None, "token() is no longer a single choice((...))")

    # ---- multi_char_operators
    s, e = S.fn("multi_char_operators")
    args, _ = S.choice_args(s, e)
    ops = []
    for a in args:
        mm = re.fullmatch(r'just\("((?:[^"\\]|\\.)*)"\)(\.then_ignore\(end_expr\(\)\))?\.to\(TokenKind::(\w+)\)', norm(a))
        if not mm:
            raise ExtractError("multi_char_operators(): unknown alternative %r" % a[:80])
        ops.append((rust_unescape(mm.group(1)), mm.group(3), mm.group(2) is not None))
    info["ops"] = ops
    expect(re.fullmatch(r"choice\(\(.*\)\)", S.body("multi_char_operators"), re.S) is not None, "multi_char_operators() shape")

    # ---- keyword
    s, e = S.fn("keyword")
    args, (co, cc) = S.choice_args(s, e)
    kws = []
    for a in args:
        mm = re.fullmatch(r'just\("((?:[^"\\]|\\.)*)"\)', norm(a))
        if not mm:
            raise ExtractError("keyword(): unknown alternative %r" % a[:80])
        kws.append(rust_unescape(mm.group(1)))
    info["keywords"] = kws
    tail = norm(S.code[cc + 1:e])
    expect(tail == ".to_slice().then_ignore(end_expr()).map(|s:&str|TokenKind::Keyword(s.to_string()))", "keyword(): tail after choice is %r" % tail)

    # ---- end_expr
    b = S.body("end_expr")
    mm = re.fullmatch(r'choice\(\(end\(\),one_of\("((?:[^"\\]|\\.)*)"\)\.to\(\(\)\),newline\(\),just\("\.\."\)\.to\(\(\)\),\)\)\.rewind\(\)', b)
    expect(mm is not None, "end_expr(): %r" % b)
    info["end_chars"] = rust_unescape(mm.group(1))

    # ---- whitespace / newline / lexer / lex_token / insert_start
    expect(S.body("whitespace") == "text::inline_whitespace().at_least(1)", "whitespace()")
    expect(S.body("newline") == r"just('\n').or(just('\r').then_ignore(just('\n').or_not())).ignored()", "newline()")
    expect(S.body("lexer") == "lex_token().repeated().collect().then_ignore(whitespace().or_not())", "lexer()")
    b = S.body("lex_token")
    want = ("letrange=whitespace().or_not().then(just(\"..\")).then(whitespace().or_not()).map_with(|((left,_),right),extra|{"
            "letspan:chumsky::span::SimpleSpan=extra.span();Token{kind:TokenKind::Range{bind_left:left.is_none(),bind_right:right.is_none(),},"
            "span:span.start()..span.end(),}});"
            "letother_tokens=whitespace().or_not().ignore_then(token().map_with(|kind,extra|{"
            "letspan:chumsky::span::SimpleSpan=extra.span();Token{kind,span:span.start()..span.end(),}}));"
            "choice((range,other_tokens))")
    expect(b == want, "lex_token(): range / other_tokens / span arithmetic")
    expect(S.body("insert_start") == "std::iter::once(Token{kind:TokenKind::Start,span:0..0,}).chain(tokens).collect()", "insert_start()")
    # lex_source / lex_source_recovery: the token loop, then the post-pass that rejects the whole source when a Float token is not
    # finite (Model/Lexer.v [lex] / [tok_finite] / [float_nonfinite]), then insert_start -- pinned exactly
    expect(S.body("lex_source") == "letresult=lexer().parse(source).into_result();matchresult{Ok(tokens)=>{leterrors=non_finite_literals(source,&tokens,0);"
           "if!errors.is_empty(){returnErr(errors);}Ok(Tokens(insert_start(tokens.to_vec())))}"
           "Err(errors)=>{leterrors=errors.into_iter().map(|error|convert_lexer_error(source,&error,0)).collect();Err(errors)}}", "lex_source()")
    expect(S.body("lex_source_recovery") == "letresult=lexer().parse(source).into_result();matchresult{Ok(tokens)=>{leterrors=non_finite_literals(source,&tokens,source_id);"
           "if!errors.is_empty(){return(None,errors);}(Some(insert_start(tokens.to_vec())),vec![])}"
           "Err(errors)=>{leterrors=errors.into_iter().map(|error|convert_lexer_error(source,&error,source_id)).collect();(None,errors)}}", "lex_source_recovery()")
    b = S.body("non_finite_literals")
    expect(b.startswith("tokens.iter().filter(|t|matches!(&t.kind,TokenKind::Literal(Literal::Float(f))if!f.is_finite())).map(|t|{") and b.endswith(".collect()")
           and "Error::new_simple(" in b, "non_finite_literals()")

    # ---- line_wrap / comment / param / ident_part / interpolation / raw_string
    expect(S.body("line_wrap") == "newline().ignore_then(whitespace().repeated().ignore_then(comment()).then_ignore(newline()).repeated().collect(),)"
           ".then_ignore(whitespace().repeated()).then_ignore(just('\\\\')).map(TokenKind::LineWrap)", "line_wrap()")
    expect(S.body("comment") == "letcomment_text=none_of(\"\\n\\r\").repeated().collect::<String>();just('#').ignore_then("
           "just('!').ignore_then(comment_text.map(TokenKind::DocComment)).or(comment_text.map(TokenKind::Comment)),)", "comment()")
    expect(S.body("param") == "just('$').ignore_then(any().filter(|c:&char|c.is_alphanumeric()||*c=='_'||*c=='.').repeated().to_slice()"
           ".map(|s:&str|s.to_string()),).map(TokenKind::Param)", "param()")
    expect(S.body("ident_part") == "letplain=any().filter(|c:&char|c.is_alphabetic()||*c=='_').then(any().filter(|c:&char|c.is_alphanumeric()||*c=='_')"
           ".repeated(),).to_slice().map(|s:&str|s.to_string());letbacktick=none_of('`').repeated().collect::<String>()"
           ".delimited_by(just('`'),just('`'));choice((plain,backtick))", "ident_part()")
    b = S.body("interpolation")
    mm = re.fullmatch(r'one_of\("((?:[^"\\]|\\.)*)"\)\.then\(quoted_string\(true\)\)\.map\(\|\(c,s\)\|TokenKind::Interpolation\(c,s\)\)', b)
    expect(mm is not None, "interpolation()")
    info["interp_prefix"] = rust_unescape(mm.group(1))
    expect(S.body("raw_string") == "just(\"r\").then(choice((just('\\''),just('\"')))).then(any().filter(move|c:&char|*c!='\\''&&*c!='\"'&&*c!='\\n'&&*c!='\\r')"
           ".repeated().to_slice(),).then(choice((just('\\''),just('\"')))).map(|(((_,_open_quote),s),_close_quote):(((&str,char),&str),char)|{"
           "Literal::RawString(s.to_string())},)", "raw_string()")
    expect(S.body("string") == "quoted_string(true).map(Literal::String)", "string()")
    expect(S.body("quoted_string") == "choice((multi_quoted_string(&'\"',escaped),multi_quoted_string(&'\\'',escaped),)).map(|chars|chars.into_iter().collect())",
           "quoted_string()")

    # ---- literal(): order
    s, e = S.fn("literal")
    args, _ = S.choice_args(s, e)
    lo = []
    for a in args:
        t = norm(a)
        if t not in LITERAL_ALTS:
            raise ExtractError("literal(): unknown alternative %r" % a[:80])
        lo.append(LITERAL_ALTS.index(t))
    expect(len(set(lo)) == len(lo), "literal(): duplicated alternative")
    info["literal_order"] = lo
    expect(re.fullmatch(r"choice\(\(.*\)\)", S.body("literal"), re.S) is not None, "literal() shape")

    # ---- based numbers
    b = S.body("parse_number_with_base")
    expect(b == "just(prefix).then_ignore(just(\"_\").or_not()).ignore_then(any().filter(valid_digit).repeated().at_least(1).at_most(max_digits)"
           ".to_slice().map(move|digits:&str|{i64::from_str_radix(digits,base).map(Literal::Integer).unwrap_or(Literal::Integer(0))}),)",
           "parse_number_with_base()")
    based = []
    for fn in ("binary_number", "hexadecimal_number", "octal_number"):
        b = S.body(fn)
        mm = re.fullmatch(r'parse_number_with_base\("((?:[^"\\]|\\.)*)",(\d+),(\d+),(.*)\)', b)
        expect(mm is not None, fn + "()")
        cls = DIGIT_CLASSES.get(mm.group(4))
        expect(cls is not None, fn + "(): digit predicate %r" % mm.group(4))
        expect(DIGIT_BASE[cls] == int(mm.group(2)), fn + "(): base %s does not match its digit predicate" % mm.group(2))
        based.append((rust_unescape(mm.group(1)), int(mm.group(2)), int(mm.group(3)), cls))
    info["based"] = based  # in the order binary, hexadecimal, octal (ids 0,1,2 of literal_order)

    # ---- number / parse_integer (shape only)
    expect(S.body("parse_integer") == "choice((any().filter(|c:&char|c.is_ascii_digit()&&*c!='0').then(any().filter(|c:&char|c.is_ascii_digit()||*c=='_')"
           ".repeated(),).to_slice(),just('0').to_slice(),))", "parse_integer()")
    b = S.body("number")
    for piece in ["letfraction_digits=any().filter(|c:&char|c.is_ascii_digit()).then(any().filter(|c:&char|c.is_ascii_digit()||*c=='_').repeated(),).to_slice();",
                  "letfrac=just('.').then(fraction_digits)",
                  "letexp_digits=one_of(\"+-\").or_not().then(any().filter(|c:&char|c.is_ascii_digit()).repeated().at_least(1),).to_slice();",
                  "letexp=one_of(\"eE\").then(exp_digits)",
                  "integer.then(optional_component(frac,|f|f)).then(optional_component(exp,|e|e))",
                  ".filter(|&c|c!='_')",
                  "ifletOk(i)=num_str.parse::<i64>(){Literal::Integer(i)}elseifletOk(f)=num_str.parse::<f64>(){Literal::Float(f)}else{Literal::Integer(0)}"]:
        expect(piece in b, "number(): " + piece[:50])

    # ---- boolean / null / value_and_unit
    b = S.body("boolean")
    mm = re.fullmatch(r'choice\(\(just\("(\w+)"\)\.to\(true\),just\("(\w+)"\)\.to\(false\)\)\)\.then_ignore\(end_expr\(\)\)\.map\(Literal::Boolean\)', b)
    expect(mm is not None, "boolean()")
    info["true_word"], info["false_word"] = mm.group(1), mm.group(2)
    b = S.body("null")
    mm = re.fullmatch(r'just\("(\w+)"\)\.to\(Literal::Null\)\.then_ignore\(end_expr\(\)\)', b)
    expect(mm is not None, "null()")
    info["null_word"] = mm.group(1)
    s, e = S.fn("value_and_unit")
    args, (co, cc) = S.choice_args(s, e)
    units = []
    for a in args:
        mm = re.fullmatch(r'just\("((?:[^"\\]|\\.)*)"\)', norm(a))
        if not mm:
            raise ExtractError("value_and_unit(): unknown unit alternative %r" % a[:80])
        units.append(rust_unescape(mm.group(1)))
    info["units"] = units
    b = S.body("value_and_unit")
    expect(b.endswith("parse_integer().then(unit).then_ignore(end_expr()).try_map(|(number_str,unit_str):(&str,&str),span|{"
                      "letn=number_str.replace('_',\"\").parse::<i64>().map_err(|_|Simple::new(None,span))?;"
                      "Ok(Literal::ValueAndUnit(ValueAndUnit{n,unit:unit_str.to_string(),}))},)"), "value_and_unit() tail (try_map: a count beyond i64 is not an interval literal)")

    # ---- date / time
    expect(S.body("digits") == "chumsky::text::digits(10).exactly(count).to_slice()", "digits()")
    b = S.body("date_inner")
    mm = re.fullmatch(r"text::digits\(10\)\.exactly\((\d+)\)\.then\(just\('-'\)\)\.then\(text::digits\(10\)\.exactly\((\d+)\)\)\.then\(just\('-'\)\)"
                      r"\.then\(text::digits\(10\)\.exactly\((\d+)\)\)\.to_slice\(\)\.map\(\|s:&str\|s\.to_owned\(\)\)", b)
    expect(mm is not None, "date_inner()")
    info["date_digits"] = [int(mm.group(i)) for i in (1, 2, 3)]
    b = S.body("time_inner")
    tm = re.search(r"lethours=digits\((\d+)\)\.map\(\|s:&str\|s\.to_string\(\)\);letminutes=time_component\(':',digits\((\d+)\)\);"
                   r"letseconds=time_component\(':',digits\((\d+)\)\);letmilliseconds=time_component\('\.',any\(\)\.filter\(\|c:&char\|c\.is_ascii_digit\(\)\)"
                   r"\.repeated\(\)\.at_least\(1\)\.at_most\((\d+)\)\.to_slice\(\),\);", b)
    expect(tm is not None, "time_inner(): hours/minutes/seconds/milliseconds")
    tz = re.search(r"lettimezone=choice\(\(just\('Z'\)\.map\(\|c\|c\.to_string\(\)\),one_of\(\"-\+\"\)\.then\(digits\((\d+)\)\.then\(just\(':'\)\.or_not\(\)"
                   r"\.then\(digits\((\d+)\)\)\)\.map\(", b)
    expect(tz is not None, "time_inner(): timezone")
    expect("fntime_component<'p>(separator:char,component_parser:implParser<'p,ParserInput<'p>,&'pstr,ParserError<'p>>,)->implParser<'p,ParserInput<'p>,String,ParserError<'p>>"
           "{just(separator).then(component_parser).map(move|(sep,comp):(char,&str)|format!(\"{}{}\",sep,comp)).or_not().map(|opt|opt.unwrap_or_default())}" in b,
           "time_inner(): time_component")
    expect("format!(\"{}{}\",hrs,mins)" in b and ".map(|(sign,offset)|format!(\"{}{}\",sign,offset)),)).or_not().map(|opt|opt.unwrap_or_default());" in b
           and b.endswith("hours.then(minutes).then(seconds).then(milliseconds).then(timezone).map(|((((hours,mins),secs),ms),tz)|format!(\"{}{}{}{}{}\",hours,mins,secs,ms,tz))"),
           "time_inner(): assembly")
    info["time_digits"] = [int(tm.group(1)), int(tm.group(2)), int(tm.group(3))]
    info["ms_max"] = int(tm.group(4))
    info["tz_digits"] = [int(tz.group(1)), int(tz.group(2))]
    expect(S.body("date_token") == "just('@').then(any().filter(|c:&char|c.is_ascii_digit()).rewind()).ignore_then(choice(("
           "date_inner().then(just('T')).then(time_inner()).then_ignore(end_expr()).map(|((date,t),time)|Literal::Timestamp(format!(\"{}{}{}\",date,t,time))),"
           "date_inner().then_ignore(end_expr()).map(Literal::Date),time_inner().then_ignore(end_expr()).map(Literal::Time),)),).map(TokenKind::Literal)",
           "date_token()")

    # ---- escapes
    s, e = S.fn("parse_escape_sequence")
    mi = re.search(r"match\s+next_ch\s*\{", S.m[s:e])
    expect(mi is not None, "parse_escape_sequence(): match next_ch")
    ob = s + mi.end() - 1
    cb = match_brace(S.m, ob)
    arms = match_arms(S.code, S.m, ob + 1, cb)
    simple, rest = [], []
    for pat, body in arms:
        p, bd = norm(pat), norm(body)
        if re.fullmatch(r"'(?:[^'\\]|\\.)+'", p) and re.fullmatch(r"'(?:[^'\\]|\\.)+'", bd) and not rest:
            simple.append((chr_lit(p), chr_lit(bd)))
        else:
            rest.append((p, bd))
    expect(len(rest) == 4, "parse_escape_sequence(): expected 4 non-table arms after the simple ones, got %d" % len(rest))
    mu = re.fullmatch(r"\{input\.next\(\);letmuthex=String::new\(\);whileletSome\(ch\)=input\.peek\(\)\{ifch=='\}'\{input\.next\(\);break;\}"
                      r"ifch\.is_ascii_hexdigit\(\)&&hex\.len\(\)<(\d+)\{hex\.push\(ch\);input\.next\(\);\}else\{break;\}\}"
                      r"char::from_u32\(u32::from_str_radix\(&hex,16\)\.unwrap_or\(0\)\)\.unwrap_or\('\\u\{FFFD\}'\)\}", rest[0][1])
    expect(rest[0][0] == "'u'ifinput.peek()==Some('{')" and mu is not None, "parse_escape_sequence(): \\u{...} arm")
    mx = re.fullmatch(r"\{letmuthex=String::new\(\);for_in0\.\.(\d+)\{ifletSome\(ch\)=input\.peek\(\)\{ifch\.is_ascii_hexdigit\(\)\{hex\.push\(ch\);input\.next\(\);\}\}\}"
                      r"ifhex\.len\(\)==(\d+)\{char::from_u32\(u32::from_str_radix\(&hex,16\)\.unwrap_or\(0\)\)\.unwrap_or\('\\u\{FFFD\}'\)\}else\{next_ch\}\}", rest[1][1])
    expect(rest[1][0] == "'x'" and mx is not None and mx.group(1) == mx.group(2), "parse_escape_sequence(): \\x arm")
    expect(rest[2] == ("cifc==quote_char", "quote_char") and rest[3] == ("other", "other"), "parse_escape_sequence(): quote / other arms")
    expect(all(a not in "ux" for a, _ in simple), "parse_escape_sequence(): a table arm shadows \\u or \\x")
    expect(len({a for a, _ in simple}) == len(simple), "parse_escape_sequence(): duplicate escape arm")
    full = norm(S.code[s:e])
    expect(full.startswith("matchinput.peek(){Some(next_ch)=>{input.next();matchnext_ch{") and full.endswith("}}None=>{'\\\\'}}"),
           "parse_escape_sequence(): outer match")
    info["escapes"] = simple
    info["u_hex_max"] = int(mu.group(1))
    info["x_hex_len"] = int(mx.group(1))

    # ---- multi_quoted_string: shape digest of the custom parser (hand-modelled)
    b = S.body("multi_quoted_string")
    for piece in ["letmutopen_count=0;whileletSome(ch)=input.peek(){ifch==quote_char{input.next();open_count+=1;}else{break;}}",
                  "ifopen_count==0{letspan=input.span_since(start_cursor.cursor());returnErr(Simple::new(input.peek_maybe(),span));}",
                  "ifopen_count%2==0{returnOk(vec![]);}",
                  "letmutclose_count=0;whileclose_count<open_count{matchinput.peek(){Some(ch)ifch==quote_char=>{input.next();close_count+=1;}_=>break,}}",
                  "ifclose_count==open_count{returnOk(result);}input.rewind(checkpoint);",
                  "matchinput.next(){Some(ch)=>{ifescaping&&ch=='\\\\'{letescaped=parse_escape_sequence(input,quote_char);result.push(escaped);}else{result.push(ch);}}",
                  "None=>{letcurrent_cursor=input.save();letspan=input.span_since(current_cursor.cursor());returnErr(Simple::new(None,span));}"]:
        expect(piece in b, "multi_quoted_string(): " + piece[:60])
    # ---- the inner lexer of s-/f-strings (parser/interpolation.rs; hand-modelled in Model/LexerInterp.v): shape only
    I = Src("prqlc/prqlc-parser/src/parser/interpolation.rs")
    expect(I.body("interpolated_parser") ==
           "letexpr=interpolate_ident_part().separated_by(just('.')).at_least(1).collect().map(Ident::from_path).map(ExprKind::Ident)"
           ".map_with(|kind,extra|{letsimple_span:SimpleSpan=extra.span();letspan=Span{start:simple_span.start,end:simple_span.end,source_id:0,};"
           "ExprKind::into_expr(kind,span)}).map(Box::new).labelled(\"interpolated string variable\")"
           ".then(just(':').ignore_then(none_of('}').repeated().collect::<String>()).or_not(),).delimited_by(just('{'),just('}'))"
           ".map(|(expr,format)|InterpolateItem::Expr{expr,format});"
           "letstring=just(\"{{\").to('{').or(just(\"}}\").to('}')).or(none_of(\"{}\")).repeated().at_least(1).collect::<String>().map(InterpolateItem::String);"
           "expr.or(string).repeated().collect().then_ignore(end())", "interpolation.rs interpolated_parser()")
    expect(I.body("interpolate_ident_part") ==
           "letplain=any().filter(|c:&char|c.is_alphabetic()||*c=='_').then(any().filter(|c:&char|c.is_alphanumeric()||*c=='_').repeated(),)"
           ".to_slice().map(|s:&str|s.to_string()).labelled(\"interpolated string\");"
           "letbackticks=none_of('`').repeated().to_slice().map(|s:&str|s.to_string()).delimited_by(just('`'),just('`'));"
           "plain.or(backticks.labelled(\"interp:backticks\"))", "interpolation.rs interpolate_ident_part()")
    b = I.body("parse")
    expect(b.startswith("letres=interpolated_parser().parse(string.as_str());let(output,errors)=res.into_output_errors();if!errors.is_empty(){returnErr(errors.into_iter().map(|e|{"
                        "letspan=Span{start:span_base.start+e.span().start,end:span_base.start+e.span().end,source_id:span_base.source_id,};"), "interpolation.rs parse(): error path")
    expect("InterpolateItem::Expr{expr,format}=>{letadjusted_expr=Box::new(Expr{span:expr.span.map(|s|Span{start:span_base.start+s.start,end:span_base.start+s.end,source_id:span_base.source_id,}),..(*expr)});"
           "InterpolateItem::Expr{expr:adjusted_expr,format,}}InterpolateItem::String(s)=>InterpolateItem::String(s),}).collect();Ok(adjusted_output)" in b, "interpolation.rs parse(): span rebasing of Expr items")
    E = Src("prqlc/prqlc-parser/src/parser/expr.rs")
    eb = E.body("interpolation")
    expect("lr::Token{kind:TokenKind::Interpolation('s',string),..}=>(ExprKind::SStringasfn(_)->_,string.clone())," in eb and
           "lr::Token{kind:TokenKind::Interpolation('f',string),..}=>(ExprKind::FStringasfn(_)->_,string.clone())," in eb and
           "matchinterpolation::parse(string,span+2){Ok(items)=>finish(items)," in eb, "expr.rs interpolation(): the token's content goes to interpolation::parse with span + 2")
    return info


def _lst(xs):
    return "[" + "; ".join(xs) + "]"


def render(info):
    v = "(* generated from /repo/%s on every run by vplib/translate/gen_lex_tables.py -- do not edit *)\n" % REL
    v += "From Coq Require Import List NArith Bool.\nImport ListNotations.\nLocal Open Scope N_scope.\n\n"
    v += "(* order of the alternatives of token(): 0 line_wrap 1 newline 2 multi_char_operators 3 interpolation 4 param 5 date_token\n"
    v += "   6 '@' 7 controls 8 literal 9 keyword 10 ident_part 11 comment *)\n"
    v += "Definition token_order : list N := %s.\n" % _lst(str(i) for i in info["token_order"])
    v += "(* order of literal(): 0 binary 1 hexadecimal 2 octal 3 string 4 raw_string 5 value_and_unit 6 number 7 boolean 8 null *)\n"
    v += "Definition literal_order : list N := %s.\n\n" % _lst(str(i) for i in info["literal_order"])
    v += "Definition keywords : list (list N) :=\n  [ " + ";\n    ".join("%s (* %s *)" % (codes(k), k) for k in info["keywords"]) + " ].\n\n"
    v += "(* (text, (TokenKind variant, followed by end_expr?)) in source order *)\n"
    v += "Definition multi_ops : list (list N * (list N * bool)) :=\n  [ " + ";\n    ".join(
        "(%s, (%s, %s)) (* %s %s *)" % (codes(t), codes(k), "true" if f else "false", t, k) for t, k, f in info["ops"]) + " ].\n\n"
    v += "Definition controls : list N := %s. (* %r *)\n" % (codes(info["controls"]), info["controls"])
    v += "Definition end_chars : list N := %s. (* %r *)\n" % (codes(info["end_chars"]), info["end_chars"])
    v += "Definition interp_prefix : list N := %s. (* %r *)\n" % (codes(info["interp_prefix"]), info["interp_prefix"])
    v += "Definition units : list (list N) :=\n  [ " + ";\n    ".join("%s (* %s *)" % (codes(k), k) for k in info["units"]) + " ].\n"
    v += "Definition true_word : list N := %s.\nDefinition false_word : list N := %s.\nDefinition null_word : list N := %s.\n\n" % (
        codes(info["true_word"]), codes(info["false_word"]), codes(info["null_word"]))
    v += "(* simple arms of parse_escape_sequence: (character after the backslash, produced character) *)\n"
    v += "Definition escapes : list (N * N) := %s.\n" % _lst("(%d, %d)" % (ord(a), ord(b)) for a, b in info["escapes"])
    v += "Definition u_hex_max : nat := %d.\nDefinition x_hex_len : nat := %d.\n\n" % (info["u_hex_max"], info["x_hex_len"])
    v += "(* binary / hexadecimal / octal: (prefix, (base, (max digits, digit class 0=bin 1=hex 2=oct))) *)\n"
    v += "Definition based : list (list N * (N * (nat * N))) := %s.\n\n" % _lst(
        "(%s, (%d, (%d%%nat, %d)))" % (codes(p), b, m, c) for p, b, m, c in info["based"])
    v += "Definition date_digits : list nat := %s.\n" % _lst("%d%%nat" % d for d in info["date_digits"])
    v += "Definition time_digits : list nat := %s.\n" % _lst("%d%%nat" % d for d in info["time_digits"])
    v += "Definition tz_digits : list nat := %s.\n" % _lst("%d%%nat" % d for d in info["tz_digits"])
    v += "Definition ms_max : nat := %d.\n" % info["ms_max"]
    return v


def generate():
    try:
        info = extract()
    except ExtractError as ex:
        gen_write("GenLexTables", "(* EXTRACTION FAILED: %s *)\nDefinition gen_lex_tables_extraction_failed := tt.\n" % str(ex).replace("*)", "* )").replace("(*", "( *"))
        return {"error": str(ex)}
    gen_write("GenLexTables", render(info))
    return info

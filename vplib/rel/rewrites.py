"""Rewrite engine for C06: refactorings PRQL defines as equivalent.

Works on a structured form (RProg) of the abstract programs of vplib/rel/prog.py: the steps whose PRQL text
is an expression slot (filter / derive / select / sort) are re-parsed into prog.py's expression tuples
(round trip checked against the original text), every other step is kept as raw text.  On top of the
tuples of prog.py three node kinds exist only here:
  ('param', name)                          a function parameter inside a function body
  ('call', path, [(name, e)...], [e...])   `(path name:e e e)`  -- user function call
  ('pipe', e, call)                        `(e | path name:e e)` -- piped last argument
Declarations (let-tables, user functions, modules) are printed in front of the main pipeline.

Rewrite kinds (each `sites_*` returns [(label, new RProg)] for EVERY applicable site of the program):
  let / into      name a pipeline prefix and continue from the name                      (a)
  func-*          replace an expression by a call to a generated function                (b)
  trfunc-*        replace a run of transforms by a call to a generated transform function (b)
  filter-split / filter-merge                                                            (c)
  id-*            insert a transform that is an identity on the frame                    (d)
  module          move a declaration into `module m {..}` and refer to it by path        (e)
`two_ref_pairs` builds base/rewritten pairs with TWO references to one let-table (append, self-join).
Generated names (r_N tables, fn_N / tr_N functions, pa_N parameters, m_N modules, lk_N columns) are
disjoint from every name prog.py can generate, so a parameter never captures a column.
"""
import copy
import re

from . import prog as P

# ------------------------------------------------------------------------------ expressions

_OPS_BY_LEN = sorted(P.OPS.items(), key=lambda kv: -len(kv[1]))


class ParseError(Exception):
    pass


def show_expr(e):
    """prog.prql_expr extended with param / call / pipe (identical text on prog.py's own nodes)"""
    k = e[0]
    if k == "col":
        return (e[1] + "." if e[1] else "") + e[2]
    if k == "lit":
        return "null" if e[1] is None else (str(e[1]) if e[1] >= 0 else "(%d)" % e[1])
    if k == "bin":
        return "(%s %s %s)" % (show_expr(e[2]), P.OPS[e[1]], show_expr(e[3]))
    if k == "neg":
        return "(-(%s))" % show_expr(e[1])
    if k == "not":
        return "(!(%s))" % show_expr(e[1])
    if k == "isnull":
        return "(%s %s null)" % (show_expr(e[1]), "!=" if e[2] else "==")
    if k == "case":
        return "(case [" + ", ".join("%s => %s" % ("true" if c == ("lit", 1) else show_expr(c), show_expr(v)) for c, v in e[1]) + "])"
    if k == "param":
        return e[1]
    if k == "call":
        return "(" + _call_text(e) + ")"
    if k == "pipe":
        return "(%s | %s)" % (show_expr(e[1]), _call_text(e[2]))
    if k == "wcall":        # aggregate / window function applied to an expression: `sum (a + 1)`, `lag 1 a` (only ever the root of an item)
        return " ".join([e[1]] + [show_expr(a) for a in e[2]] + [show_expr(e[3])])
    raise ValueError(k)


def _call_text(c):
    parts = [c[1]] + ["%s:%s" % (n, show_expr(a)) for n, a in c[2]] + [show_expr(a) for a in c[3]]
    return " ".join(parts)


def parse_expr(s):
    e, i = _pe(s, 0, False)
    if s[i:].strip():
        raise ParseError("trailing %r" % s[i:])
    return e


def _ws(s, i):
    while i < len(s) and s[i] == " ":
        i += 1
    return i


def _expect(s, i, tok):
    if not s.startswith(tok, i):
        raise ParseError("expected %r at %d in %r" % (tok, i, s))
    return i + len(tok)


def _pe(s, i, cond):
    i = _ws(s, i)
    if i >= len(s):
        raise ParseError("eof")
    if s.startswith("(-(", i):
        e, j = _pe(s, i + 3, False)
        return ("neg", e), _expect(s, j, "))")
    if s.startswith("(!(", i):
        e, j = _pe(s, i + 3, False)
        return ("not", e), _expect(s, j, "))")
    m = re.compile(r"\(-(\d+)\)").match(s, i)
    if m:
        return ("lit", -int(m.group(1))), m.end()
    if s.startswith("(case [", i):
        j = i + 7
        cs = []
        while True:
            c, j = _pe(s, j, True)
            j = _expect(s, _ws(s, j), "=>")
            v, j = _pe(s, j, False)
            cs.append((c, v))
            j = _ws(s, j)
            if s.startswith(",", j):
                j += 1
                continue
            return ("case", cs), _expect(s, j, "])")
    if s[i] == "(":
        a, j = _pe(s, i + 1, False)
        j = _ws(s, j)
        for name, tok in _OPS_BY_LEN:
            if s.startswith(tok + " ", j):
                b, k = _pe(s, j + len(tok), False)
                return ("bin", name, a, b), _expect(s, _ws(s, k), ")")
        raise ParseError("operator expected at %d in %r" % (j, s))
    m = re.compile(r"\d+").match(s, i)
    if m:
        return ("lit", int(m.group(0))), m.end()
    m = re.compile(r"([A-Za-z_][A-Za-z0-9_]*)(?:\.([A-Za-z_][A-Za-z0-9_]*))?").match(s, i)
    if m:
        if m.group(2) is None and m.group(1) == "null":
            return ("lit", None), m.end()
        if m.group(2) is None and m.group(1) == "true" and cond:
            return ("lit", 1), m.end()
        if m.group(2) is None:
            return ("col", None, m.group(1)), m.end()
        return ("col", m.group(1), m.group(2)), m.end()
    raise ParseError("unexpected %r at %d in %r" % (s[i], i, s))


def split_top(s):
    """split at top-level commas (parentheses / brackets / braces nest)"""
    out, depth, cur = [], 0, []
    for ch in s:
        if ch in "([{":
            depth += 1
        elif ch in ")]}":
            depth -= 1
        if ch == "," and depth == 0:
            out.append("".join(cur).strip())
            cur = []
        else:
            cur.append(ch)
    if "".join(cur).strip():
        out.append("".join(cur).strip())
    return out


def subterms(e, path=()):
    """[(path, node)] of all nodes, pre-order.  The `true` default condition of a case is not a site."""
    out = [(path, e)]
    k = e[0]
    if k == "bin":
        out += subterms(e[2], path + (2,)) + subterms(e[3], path + (3,))
    elif k in ("neg", "not", "isnull"):
        out += subterms(e[1], path + (1,))
    elif k == "case":
        for i, (c, v) in enumerate(e[1]):
            if c != ("lit", 1):
                out += subterms(c, path + (1, i, 0))
            out += subterms(v, path + (1, i, 1))
    elif k == "call":
        for i, (n, a) in enumerate(e[2]):
            out += subterms(a, path + (2, i, 1))
        for i, a in enumerate(e[3]):
            out += subterms(a, path + (3, i))
    elif k == "pipe":
        out += subterms(e[1], path + (1,)) + subterms(e[2], path + (2,))[1:]
    elif k == "wcall":
        for i, a in enumerate(e[2]):
            out += subterms(a, path + (2, i))
        out += subterms(e[3], path + (3,))
    return out


def replace_at(x, path, new):
    """paths index uniformly into tuples and lists (case arms, call arguments)"""
    if not path:
        return new
    i = path[0]
    if isinstance(x, list):
        return x[:i] + [replace_at(x[i], path[1:], new)] + x[i + 1:]
    return x[:i] + (replace_at(x[i], path[1:], new),) + x[i + 1:]


def node_at(x, path):
    for i in path:
        x = x[i]
    return x


def map_expr(e, fn):
    """bottom-up map over all nodes"""
    k = e[0]
    if k == "bin":
        e = (k, e[1], map_expr(e[2], fn), map_expr(e[3], fn))
    elif k in ("neg", "not"):
        e = (k, map_expr(e[1], fn))
    elif k == "isnull":
        e = (k, map_expr(e[1], fn), e[2])
    elif k == "case":
        e = (k, [(map_expr(c, fn), map_expr(v, fn)) for c, v in e[1]])
    elif k == "call":
        e = (k, e[1], [(n, map_expr(a, fn)) for n, a in e[2]], [map_expr(a, fn) for a in e[3]])
    elif k == "pipe":
        e = (k, map_expr(e[1], fn), map_expr(e[2], fn))
    elif k == "wcall":
        e = (k, e[1], [map_expr(a, fn) for a in e[2]], map_expr(e[3], fn))
    return fn(e)


def subst_params(body, binding):
    """beta-reduction as the engine understands it: parameters replaced by their arguments"""
    return map_expr(body, lambda n: binding[n[1]] if n[0] == "param" and n[1] in binding else n)


def is_plain(e):
    """only prog.py's own node kinds (so that prog.coq_expr can print it)"""
    return all(n[0] not in ("param", "call", "pipe", "wcall") for _, n in subterms(e))


def has_qualified(e):
    return any(n[0] == "col" and n[1] is not None for _, n in subterms(e))


# ------------------------------------------------------------------------------ generator with frames

class RGen(P.Gen):
    """prog.Gen that records the frame (visible columns) before and after each step in step.info; filters are
    more often conjunctions (with disjunctive / negated conjuncts), so that split and merge have many sites"""

    def selective_filter(self, cols):
        r = self.r
        if r.random() < 0.3:
            def conj():
                k = r.random()
                if k < 0.4:
                    return ("bin", "Or", self.boolean(cols, 1), self.boolean(cols, 1))
                if k < 0.5:
                    return ("not", self.boolean(cols, 1))
                return P.Gen.selective_filter(self, cols)
            e = conj()
            for _ in range(r.choice([1, 1, 2])):
                e = ("bin", "And", e, conj()) if r.random() < 0.5 else ("bin", "And", conj(), e)
            return e
        return P.Gen.selective_filter(self, cols)


def _wrap(kind):
    base = getattr(P.Gen, "t_" + kind)

    def w(self, st):
        before = list(st["cols"])
        n0 = len(st["steps"])
        step = base(self, st)
        if step is not None:
            step.info["cols_before"] = before
            step.info["cols_after"] = list(st["cols"])
            for extra in st["steps"][n0:]:      # t_distinct pushes a select itself
                extra.info["cols_before"] = before
                extra.info["cols_after"] = list(st["cols"])
                step.info["cols_before"] = list(st["cols"])
        return step
    return w


for _k in ["join", "derive", "select", "filter", "sort", "take", "aggregate", "group_agg", "group_take", "group_win", "win", "distinct", "append"]:
    setattr(RGen, "t_" + _k, _wrap(_k))


# ------------------------------------------------------------------------------ structured programs

class RStep:
    def __init__(self, kind, raw=None, expr=None, items=None, keys=None, coq=None, info=None, before=None, after=None, call=None, ref=None):
        self.kind, self.raw, self.expr, self.items, self.keys, self.coq_text = kind, raw, expr, items, keys, coq
        self.info = info or {}
        self.before, self.after = before, after     # frames: [(qualifier|None, name)] or None (unknown)
        self.wrap = None                            # (text before, text after) the `name = fn expr` items of an aggregate / window step
        self.call = call                            # ('call', path, named, pos) for a transform-function call step
        self.ref = ref                              # table reference (path) for append/join of a let-table

    def structured(self):
        return self.raw is None

    def prql(self):
        if self.raw is not None:
            return self.raw
        if self.wrap is not None:
            return self.wrap[0] + ", ".join("%s = %s" % (n, show_expr(e)) for n, e in self.items) + self.wrap[1]
        if self.kind == "filter":
            return "filter " + show_expr(self.expr)
        if self.kind == "derive":
            return "derive {%s}" % ", ".join("%s = %s" % (n, show_expr(e)) for n, e in self.items)
        if self.kind == "select":
            return "select {%s}" % ", ".join(show_expr(e) if n is None else "%s = %s" % (n, show_expr(e)) for n, e in self.items)
        if self.kind == "sort":
            return "sort {%s}" % ", ".join(("-" if d else "") + show_expr(e) for d, e in self.keys)
        if self.kind == "call":
            return _call_text(self.call)
        if self.kind == "append_ref":
            return "append %s" % self.ref
        if self.kind == "join_ref":
            return "join %s = %s (%s)" % (self.info["alias"], self.ref, show_expr(self.expr))
        raise ValueError(self.kind)

    def coq(self):
        """Coq term (PV.Model.Rel transform) when the step is expressible in the abstract form, else None"""
        try:
            if self.raw is not None or (self.coq_text is not None and self.info.get("orig_prql") == self.prql()):
                return self.coq_text
            if self.wrap is not None:
                return None
            if self.kind == "filter" and is_plain(self.expr):
                return "TFilter %s" % P.coq_expr(self.expr)
            if self.kind == "derive" and all(is_plain(e) for _, e in self.items):
                return "TDerive [%s]" % "; ".join("(Some %d%%N, %s)" % (P.nid(n), P.coq_expr(e)) for n, e in self.items)
            if self.kind == "select" and all(is_plain(e) for _, e in self.items):
                return "TSelect [%s]" % "; ".join("(%s, %s)" % ("None" if n is None else "Some %d%%N" % P.nid(n), P.coq_expr(e)) for n, e in self.items)
            if self.kind == "sort" and all(is_plain(e) for _, e in self.keys):
                return "TSort %s" % P.coq_keys(self.keys)
        except ValueError:
            return None
        return None

    def slots(self):
        """expression slots: [(slot id, expr)]"""
        if self.raw is not None:
            return []
        if self.wrap is not None:
            return [(("w", i), e) for i, (n, e) in enumerate(self.items)]
        if self.kind == "filter":
            return [(("e",), self.expr)]
        if self.kind in ("derive", "select"):
            return [(("i", i), e) for i, (n, e) in enumerate(self.items)]
        if self.kind == "sort":
            return [(("k", i), e) for i, (d, e) in enumerate(self.keys)]
        if self.kind == "join_ref":
            return []
        return []

    def set_slot(self, sid, e):
        if sid[0] == "e":
            self.expr = e
        elif sid[0] == "w":
            self.items[sid[1]] = (self.items[sid[1]][0], e)
        elif sid[0] == "i":
            n, old = self.items[sid[1]]
            if n is None and e[0] != "col":
                n = old[2]          # `select {a}` -> `select {a = (f ..)}` keeps the column name
            self.items[sid[1]] = (n, e)
        elif sid[0] == "k":
            self.keys[sid[1]] = (self.keys[sid[1]][0], e)

    def exprs(self):
        out = [e for _, e in self.slots()]
        if self.call is not None:
            out.append(self.call)
        if self.kind == "join_ref":
            out.append(self.expr)
        return out

    def map_exprs(self, fn):
        for sid, e in self.slots():
            self.set_slot(sid, map_expr(e, fn))
        if self.call is not None:
            self.call = map_expr(self.call, fn)


class LetTable:
    def __init__(self, name, head, steps, style="let"):
        self.name, self.head, self.steps, self.style = name, head, steps, style

    def prql(self):
        if self.style == "into":
            return "\n".join(["from " + self.head] + [s.prql() for s in self.steps] + ["into " + self.name, ""])
        return "let %s = (%s)" % (self.name, " | ".join(["from " + self.head] + [s.prql() for s in self.steps]))


class Func:
    """params: [(name, default expr | None)] in declaration order; body: expr, or (relparam, [RStep]) for a transform function"""

    def __init__(self, name, params, body=None, tbody=None, relparam=None):
        self.name, self.params, self.body, self.tbody, self.relparam = name, params, body, tbody, relparam

    def prql(self):
        ps = ["%s:%s" % (n, show_expr(d)) if d is not None else n for n, d in self.params]
        if self.tbody is not None:
            if self.relparam is not None:
                ps.append(self.relparam)
                return "let %s = %s -> (%s)" % (self.name, " ".join(ps), " | ".join([self.relparam] + [s.prql() for s in self.tbody]))
            return "let %s = %s -> (%s)" % (self.name, " ".join(ps), " | ".join(s.prql() for s in self.tbody))
        return "let %s = %s -> %s" % (self.name, " ".join(ps), show_expr(self.body))


class Module:
    def __init__(self, name, decls):
        self.name, self.decls = name, decls

    def prql(self):
        body = "\n".join("  " + l for d in self.decls for l in d.prql().split("\n"))
        return "module %s {\n%s\n}" % (self.name, body)


class RProg:
    def __init__(self, head, steps, decls=None, base=None, fresh=None):
        self.head, self.steps, self.decls, self.base = head, steps, decls or [], base
        self.fresh = fresh or {}
        self.trace = []     # labels of the rewrites applied so far
        self.last_func = None

    def prql(self):
        lines = [d.prql() for d in self.decls]
        lines += ["from " + self.head] + [s.prql() for s in self.steps]
        return "\n".join(lines)

    def coq(self):
        """Coq list of transforms when the whole program (no declarations) is abstractly expressible"""
        if self.decls or self.head != "t":
            return None
        cs = [s.coq() for s in self.steps]
        if any(c is None for c in cs):
            return None
        return "[" + "; ".join(cs) + "]"

    def new(self, prefix):
        self.fresh[prefix] = self.fresh.get(prefix, 0) + 1
        return "%s_%d" % (prefix, self.fresh[prefix])

    def clone(self):
        base = self.base
        self.base = None
        c = copy.deepcopy(self)
        self.base = base
        c.base = base
        return c

    def all_step_lists(self):
        """every list of steps in the program (main pipeline, let-tables, transform-function bodies), modules included"""
        out = [self.steps]

        def walk(ds):
            for d in ds:
                if isinstance(d, LetTable):
                    out.append(d.steps)
                elif isinstance(d, Func) and d.tbody is not None:
                    out.append(d.tbody)
                elif isinstance(d, Module):
                    walk(d.decls)
        walk(self.decls)
        return out


_FN_NAMES = sorted({v.split()[0] for v in list(P.WFNS.values()) + list(P.AGGS.values())}, key=len, reverse=True)
_WITEM = re.compile(r"([A-Za-z_][A-Za-z0-9_]*) = (%s)((?: \d+)*) (.*)" % "|".join(_FN_NAMES))
_WRAP_PATTERNS = [r"(derive \{)(.*)(\})", r"(window \S+ \(derive \{)(.*)(\}\))",
                  r"(group \{[^{}]*\} \(sort \{[^{}]*\} \| derive \{)(.*)(\}\))",
                  r"(aggregate \{)(.*)(\})", r"(group \{[^{}]*\} \(aggregate \{)(.*)(\}\))"]


def from_program(pg):
    """prog.Program -> RProg (expression slots re-parsed; anything that does not round-trip stays raw)"""
    steps = []
    for st in pg.steps:
        info = dict(st.info)
        before, after = info.get("cols_before"), info.get("cols_after")
        rs = None
        try:
            if st.kind == "filter" and st.prql.startswith("filter "):
                rs = RStep("filter", expr=parse_expr(st.prql[7:]))
            elif st.kind == "derive":
                m = re.fullmatch(r"derive \{(.*)\}", st.prql)
                items = []
                for it in split_top(m.group(1)):
                    n, e = it.split(" = ", 1)
                    items.append((n.strip(), parse_expr(e)))
                rs = RStep("derive", items=items)
            elif st.kind == "select":
                m = re.fullmatch(r"select \{(.*)\}", st.prql)
                items = []
                for it in split_top(m.group(1)):
                    mm = re.match(r"([A-Za-z_][A-Za-z0-9_]*) = (.*)$", it)
                    if mm:
                        items.append((mm.group(1), parse_expr(mm.group(2))))
                    else:
                        items.append((None, parse_expr(it)))
                rs = RStep("select", items=items)
            elif st.kind == "sort":
                m = re.fullmatch(r"sort \{(.*)\}", st.prql)
                keys = []
                for it in split_top(m.group(1)):
                    d = it.startswith("-")
                    keys.append((d, parse_expr(it[1:] if d else it)))
                rs = RStep("sort", keys=keys)
            elif st.kind in ("win", "group_win", "aggregate", "group_agg"):
                for pat in _WRAP_PATTERNS:
                    m = re.fullmatch(pat, st.prql)
                    if m:
                        items = []
                        for it in split_top(m.group(2)):
                            mm = _WITEM.fullmatch(it)
                            items.append((mm.group(1), ("wcall", mm.group(2), [("lit", int(x)) for x in mm.group(3).split()], parse_expr(mm.group(4)))))
                        rs = RStep(st.kind, items=items)
                        rs.wrap = (m.group(1), m.group(3))
                        break
        except (ParseError, AttributeError, ValueError):
            rs = None
        if rs is not None and rs.prql() != st.prql:
            rs = None
        if rs is None:
            rs = RStep(st.kind, raw=st.prql)
        rs.coq_text = st.coq
        info["orig_prql"] = st.prql
        rs.info, rs.before, rs.after = info, before, after
        steps.append(rs)
    # frames of steps prog.py added itself (final select)
    for i, s in enumerate(steps):
        if s.before is None and i > 0:
            s.before = steps[i - 1].after
        if s.before is None and i == 0:
            s.before = [(None, c) for c in P.TABLES["t"]]
        if s.after is None and s.kind == "select" and s.structured():
            s.after = [(None, n if n is not None else e[2]) for n, e in s.items]
    return RProg("t", steps, base=pg)


def frame_at(rp, k):
    """frame in front of step k of the main pipeline (k = len(steps): final frame); None when unknown"""
    if k < len(rp.steps):
        return rp.steps[k].before
    return rp.steps[-1].after if rp.steps else None


_QUAL = re.compile(r"\b(?:t|u)\.[A-Za-z_]")
_FNAME = re.compile(r"\b((?:fn|tr)_\d+)\b")


def all_decls(ds):
    out = []
    for d in ds:
        if isinstance(d, Module):
            out += all_decls(d.decls)
        else:
            out.append(d)
    return out


def uses_qualifier(steps, rp=None):
    """does the text of these steps -- or the body of a user function they call -- mention t.x / u.x ?"""
    texts = [s.prql() for s in steps]
    if any(_QUAL.search(t) for t in texts):
        return True
    if rp is None:
        return False
    funcs = {d.name: d.prql() for d in all_decls(rp.decls) if isinstance(d, Func)}
    todo = {m for t in texts for m in _FNAME.findall(t)}
    seen = set()
    while todo:
        f = todo.pop()
        if f in seen or f not in funcs:
            continue
        seen.add(f)
        if _QUAL.search(funcs[f]):
            return True
        todo |= set(_FNAME.findall(funcs[f]))
    return False


# ------------------------------------------------------------------------------ (a) let / into

def sites_let(rp, rng, styles=("let", "into")):
    out = []
    n = len(rp.steps)
    for k in range(0, n + 1):
        rest = rp.steps[k:]
        if uses_qualifier(rest, rp):
            continue        # `from r_1` renames the relation: qualified references to t / u would dangle
        fr = frame_at(rp, k)
        if fr is not None and len({c for _, c in fr}) != len(fr):
            continue        # a frame with duplicate names cannot be named (its CTE would have ambiguous columns)
        for style in styles:
            q = rp.clone()
            name = q.new("r")
            q.decls.append(LetTable(name, q.head, q.steps[:k], style))
            q.head = name
            q.steps = q.steps[k:]
            lab = "%s@%d" % (style, k)
            q.trace = rp.trace + [lab]
            out.append((lab, q))
    return out


# ------------------------------------------------------------------------------ (c) filter split / merge

def sites_filter_split(rp, rng):
    out = []
    for i, s in enumerate(rp.steps):
        if s.kind == "filter" and s.structured() and s.expr[0] == "bin" and s.expr[1] == "And":
            q = rp.clone()
            a = RStep("filter", expr=s.expr[2], before=s.before, after=s.after)
            b = RStep("filter", expr=s.expr[3], before=s.after, after=s.after)
            q.steps[i:i + 1] = [a, b]
            q.trace = rp.trace + ["filter-split@%d" % i]
            out.append(("filter-split@%d" % i, q))
    return out


def sites_filter_merge(rp, rng):
    out = []
    for i in range(len(rp.steps) - 1):
        a, b = rp.steps[i], rp.steps[i + 1]
        if a.kind == "filter" and b.kind == "filter" and a.structured() and b.structured():
            q = rp.clone()
            q.steps[i:i + 2] = [RStep("filter", expr=("bin", "And", a.expr, b.expr), before=a.before, after=b.after)]
            q.trace = rp.trace + ["filter-merge@%d" % i]
            out.append(("filter-merge@%d" % i, q))
    return out


# ------------------------------------------------------------------------------ (d) identity transforms

def sites_identity(rp, rng, kinds=("derive-empty", "filter-true", "select-all", "sort-before-sort", "take-open")):
    out = []
    n = len(rp.steps)
    for k in range(0, n + 1):
        fr = frame_at(rp, k)
        cands = []
        if "derive-empty" in kinds:
            cands.append(("id-derive-empty", RStep("derive", items=[], before=fr, after=fr)))
        if "filter-true" in kinds:
            cands.append(("id-filter-true", RStep("filter", raw="filter true", coq="TFilter (ELit (VInt 1))", before=fr, after=fr)))
        if "take-open" in kinds:
            cands.append(("id-take-open", RStep("take", raw="take 1..", coq="TTake (Some 1) None", before=fr, after=fr, info={"rng": (1, 1 << 30)})))
        if "select-all" in kinds and fr is not None and all(qq is None for qq, _ in fr) and len({c for _, c in fr}) == len(fr) and fr \
                and not uses_qualifier(rp.steps[k:], rp):      # after a select the reference semantics knows no qualifier (the compiler does)
            cands.append(("id-select-all", RStep("select", items=[(None, ("col", None, c)) for _, c in fr], before=fr, after=fr)))
        if "sort-before-sort" in kinds and k < n and rp.steps[k].kind == "sort" and fr:
            qq, c = rng.choice(fr)
            cands.append(("id-sort-before-sort", RStep("sort", keys=[(rng.random() < 0.5, ("col", qq, c))], before=fr, after=fr)))
        for lab, st in cands:
            q = rp.clone()
            q.steps.insert(k, st)
            q.trace = rp.trace + ["%s@%d" % (lab, k)]
            out.append(("%s@%d" % (lab, k), q))
    return out


# ------------------------------------------------------------------------------ (b) user functions

def coq_func_call(f, call, node):
    """Coq text of `(beta F C, Some NODE)` over PV.Model.Subst, or None when a part is not a plain expression"""
    unparam = lambda e: map_expr(e, lambda n: ("col", None, n[1]) if n[0] == "param" else n)
    piped = None
    if call[0] == "pipe":
        piped, call = call[1], call[2]
    parts = [f.body, node] + [d for _, d in f.params if d is not None] + [a for _, a in call[2]] + list(call[3]) + ([piped] if piped is not None else [])
    if f.body is None or not all(is_plain(unparam(x)) for x in parts):
        return None
    ps = "; ".join("(%d%%N, %s)" % (P.nid(n), "None" if d is None else "Some %s" % P.coq_expr(d)) for n, d in f.params)
    fn = "{| f_params := [%s]; f_body := %s |}" % (ps, P.coq_expr(unparam(f.body)))
    c = "{| c_named := [%s]; c_pos := [%s] |}" % ("; ".join("(%d%%N, %s)" % (P.nid(n), P.coq_expr(a)) for n, a in call[2]),
                                                    "; ".join(P.coq_expr(a) for a in call[3]))
    if piped is not None:
        c = "(pipe %s %s)" % (P.coq_expr(piped), c)
    return "(beta %s %s, Some %s)" % (fn, c, P.coq_expr(node))


FUNC_VARIANTS = ["pos", "named-omit", "named-pass", "piped", "piped-named", "module", "module2"]


def _choose_params(node, rng, kmax=3):
    """disjoint proper subterms of `node` to abstract (for a leaf: the node itself)"""
    def null_operand(p, n):
        # `x == null` / `x != null` are PRQL's IS NULL tests only while the null is LITERALLY there: a parameter bound to
        # null would compare by value (unknown).  The literal stays in the body.
        if n != ("lit", None) or not p:
            return False
        parent = node_at(node, p[:-1])
        return parent[0] == "bin" and parent[1] in ("Eq", "Ne")
    subs = [(p, n) for p, n in subterms(node) if p and n[0] not in ("param",) and not null_operand(p, n)]
    if not subs:
        return [()]
    rng.shuffle(subs)
    chosen = []
    want = rng.randint(1, kmax)
    for p, n in subs:
        if len(chosen) >= want:
            break
        if any(p[:len(c)] == c or c[:len(p)] == p for c in chosen):
            continue
        chosen.append(p)
    return chosen


def _abstract(rp, node, rng, variant):
    """-> (Func decl (not yet placed), call expression) such that beta-reducing the call gives `node` back"""
    paths = _choose_params(node, rng)
    params, args, body = [], [], node
    for p in paths:
        pn = rp.new("pa")
        arg = node_at(node, p)
        body = replace_at(body, p, ("param", pn))
        params.append(pn)
        args.append(arg)
    fname = rp.new("fn")
    named_idx = None
    decl_params = [(pn, None) for pn in params]
    named, pos = [], list(args)
    if variant in ("named-omit", "named-pass", "piped-named"):
        if len(params) == 1 and variant == "piped-named":
            # need one positional parameter to pipe into: add a second parameter used nowhere?  No: keep semantics
            # exact -- abstract nothing more, make the only parameter positional and add a named one with a default
            # that the body ignores is not a faithful "body is that expression" rewrite; fall back to named-pass
            variant = "named-pass"
        named_idx = rng.randrange(len(params))
        lit_idx = [i for i, a in enumerate(args) if a[0] == "lit" and a[1] is not None]
        if lit_idx and rng.random() < 0.7:
            named_idx = rng.choice(lit_idx)
        if variant == "piped-named" and named_idx == len(params) - 1:
            named_idx = 0
        pn, arg = params[named_idx], args[named_idx]
        if variant == "named-omit":
            default = arg
        else:
            default = ("lit", rng.choice([0, 1, 2, 3, 7, -1]))
            named = [(pn, arg)]
        pos = [a for i, a in enumerate(args) if i != named_idx]
        others = [(p_, None) for i, p_ in enumerate(params) if i != named_idx]
        at = rng.randint(0, len(others))
        decl_params = others[:at] + [(pn, default)] + others[at:]
    call = ("call", fname, named, pos)
    if variant in ("piped", "piped-named") and pos:
        call = ("pipe", pos[-1], ("call", fname, named, pos[:-1]))
    f = Func(fname, decl_params, body=body)
    # engine self-check: beta-reduction gives the original expression back
    binding = dict(zip(params, args))
    if subst_params(body, binding) != node:
        raise AssertionError("abstraction is not invertible")
    return f, call


def _place(q, decl, variant):
    """put a declaration at top level or into (nested) modules; returns the path prefix for references"""
    if variant == "module":
        m = q.new("m")
        q.decls.append(Module(m, [decl]))
        return m + "."
    if variant == "module2":
        m, m2 = q.new("m"), q.new("m")
        q.decls.append(Module(m, [Module(m2, [decl])]))
        return m + "." + m2 + "."
    q.decls.append(decl)
    return ""


def _prefix_call(call, pre):
    if call[0] == "pipe":
        return ("pipe", call[1], _prefix_call(call[2], pre))
    return ("call", pre + call[1], call[2], call[3])


def sites_func(rp, rng, variants=FUNC_VARIANTS, per_slot=None):
    """every expression slot of the main pipeline x every call variant (sub-expression and parameters chosen at random)"""
    out = []
    for i, s in enumerate(rp.steps):
        for sid, e in s.slots():
            if s.kind == "select" and s.items[sid[1]][0] is None:
                # `select {a, ..}` -> `select {a = (f a), ..}` puts the alias `a` in scope of the LATER items of the tuple
                # (PRQL resolves tuple items left to right): not the same program when one of them mentions `a`
                nm = e[2]
                if any(not (later[0] == "col" and later[2] != nm) for _, later in s.items[sid[1] + 1:]):
                    continue        # (a later call could mention `a` through a default value: only plain other columns may follow)
                # the aliased column no longer belongs to relation t / u: later `t.a` would dangle
                if uses_qualifier(rp.steps[i + 1:], rp):
                    continue
            vs = list(variants)
            if per_slot is not None:
                rng.shuffle(vs)
                vs = vs[:per_slot]
            for v in vs:
                q = rp.clone()
                qs = q.steps[i]
                inner = [(p, n) for p, n in subterms(e) if n[0] in ("bin", "neg", "not", "isnull", "case") and p]
                if inner and rng.random() < 0.4:
                    path, node = rng.choice(inner)
                else:
                    path, node = (), e
                if node[0] in ("call", "pipe", "param"):
                    continue
                f, call = _abstract(q, node, rng, v)
                q.last_func = (f, call, node)       # for the tie with Model/Subst.v (beta f call must be `node`)
                pre = _place(q, f, v)
                call = _prefix_call(call, pre)
                qs.set_slot(sid, replace_at(e, path, call))
                lab = "func-%s@%d.%s" % (v, i, ".".join(str(x) for x in sid[1:]) or "e")
                q.trace = rp.trace + [lab]
                out.append((lab, q))
    return out


def sites_func_nested(rp, rng):
    """a sub-expression of the BODY of a generated top-level function becomes a second function, declared in front of
    the first and called from its body (`let fn_2 = pa_3 -> (pa_3 + 1)`, `let fn_1 = pa_1 -> ((fn_2 pa_1) * 2)`):
    a function that refers to another declaration.  Every parameter of the outer function that occurs in the
    sub-expression is passed on as an argument (the inner body must be closed); beta-reducing inner then outer call
    gives the original expression back (checked here)."""
    out = []
    for di, d in enumerate(rp.decls):
        if not isinstance(d, Func) or d.body is None:
            continue
        cands = [(p, n) for p, n in subterms(d.body) if n[0] in ("bin", "neg", "not", "isnull", "case")
                 and not any(m[0] in ("call", "pipe", "wcall") for _, m in subterms(n))]
        if not cands:
            continue
        path, node = rng.choice(cands)
        ppaths = [p for p, n in subterms(node) if n[0] == "param"]
        if not ppaths:
            leaves = []
            for p, n in subterms(node):
                if n[0] == "col" or (n[0] == "lit" and n[1] is not None):
                    leaves.append(p)
            if not leaves:
                continue
            ppaths = [rng.choice(leaves)]
        q = rp.clone()
        dd = q.decls[di]
        body, params, args = node, [], []
        for p in ppaths:
            pn = q.new("pa")
            args.append(node_at(node, p))
            body = replace_at(body, p, ("param", pn))
            params.append(pn)
        if subst_params(body, dict(zip(params, args))) != node:
            raise AssertionError("nested abstraction is not invertible")
        fname = q.new("fn")
        inner = Func(fname, [(pn, None) for pn in params], body=body)
        dd.body = replace_at(dd.body, path, ("call", fname, [], args))
        q.decls.insert(di, inner)
        lab = "func-nested@%s" % dd.name
        q.trace = rp.trace + [lab]
        out.append((lab, q))
    return out


def directed_program(steps, ordered, final_cols):
    """hand-written base program for a directed family: steps are structured RSteps (filter / derive / select / sort), printed both
    ways by the same code as every other step (PRQL text, Rel term); frames are left unknown (None)"""
    ps = []
    for s in steps:
        c = s.coq()
        if c is None:
            raise ValueError("directed step is not expressible: %s" % s.prql())
        info = {}
        if s.kind == "sort":
            info["keys"] = list(s.keys)
        ps.append(P.Step(s.kind, s.prql(), c, **info))
    ps[-1].info["final"] = True
    return P.Program(ps, ordered, list(final_cols), {"order": None, "key_pos": None, "outer_right": False})


TRFUNC_VARIANTS = ["pos", "zero", "named-omit", "named-pass", "module"]


def sites_trfunc(rp, rng, variants=TRFUNC_VARIANTS, maxlen=3, per_site=None, pointfree=False):
    """every run [i, j) of 1..maxlen transforms becomes the body of `let tr = n rel -> (rel | ...)`, called as `tr 3`.
    One integer literal of the run (when there is one in an expression slot) becomes the parameter."""
    out = []
    n = len(rp.steps)
    for i in range(n):
        for j in range(i + 1, min(n, i + maxlen) + 1):
            run = rp.steps[i:j]
            if any(s.kind in ("call",) for s in run):
                continue
            lits = []
            for si, s in enumerate(run):
                for sid, e in s.slots():
                    for p, nd in subterms(e):
                        if nd[0] == "lit" and nd[1] is not None:
                            lits.append((si, sid, p, nd))
            vs = list(variants) + (["pointfree"] if pointfree else [])
            if per_site is not None:
                rng.shuffle(vs)
                vs = vs[:per_site]
            for v in vs:
                q = rp.clone()
                body = q.steps[i:j]
                fname = q.new("tr")
                params, named, pos = [], [], []
                if lits and v != "zero":
                    si, sid, p, nd = rng.choice(lits)
                    pn = q.new("pa")
                    e = dict(body[si].slots())[sid]
                    body[si].set_slot(sid, replace_at(e, p, ("param", pn)))
                    if v == "named-omit":
                        params = [(pn, nd)]
                    elif v == "named-pass":
                        params = [(pn, ("lit", rng.choice([0, 1, 2, 3, 7])))]
                        named = [(pn, nd)]
                    else:
                        params = [(pn, None)]
                        pos = [nd]
                elif v in ("named-omit", "named-pass"):
                    continue
                if v == "pointfree":
                    f = Func(fname, params, tbody=body, relparam=None)
                else:
                    f = Func(fname, params, tbody=body, relparam=q.new("rel"))
                pre = _place(q, f, "module" if v == "module" else "top")
                st = RStep("call", call=("call", pre + fname, named, pos), before=run[0].before, after=run[-1].after,
                           info={"kinds": [s.kind for s in run], "rng": next((s.info.get("rng") for s in run if s.kind == "take"), None)})
                q.steps[i:j] = [st]
                lab = "trfunc-%s@%d-%d" % (v, i, j)
                q.trace = rp.trace + [lab]
                out.append((lab, q))
    return out


# ------------------------------------------------------------------------------ (e) modules

def _rename_refs(q, old, new):
    """rename every reference to the top-level declaration `old` (table heads, function calls) to path `new`"""
    def fx(n):
        if n[0] == "call" and n[1] == old:
            return ("call", new, n[2], n[3])
        return n

    def walk_steps(steps):
        for s in steps:
            s.map_exprs(fx)
            if s.ref == old:
                s.ref = new

    def walk(ds):
        for d in ds:
            if isinstance(d, LetTable):
                if d.head == old:
                    d.head = new
                walk_steps(d.steps)
            elif isinstance(d, Func):
                if d.body is not None:
                    d.body = map_expr(d.body, fx)
                if d.tbody is not None:
                    walk_steps(d.tbody)
            elif isinstance(d, Module):
                walk(d.decls)
    if q.head == old:
        q.head = new
    elif q.head.endswith(" = " + old):
        q.head = q.head[: -len(old)] + new
    walk_steps(q.steps)
    walk(q.decls)


def _decoy(dd):
    """a DIFFERENT declaration of the same name and shape (left at top level when the real one moves into a module)"""
    if isinstance(dd, LetTable):
        return LetTable(dd.name, dd.head, copy.deepcopy(dd.steps) + [RStep("filter", raw="filter false")], "let")
    if dd.tbody is not None:
        return Func(dd.name, list(dd.params), tbody=copy.deepcopy(dd.tbody) + [RStep("filter", raw="filter false")], relparam=dd.relparam)
    return Func(dd.name, list(dd.params), body=("lit", None))


def sites_module(rp, rng, depth2=True, decoy=True):
    """move one top-level let-table / function into `module m { .. }` (or two nested modules); all references become paths.
    decoy variant: a different, unused declaration of the same name stays at top level -- `m.name` must not find it"""
    out = []
    for di, d in enumerate(rp.decls):
        if isinstance(d, Module):
            continue
        for depth in ((1, 2, 3) if (depth2 and decoy) else (1, 2) if depth2 else (1, 3) if decoy else (1,)):
            q = rp.clone()
            dd = q.decls[di]
            if depth == 3 and isinstance(dd, Func) and dd.tbody is not None and dd.relparam is None:
                continue
            if isinstance(dd, LetTable):
                dd.style = "let"
            m = q.new("m")
            if depth in (1, 3):
                q.decls[di] = Module(m, [dd])
                path = m + "." + dd.name
            else:
                m2 = q.new("m")
                q.decls[di] = Module(m, [Module(m2, [dd])])
                path = m + "." + m2 + "." + dd.name
            _rename_refs(q, dd.name, path)
            if depth == 3:
                q.decls.insert(di + 1, _decoy(dd))
            lab = "module%s@%s" % ({1: "", 2: "2", 3: "-decoy"}[depth], dd.name)
            q.trace = rp.trace + [lab]
            out.append((lab, q))
    return out


def sites_module_siblings(rp, rng):
    """two top-level declarations where the second refers to the first move TOGETHER into one module; the inner
    reference stays relative (reference/spec/modules.md: identifiers are resolved relative to the current module)"""
    out = []
    for i, a in enumerate(rp.decls):
        for j, b in enumerate(rp.decls):
            if j <= i or isinstance(a, Module) or isinstance(b, Module):
                continue
            refers = (isinstance(b, LetTable) and b.head == a.name) or \
                     (isinstance(b, Func) and b.body is not None and any(n[0] == "call" and n[1] == a.name for _, n in subterms(b.body)))
            if not refers:
                continue
            q = rp.clone()
            da, db = q.decls[i], q.decls[j]
            for d in (da, db):
                if isinstance(d, LetTable):
                    d.style = "let"
            m = q.new("m")
            rest = [d for k, d in enumerate(q.decls) if k not in (i, j)]
            q.decls = rest[:i] + [Module(m, [da, db])] + rest[i:]
            _rename_refs(q, db.name, m + "." + db.name)
            # references to `a` from OUTSIDE the module become paths; the one inside `b` stays relative
            keep_head = db.head if isinstance(db, LetTable) else None
            keep_body = db.body if isinstance(db, Func) else None
            _rename_refs(q, da.name, m + "." + da.name)
            if keep_head is not None:
                db.head = keep_head
            if keep_body is not None:
                db.body = keep_body
            lab = "module-siblings@%s,%s" % (da.name, db.name)
            q.trace = rp.trace + [lab]
            out.append((lab, q))
            if isinstance(da, LetTable) and isinstance(db, LetTable):
                # nested: `a` in the outer module, `b` in a child module; b's reference to a stays relative and is found in the
                # PARENT module (modules.md: "tries to resolve relative to the parent module", repeated up to the root)
                q2 = rp.clone()
                da2, db2 = q2.decls[i], q2.decls[j]
                da2.style = db2.style = "let"
                m, m2 = q2.new("m"), q2.new("m")
                rest2 = [d for k, d in enumerate(q2.decls) if k not in (i, j)]
                q2.decls = rest2[:i] + [Module(m, [da2, Module(m2, [db2])])] + rest2[i:]
                _rename_refs(q2, db2.name, m + "." + m2 + "." + db2.name)
                keep_head2 = db2.head
                _rename_refs(q2, da2.name, m + "." + da2.name)
                db2.head = keep_head2
                lab2 = "module-siblings-parent@%s,%s" % (da2.name, db2.name)
                q2.trace = rp.trace + [lab2]
                out.append((lab2, q2))
    return out


# ------------------------------------------------------------------------------ all kinds, compositions

KINDS = {
    "let": lambda rp, rng: sites_let(rp, rng, ("let",)),
    "into": lambda rp, rng: sites_let(rp, rng, ("into",)),
    "func": sites_func,
    "trfunc": sites_trfunc,
    "filter-split": sites_filter_split,
    "filter-merge": sites_filter_merge,
    "identity": sites_identity,
    "module": sites_module,
}


def kind_of(label):
    l = label.split("@")[0]
    for k in ("func-", "trfunc-", "id-", "module", "filter-", "let", "into"):
        if l.startswith(k):
            return {"func-": "func", "trfunc-": "trfunc", "id-": "identity", "module": "module", "filter-": "filter", "let": "let", "into": "let"}[k]
    return l


def all_sites(rp, rng, func_per_slot=None, trfunc_per_site=None, trfunc_maxlen=3):
    out = []
    out += sites_let(rp, rng)
    out += sites_filter_split(rp, rng) + sites_filter_merge(rp, rng)
    out += sites_func(rp, rng, per_slot=func_per_slot)
    out += sites_trfunc(rp, rng, per_site=trfunc_per_site, maxlen=trfunc_maxlen)
    out += sites_identity(rp, rng)
    out += sites_module(rp, rng)
    return out


def random_chain(rp, rng, length):
    """apply `length` rewrites one after the other, each at a random applicable site of a random kind"""
    cur = rp
    for _ in range(length):
        kinds = list(KINDS)
        rng.shuffle(kinds)
        nxt = None
        for k in kinds:
            if k == "func":
                ss = sites_func(cur, rng, per_slot=1)
            elif k == "trfunc":
                ss = sites_trfunc(cur, rng, per_site=1)
            else:
                ss = KINDS[k](cur, rng)
            if ss:
                nxt = rng.choice(ss)[1]
                break
        if nxt is None:
            break
        cur = nxt
    return cur


# ------------------------------------------------------------------------------ two references to one let-table

def two_ref_pairs(pg, rng, force_rest=None):
    """pg: prog.Program with final select (frame = pg.final_cols, unqualified, distinct names).
    Returns [(label, base prql, rewritten RProg, coq expression template, ordered, final_cols)].  The base
    spells the prefix out twice; the rewritten form names it once and refers to it twice.  The Coq template
    mentions TQ_BASE (table t as `from t` sees it) and prog.py's own placeholders (T_TABLE, U_TABLE, ...), to be
    filled in the way vplib/rel/run.model_expr does."""
    rp = from_program(pg)
    cols = list(pg.final_cols)
    if not cols or len(set(cols)) != len(cols):
        return []
    pre_lines = ["from t"] + [s.prql() for s in rp.steps]
    pre_txt = " | ".join(pre_lines)
    pcoq = pg.coq()
    out = []
    k = cols[0]
    # --- append: from P | append P | rest
    rests = [([], [], cols)]
    c0 = rng.choice(cols)
    rests.append((["filter (%s > 0)" % c0], ["TFilter (EBin Gt (ECol None %d%%N) (ELit (VInt 0)))" % P.nid(c0)], cols))
    rests.append((["aggregate {n_all = count this, s_0 = sum %s}" % c0],
                  ["TAggregate [(Some %d%%N, ACount, ELit (VInt 1)); (Some %d%%N, ASum, ECol None %d%%N)]" % (P.nid("n_all"), P.nid("s_0"), P.nid(c0))],
                  ["n_all", "s_0"]))
    rests.append((["group {%s} (aggregate {n_all = count this})" % k],
                  ["TGroupAgg [%d%%N] [(Some %d%%N, ACount, ELit (VInt 1))]" % (P.nid(k), P.nid("n_all"))], [k, "n_all"]))
    rtxt, rcoq, fcols = rng.choice(rests) if force_rest is None else rests[force_rest]     # force_rest: 0 nothing, 1 filter, 2 aggregate, 3 group
    base = "\n".join(pre_lines + ["append (%s)" % pre_txt] + rtxt)
    q = from_program(pg)
    name = q.new("r")
    q.decls.append(LetTable(name, "t", q.steps, "let"))
    q.head = name
    q.steps = [RStep("append_ref", ref=name)] + [RStep("raw", raw=t) for t in rtxt]
    q.trace = ["let2-append"]
    coq = "(let x := run TQ_BASE %s in run x ([TAppend x] ++ [%s]))" % (pcoq, "; ".join(rcoq))
    out.append(("let2-append", base, q, coq, False, fcols))
    # --- self join: from P | derive {lk = k} | join y = P (lk == y.k) | select {lk, y.c...}
    lk = "lk_1"
    side = rng.choice(["Inner", "LeftJ"])
    others = [c for c in cols if c != k][:2]
    on = ("bin", "Eq", ("col", None, lk), ("col", "y", k))
    if others and rng.random() < 0.5:
        on = ("bin", "And", on, ("bin", rng.choice(["Le", "Ne", "Gt"]), ("col", "y", others[0]), ("lit", rng.choice([0, 1, 2]))))
    sel_items = [(None, ("col", None, lk))] + [("y_" + c, ("col", "y", c)) for c in [k] + others]
    jtxt = "join %sy = (%s) (%s)" % ("side:left " if side == "LeftJ" else "", pre_txt, show_expr(on))
    seltxt = "select {%s}" % ", ".join(show_expr(e) if n is None else "%s = %s" % (n, show_expr(e)) for n, e in sel_items)
    base = "\n".join(pre_lines + ["derive {%s = %s}" % (lk, k), jtxt, seltxt])
    q = from_program(pg)
    name = q.new("r")
    q.decls.append(LetTable(name, "t", q.steps, "let"))
    q.head = name
    q.steps = [RStep("raw", raw="derive {%s = %s}" % (lk, k)),
               RStep("join_ref", ref=name, expr=on, info={"alias": ("side:left " if side == "LeftJ" else "") + "y"}),
               RStep("raw", raw=seltxt)]
    q.trace = ["let2-selfjoin"]
    selc = "; ".join("(%s, %s)" % ("None" if n is None else "Some %d%%N" % P.nid(n), P.coq_expr(e)) for n, e in sel_items)
    coq = ("(let x := run TQ_BASE %s in run x [TDerive [(Some %d%%N, ECol None %d%%N)]; TJoin %s %d%%N %s x %s; TSelect [%s]])"
           % (pcoq, P.nid(lk), P.nid(k), side, P.nid("y"), P.coq_names(cols), P.coq_expr(on), selc))
    out.append(("let2-selfjoin", base, q, coq, False, [lk] + ["y_" + c for c in [k] + others]))
    # --- direct self join: both sides referenced through aliases, no helper column in between
    #     from x = P | join y = P (x.k == y.k) | select {lk = x.k, y.c...}      (same meaning, same reference term)
    #     (only where the left columns still belong to the relation named at `from`: plain table columns passed through)
    if set(pg.kinds()) <= {"filter", "sort", "take", "select", "derive"} and all(c in P.TABLES["t"] for c in [k] + others):
        on2 = map_expr(on, lambda n: ("col", "x", k) if n == ("col", None, lk) else n)
        sel2 = [(lk, ("col", "x", k))] + sel_items[1:]
        jtxt2 = "join %sy = (%s) (%s)" % ("side:left " if side == "LeftJ" else "", pre_txt, show_expr(on2))
        seltxt2 = "select {%s}" % ", ".join("%s = %s" % (n, show_expr(e)) for n, e in sel2)
        base2 = "\n".join(["from x = t"] + pre_lines[1:] + [jtxt2, seltxt2])
        q = from_program(pg)
        name = q.new("r")
        q.decls.append(LetTable(name, "t", q.steps, "let"))
        q.head = "x = " + name
        q.steps = [RStep("join_ref", ref=name, expr=on2, info={"alias": ("side:left " if side == "LeftJ" else "") + "y"}), RStep("raw", raw=seltxt2)]
        q.trace = ["let2-selfjoin-direct"]
        out.append(("let2-selfjoin-direct", base2, q, coq, False, [lk] + ["y_" + c for c in [k] + others]))
    return out

"""End-to-end oracle of the relational core: one abstract program is (1) printed as PRQL, compiled by the
implementation and executed on SQLite, (2) printed as a Coq term and evaluated by the reference
semantics PV.Model.Rel inside Coq; the two results are compared (as sequences when the program's
final order is specified, as multisets otherwise), plus column count/names."""
import json
from fractions import Fraction

from ..common import coq_eval, harness
from . import prog as P

HEADER = ("From Coq Require Import List ZArith QArith NArith.\nFrom PV Require Import Model.Rel.\n"
          "Import ListNotations.\nLocal Open Scope Z_scope.\n")


def model_expr(program, inst):
    if hasattr(program, "model_expr"):
        return program.model_expr(inst)
    base = P.coq_rel("t", inst["t"], "(Some %d%%N)" % P.nid("t"), P.inst_cols(inst, "t"))
    pg = program.coq().replace("U_TABLE", P.coq_rel("u", inst["u"], "None", P.inst_cols(inst, "u"))).replace("T_TABLE", P.coq_rel("t", inst["t"], "None", P.inst_cols(inst, "t")))
    pg = pg.replace("U_COLS", P.coq_names(P.inst_cols(inst, "u")))
    pg = pg.replace("L_COLS", "[" + "; ".join("(Some %d%%N, Some %d%%N)" % (P.nid("t"), P.nid(c)) for c in P.inst_cols(inst, "t")) + "]")
    return "(let r := run %s %s in (show r, names r))" % (base, pg)


def decode_model(v):
    rows_t, names_t = v
    rows = []
    for r in rows_t:
        vals = []
        for c in r:
            if c[0] == 0:
                vals.append(None)
            elif c[0] == 1:
                vals.append(Fraction(c[1], c[2]) if c[2] != 1 else c[1])
            else:
                vals.append("?")
        rows.append(vals)
    names = []
    for n in names_t:
        names.append(None if n == "None" else P.name_of_id(n[1]))
    return rows, names


def decode_sqlite(v):
    if isinstance(v, dict):
        if "f" in v:
            return float(v["f"])
        return "?"
    return v


def veq(a, b):
    if a is None or b is None:
        return a is None and b is None
    if a == "?" or b == "?" or isinstance(a, str) or isinstance(b, str):
        return False
    try:
        fa, fb = float(a), float(b)
        return abs(fa - fb) <= 1e-9 * (1 + abs(fa))
    except (TypeError, ValueError):
        return a == b


def key(row):
    return tuple((0, 0) if v is None else ((2, 0) if isinstance(v, str) else (1, round(float(v), 7))) for v in row)


def rows_equal(a, b, ordered):
    if not ordered:
        a = sorted(a, key=key)
        b = sorted(b, key=key)
    return len(a) == len(b) and all(len(x) == len(y) and all(veq(p, q) for p, q in zip(x, y)) for x, y in zip(a, b))


def run_cases(cases, targets=("sql.sqlite", "sql.generic"), want_log=False):
    """cases: list of (Program, [instance...]).  Returns list of records, one per (case, target, instance)."""
    creqs, cmeta = [], []
    for ci, (pg, insts) in enumerate(cases):
        for t in targets:
            creqs.append({"src": pg.prql(), "target": t})
            cmeta.append((ci, t))
    cans = harness("compile", creqs)
    compiled = {}
    for (ci, t), a in zip(cmeta, cans):
        compiled[(ci, t)] = a
    # model
    exprs, emeta = [], []
    for ci, (pg, insts) in enumerate(cases):
        for ii, inst in enumerate(insts):
            exprs.append(model_expr(pg, inst))
            emeta.append((ci, ii))
    mvals = coq_eval(HEADER, exprs)
    model = {}
    for (ci, ii), v in zip(emeta, mvals):
        model[(ci, ii)] = decode_model(v) if v is not None else None
    # sqlite
    xreqs, xmeta = [], []
    for ci, (pg, insts) in enumerate(cases):
        for t in targets:
            a = compiled[(ci, t)]
            if "ok" not in a:
                continue
            for ii, inst in enumerate(insts):
                xreqs.append({"setup": P.sql_setup(inst), "sql": a["ok"]})
                xmeta.append((ci, t, ii))
    xans = harness("exec", xreqs)
    executed = {}
    for m, a in zip(xmeta, xans):
        executed[m] = a
    recs = []
    for ci, (pg, insts) in enumerate(cases):
        for t in targets:
            a = compiled[(ci, t)]
            for ii, inst in enumerate(insts):
                rec = {"program": pg, "prql": pg.prql(), "target": t, "instance": inst, "ci": ci, "ii": ii}
                if "ok" not in a:
                    rec["verdict"] = "panic" if ("panic" in a or "abort" in a) else "compile-err"
                    rec["compile"] = a
                    recs.append(rec)
                    continue
                rec["sql"] = a["ok"]
                x = executed[(ci, t, ii)]
                m = model[(ci, ii)]
                if m is None:
                    rec["verdict"] = "model-missing"
                    recs.append(rec)
                    continue
                mrows, mnames = m
                if not mrows and pg.final_cols is not None:
                    mnames = list(pg.final_cols)   # the frame of an empty result comes from the generator's frame tracking
                rec["model_rows"], rec["model_names"] = mrows, mnames
                if "rows" not in x:
                    rec["verdict"] = "sql-err"
                    rec["sqlite"] = x
                    recs.append(rec)
                    continue
                rows = [[decode_sqlite(v) for v in r] for r in x["rows"]]
                rec["sqlite_rows"], rec["sqlite_cols"] = rows, x["cols"]
                if not rows_equal(rows, mrows, pg.ordered):
                    rec["verdict"] = "rows"
                elif len(x["cols"]) != len(mnames) or not all(w is None or w == g for w, g in zip(mnames, x["cols"])):
                    rec["verdict"] = "names"
                else:
                    rec["verdict"] = "ok"
                recs.append(rec)
    return recs


def replay_of(rec):
    """JSON-serialisable replay of one record"""
    def ser(rows):
        return [[(str(v) if isinstance(v, Fraction) else v) for v in r] for r in rows] if rows is not None else None
    return {"prql": rec["prql"], "target": rec["target"], "instance": rec["instance"], "sql": rec.get("sql"),
            "verdict": rec["verdict"], "ordered": rec["program"].ordered, "kinds": rec["program"].kinds(),
            "sqlite_rows": ser(rec.get("sqlite_rows")), "sqlite_cols": rec.get("sqlite_cols"),
            "model_rows": ser(rec.get("model_rows")), "model_names": rec.get("model_names"),
            "sqlite": rec.get("sqlite"), "compile": rec.get("compile")}
